//! C26 – every compression codec is lossless (K5 at the compressor / decompressor traits).
//!
//! The codec is selected the way Lance selects it: `DefaultCompressionStrategy` (file version 2.1 /
//! 2.2) + field metadata (`lance-encoding:compression`, `:rle-threshold`, `:bss`) + the block's
//! statistics; the emitted `CompressiveEncoding` is handed to `DefaultDecompressionStrategy`.
//! Three seams:
//!   * mini-block: `create_miniblock_compressor` -> chunks -> per chunk `MiniBlockDecompressor`;
//!     chunk limits (<= 4096 values, <= 8186 bytes, power-of-two sizes except the last, all bytes
//!     accounted for) are checked as well;
//!   * per-value (full-zip): `create_per_value` -> fixed / variable per-value decompressor, whole block
//!     and single values (first / middle / last) on their own;
//!   * block: `create_block_compressor` -> `BlockDecompressor`.
//! Plus `dict::dictionary_encode` -> `DictionaryDataBlock::decode`.
//! Which codec was actually reached is recorded per case (evidence `distinct_outcomes`), and the run
//! fails as machinery error if one of the codecs named in the property was never reached.

use lance_core::datatypes::Field;
use lance_encoding::buffer::LanceBuffer;
use lance_encoding::compression::{
    CompressionStrategy, DecompressionStrategy, DefaultCompressionStrategy, DefaultDecompressionStrategy,
};
use lance_encoding::data::{BlockInfo, DataBlock, DictionaryDataBlock, FixedWidthDataBlock, VariableWidthBlock};
use lance_encoding::encodings::logical::primitive::fullzip::PerValueDataBlock;
use lance_encoding::encodings::logical::primitive::miniblock::{MAX_MINIBLOCK_BYTES, MAX_MINIBLOCK_VALUES};
use lance_encoding::format::pb21::{compressive_encoding::Compression, CompressiveEncoding};
use lance_encoding::statistics::ComputeStat;
use lance_encoding::version::LanceFileVersion;
use serde_json::{json, Value};
use std::collections::HashMap;
use vcore::{Cov, Ctx, Outcome, Violation};

// ------------------------------------------------------------------------------------------
// inputs

fn mask(bits: u64) -> u128 {
    if bits >= 128 {
        u128::MAX
    } else {
        (1u128 << bits) - 1
    }
}

fn mix(i: u64) -> u128 {
    let a = (i.wrapping_add(1)).wrapping_mul(0x9E37_79B9_7F4A_7C15).rotate_left((i % 61) as u32);
    let b = (i.wrapping_add(7)).wrapping_mul(0xC2B2_AE3D_27D4_EB4F).rotate_left((i % 53) as u32);
    ((a as u128) << 64) | b as u128
}

/// value `i` of `pattern` for a `bits`-wide unsigned lane
fn fixed_value(pattern: &str, i: u64, n: u64, bits: u64) -> u128 {
    let m = mask(bits);
    if let Some(w) = pattern.strip_prefix("bw") {
        // values of bit width exactly w: first value 2^w-1, the rest mixed below it
        let w: u64 = w.parse().unwrap();
        let mw = mask(w);
        return if i == 0 { mw } else { mix(i) & mw };
    }
    if let Some(k) = pattern.strip_prefix("runs") {
        let k: u64 = k.parse().unwrap();
        return ((i / k).wrapping_mul(0x51)) as u128 & m;
    }
    match pattern {
        "zeros" => 0,
        "max" => m,
        "constant" => 0x5A5A_5A5A_5A5A_5A5A_5A5A_5A5A_5A5A_5A5Au128 & m,
        "ramp" => i as u128 & m,
        "altminmax" => {
            if i % 2 == 0 {
                0
            } else {
                m
            }
        }
        "outlier_first" => {
            if i == 0 {
                m
            } else {
                3 & m
            }
        }
        "outlier_last" => {
            if i + 1 == n {
                m
            } else {
                1
            }
        }
        "mix" => mix(i) & m,
        // float-like: high bytes constant, low bytes vary (what byte-stream-split is made for)
        "floatlike" => ((0x3F80u128 << (bits.saturating_sub(16))) | (mix(i) & mask(bits.saturating_sub(16)).min(0xFFFF))) & m,
        _ => unreachable!("pattern {pattern}"),
    }
}

fn fixed_bytes(pattern: &str, n: u64, bits: u64) -> Vec<u8> {
    let bpv = (bits / 8) as usize;
    let mut out = Vec::with_capacity(n as usize * bpv);
    for i in 0..n {
        let v = fixed_value(pattern, i, n, bits);
        out.extend_from_slice(&v.to_le_bytes()[..bpv]);
    }
    out
}

fn fixed_block(bytes: &[u8], bits: u64, n: u64) -> DataBlock {
    // typed vec so that the buffer is aligned for the lane type like a real Arrow buffer
    let data = match bits {
        8 => LanceBuffer::reinterpret_vec(bytes.to_vec()),
        16 => LanceBuffer::reinterpret_vec(bytes.chunks(2).map(|c| u16::from_le_bytes([c[0], c[1]])).collect::<Vec<u16>>()),
        32 => LanceBuffer::reinterpret_vec(bytes.chunks(4).map(|c| u32::from_le_bytes(c.try_into().unwrap())).collect::<Vec<u32>>()),
        64 => LanceBuffer::reinterpret_vec(bytes.chunks(8).map(|c| u64::from_le_bytes(c.try_into().unwrap())).collect::<Vec<u64>>()),
        _ => LanceBuffer::reinterpret_vec(bytes.chunks(16).map(|c| u128::from_le_bytes(c.try_into().unwrap())).collect::<Vec<u128>>()),
    };
    let mut b = FixedWidthDataBlock { data, bits_per_value: bits, num_values: n, block_info: BlockInfo::default() };
    b.compute_stat();
    DataBlock::FixedWidth(b)
}

fn arrow_type_for(bits: u64, float: bool) -> arrow_schema::DataType {
    use arrow_schema::DataType as D;
    match (bits, float) {
        (8, _) => D::UInt8,
        (16, _) => D::UInt16,
        (32, true) => D::Float32,
        (32, false) => D::UInt32,
        (64, true) => D::Float64,
        (64, false) => D::UInt64,
        _ => D::Decimal128(38, 0),
    }
}

#[derive(Clone, Debug, PartialEq)]
struct Params {
    compression: Option<&'static str>,
    rle: Option<&'static str>,
    bss: Option<&'static str>,
    version: &'static str,
}

impl Params {
    fn to_json(&self) -> Value {
        json!({"compression":self.compression,"rle":self.rle,"bss":self.bss,"version":self.version})
    }
    fn from_json(v: &Value) -> Option<Self> {
        let pick = |x: &Value, opts: &[&'static str]| -> Option<Option<&'static str>> {
            match x {
                Value::Null => Some(None),
                Value::String(s) => opts.iter().find(|o| **o == s.as_str()).map(|o| Some(*o)),
                _ => None,
            }
        };
        Some(Self {
            compression: pick(&v["compression"], &["none", "lz4", "zstd", "fsst"])?,
            rle: pick(&v["rle"], &["1.0", "0.0"])?,
            bss: pick(&v["bss"], &["on", "off", "auto"])?,
            version: pick(&v["version"], &["2.1", "2.2"])??,
        })
    }
    fn field(&self, dt: arrow_schema::DataType) -> Field {
        let mut m = HashMap::new();
        if let Some(c) = self.compression {
            m.insert(lance_encoding::constants::COMPRESSION_META_KEY.to_string(), c.to_string());
        }
        if let Some(r) = self.rle {
            m.insert(lance_encoding::constants::RLE_THRESHOLD_META_KEY.to_string(), r.to_string());
        }
        if let Some(b) = self.bss {
            m.insert(lance_encoding::constants::BSS_META_KEY.to_string(), b.to_string());
        }
        let af = arrow_schema::Field::new("c", dt, true).with_metadata(m);
        let mut f = Field::try_from(&af).expect("field");
        f.id = -1;
        f
    }
    fn strategy(&self) -> DefaultCompressionStrategy {
        DefaultCompressionStrategy::new().with_version(if self.version == "2.2" { LanceFileVersion::V2_2 } else { LanceFileVersion::V2_1 })
    }
}

fn enc_name(e: &CompressiveEncoding) -> String {
    match e.compression.as_ref() {
        None => "none?".into(),
        Some(c) => match c {
            Compression::Flat(f) => format!("flat{}", f.bits_per_value),
            Compression::Variable(_) => "variable".into(),
            Compression::Constant(_) => "constant".into(),
            Compression::OutOfLineBitpacking(o) => format!("oolbitpack{}", o.uncompressed_bits_per_value),
            Compression::InlineBitpacking(i) => format!("inlinebitpack{}", i.uncompressed_bits_per_value),
            Compression::Fsst(f) => format!("fsst({})", f.values.as_ref().map(|v| enc_name(v)).unwrap_or_default()),
            Compression::Dictionary(_) => "dictionary".into(),
            Compression::Rle(_) => "rle".into(),
            Compression::ByteStreamSplit(_) => "bss".into(),
            Compression::General(g) => format!(
                "general:{:?}({})",
                g.compression.as_ref().map(|c| c.scheme()),
                g.values.as_ref().map(|v| enc_name(v)).unwrap_or_default()
            ),
            Compression::FixedSizeList(_) => "fsl".into(),
            Compression::PackedStruct(_) => "packedstruct".into(),
            Compression::VariablePackedStruct(_) => "varpackedstruct".into(),
        },
    }
}

/// codec family of an encoding name (for the key and the reached-codec guard)
fn family(name: &str) -> String {
    let mut s: String = name.chars().filter(|c| !c.is_ascii_digit()).collect();
    s = s.replace("Some(", "").replace("None", "?");
    s.replace(')', "").replace('(', "+")
}

type Fail = (String, String); // (what, description)

fn block_fixed_bytes(b: DataBlock) -> Result<(Vec<u8>, u64, u64), Fail> {
    match b {
        DataBlock::FixedWidth(f) => Ok((f.data.as_ref().to_vec(), f.bits_per_value, f.num_values)),
        other => Err(("wrong-block-kind".into(), format!("decompressor returned a {} block for fixed-width input", other.name()))),
    }
}

fn var_values(data: &[u8], offsets: &LanceBuffer, bits_per_offset: u8, n: u64) -> Result<Vec<Vec<u8>>, Fail> {
    let offs: Vec<u64> = match bits_per_offset {
        32 => offsets.borrow_to_typed_slice::<u32>().as_ref().iter().map(|x| *x as u64).collect(),
        64 => offsets.borrow_to_typed_slice::<u64>().as_ref().to_vec(),
        o => return Err(("offset-width".into(), format!("decompressed block has {o}-bit offsets"))),
    };
    if offs.len() != n as usize + 1 {
        return Err(("offsets-len".into(), format!("{} offsets for {} values", offs.len(), n)));
    }
    let mut out = vec![];
    for w in offs.windows(2) {
        if w[0] > w[1] || w[1] as usize > data.len() {
            return Err(("offsets-range".into(), format!("offsets {}..{} outside data of {} bytes", w[0], w[1], data.len())));
        }
        out.push(data[w[0] as usize..w[1] as usize].to_vec());
    }
    Ok(out)
}

fn block_var_values(b: DataBlock) -> Result<Vec<Vec<u8>>, Fail> {
    match b {
        DataBlock::VariableWidth(v) => var_values(v.data.as_ref(), &v.offsets, v.bits_per_offset, v.num_values),
        other => Err(("wrong-block-kind".into(), format!("decompressor returned a {} block for variable-width input", other.name()))),
    }
}

fn e2f<E: std::fmt::Display>(what: &str) -> impl Fn(E) -> Fail + '_ {
    move |e| (what.to_string(), format!("{what}: {e}"))
}

/// input abstraction shared by the three seams
#[derive(Clone)]
enum Input {
    Fixed { bytes: Vec<u8>, bits: u64, n: u64, float: bool },
    Var { values: Vec<Vec<u8>>, wide: bool },
}

impl Input {
    fn block(&self) -> DataBlock {
        match self {
            Input::Fixed { bytes, bits, n, .. } => fixed_block(bytes, *bits, *n),
            Input::Var { values, wide } => {
                let mut data = vec![];
                let mut offs: Vec<u64> = vec![0];
                for v in values {
                    data.extend_from_slice(v);
                    offs.push(data.len() as u64);
                }
                let offsets = if *wide {
                    LanceBuffer::reinterpret_vec(offs)
                } else {
                    LanceBuffer::reinterpret_vec(offs.iter().map(|x| *x as u32).collect::<Vec<u32>>())
                };
                let mut b = VariableWidthBlock {
                    data: LanceBuffer::from(data),
                    offsets,
                    bits_per_offset: if *wide { 64 } else { 32 },
                    num_values: values.len() as u64,
                    block_info: BlockInfo::default(),
                };
                b.compute_stat();
                DataBlock::VariableWidth(b)
            }
        }
    }
    fn dtype(&self) -> arrow_schema::DataType {
        match self {
            Input::Fixed { bits, float, .. } => arrow_type_for(*bits, *float),
            Input::Var { wide, .. } => {
                if *wide {
                    arrow_schema::DataType::LargeBinary
                } else {
                    arrow_schema::DataType::Binary
                }
            }
        }
    }
    fn n(&self) -> u64 {
        match self {
            Input::Fixed { n, .. } => *n,
            Input::Var { values, .. } => values.len() as u64,
        }
    }
    fn compare(&self, got: DataBlock, from: u64, len: u64) -> Result<(), Fail> {
        match self {
            Input::Fixed { bytes, bits, .. } => {
                let (g, gb, gn) = block_fixed_bytes(got)?;
                let bpv = (*bits / 8) as usize;
                let want = &bytes[from as usize * bpv..(from + len) as usize * bpv];
                if gn != len {
                    return Err(("num-values".into(), format!("{gn} values back, {len} in")));
                }
                if gb != *bits {
                    return Err(("bits-per-value".into(), format!("{gb} bits per value back, {bits} in")));
                }
                if g.len() < want.len() || &g[..want.len()] != want {
                    let at = g.iter().zip(want.iter()).position(|(a, b)| a != b).map(|p| p / bpv);
                    return Err(("value".into(), format!("values differ (first differing value index {at:?}, {} bytes back for {} in)", g.len(), want.len())));
                }
                Ok(())
            }
            Input::Var { values, .. } => {
                let g = block_var_values(got)?;
                let want = &values[from as usize..(from + len) as usize];
                if g.len() != want.len() {
                    return Err(("num-values".into(), format!("{} values back, {} in", g.len(), want.len())));
                }
                if let Some(i) = (0..g.len()).find(|i| g[*i] != want[*i]) {
                    return Err(("value".into(), format!("value {i} differs (len {} back, {} in)", g[i].len(), want[i].len())));
                }
                Ok(())
            }
        }
    }
}

/// Ok(codec name) or Err((codec name if known, what, description))
fn run_miniblock(inp: &Input, p: &Params) -> Result<String, (String, String, String)> {
    let field = p.field(inp.dtype());
    let strat = p.strategy();
    let block = inp.block();
    let comp = strat.create_miniblock_compressor(&field, &block).map_err(|e| ("?".to_string(), "create-compressor-error".to_string(), e.to_string()))?;
    let (compressed, enc) = comp.compress(block).map_err(|e| ("?".to_string(), "compress-error".to_string(), e.to_string()))?;
    let name = enc_name(&enc);
    let fail = |f: Fail| (name.clone(), f.0, f.1);
    let ds = DefaultDecompressionStrategy::default();
    let dec = ds.create_miniblock_decompressor(&enc, &ds).map_err(e2f("create-decompressor-error")).map_err(fail)?;
    if compressed.num_values != inp.n() {
        return Err(fail(("num-values".into(), format!("compressed.num_values {} for {} input values", compressed.num_values, inp.n()))));
    }
    let mut offs = vec![0usize; compressed.data.len()];
    let mut seen = 0u64;
    let nchunks = compressed.chunks.len();
    for (ci, chunk) in compressed.chunks.iter().enumerate() {
        if chunk.buffer_sizes.len() != compressed.data.len() {
            return Err(fail(("chunk-buffers".into(), format!("chunk {ci} names {} buffers, page has {}", chunk.buffer_sizes.len(), compressed.data.len()))));
        }
        let last = ci + 1 == nchunks;
        if !last && (chunk.log_num_values == 0 || chunk.log_num_values > 12) {
            return Err(fail(("chunk-log-num-values".into(), format!("chunk {ci} of {nchunks} has log_num_values {}", chunk.log_num_values))));
        }
        if last && chunk.log_num_values != 0 && (1u64 << chunk.log_num_values) != inp.n() - seen {
            return Err(fail(("chunk-log-num-values".into(), format!("last chunk has log_num_values {} but {} values remain", chunk.log_num_values, inp.n() - seen))));
        }
        let nv = chunk.num_values(seen, compressed.num_values);
        if nv > MAX_MINIBLOCK_VALUES || nv == 0 && inp.n() > 0 {
            return Err(fail(("chunk-values-limit".into(), format!("chunk {ci} holds {nv} values (limit {MAX_MINIBLOCK_VALUES})"))));
        }
        let total: u64 = chunk.buffer_sizes.iter().map(|b| *b as u64).sum();
        if total > MAX_MINIBLOCK_BYTES {
            return Err(fail(("chunk-bytes-limit".into(), format!("chunk {ci} holds {total} bytes (limit {MAX_MINIBLOCK_BYTES})"))));
        }
        let mut bufs = vec![];
        for (bi, sz) in chunk.buffer_sizes.iter().enumerate() {
            let sz = *sz as usize;
            if offs[bi] + sz > compressed.data[bi].len() {
                return Err(fail(("chunk-bytes-overrun".into(), format!("chunk {ci} buffer {bi}: {}+{sz} exceeds buffer of {} bytes", offs[bi], compressed.data[bi].len()))));
            }
            bufs.push(compressed.data[bi].slice_with_length(offs[bi], sz));
            offs[bi] += sz;
        }
        if seen + nv > inp.n() {
            return Err(fail(("chunk-values-overrun".into(), format!("chunks hold more than the {} input values", inp.n()))));
        }
        let got = dec.decompress(bufs, nv).map_err(e2f("decompress-error")).map_err(fail)?;
        inp.compare(got, seen, nv).map_err(fail)?;
        seen += nv;
    }
    if seen != inp.n() {
        return Err(fail(("chunk-values-missing".into(), format!("chunks hold {seen} of {} values", inp.n()))));
    }
    for (bi, o) in offs.iter().enumerate() {
        if *o != compressed.data[bi].len() {
            return Err(fail(("chunk-bytes-unaccounted".into(), format!("buffer {bi}: chunks cover {o} of {} bytes", compressed.data[bi].len()))));
        }
    }
    Ok(name)
}

fn slice_var(v: &VariableWidthBlock, at: u64, len: u64) -> Result<VariableWidthBlock, Fail> {
    let offs: Vec<u64> = match v.bits_per_offset {
        32 => v.offsets.borrow_to_typed_slice::<u32>().as_ref().iter().map(|x| *x as u64).collect(),
        64 => v.offsets.borrow_to_typed_slice::<u64>().as_ref().to_vec(),
        o => return Err(("offset-width".into(), format!("compressed block has {o}-bit offsets"))),
    };
    if offs.len() != v.num_values as usize + 1 {
        return Err(("offsets-len".into(), format!("compressed block: {} offsets for {} values", offs.len(), v.num_values)));
    }
    let (s, e) = (offs[at as usize], offs[(at + len) as usize]);
    let rebased: Vec<u64> = offs[at as usize..=(at + len) as usize].iter().map(|o| o - s).collect();
    let offsets = if v.bits_per_offset == 32 {
        LanceBuffer::reinterpret_vec(rebased.iter().map(|x| *x as u32).collect::<Vec<u32>>())
    } else {
        LanceBuffer::reinterpret_vec(rebased)
    };
    Ok(VariableWidthBlock {
        data: v.data.slice_with_length(s as usize, (e - s) as usize),
        offsets,
        bits_per_offset: v.bits_per_offset,
        num_values: len,
        block_info: BlockInfo::default(),
    })
}

fn run_pervalue(inp: &Input, p: &Params) -> Result<String, (String, String, String)> {
    let field = p.field(inp.dtype());
    let strat = p.strategy();
    let block = inp.block();
    let comp = strat.create_per_value(&field, &block).map_err(|e| ("?".to_string(), "create-compressor-error".to_string(), e.to_string()))?;
    let (compressed, enc) = comp.compress(block).map_err(|e| ("?".to_string(), "compress-error".to_string(), e.to_string()))?;
    let name = enc_name(&enc);
    let fail = |f: Fail| (name.clone(), f.0, f.1);
    let ds = DefaultDecompressionStrategy::default();
    let n = inp.n();
    // whole block + single values first / middle / last (each value must be decodable on its own)
    let mut windows = vec![(0u64, n)];
    if n > 1 {
        windows.extend([(0, 1), (n / 2, 1), (n - 1, 1)]);
    }
    match compressed {
        PerValueDataBlock::Fixed(f) => {
            let dec = ds.create_fixed_per_value_decompressor(&enc).map_err(e2f("create-decompressor-error")).map_err(fail)?;
            let bpv = dec.bits_per_value();
            if bpv != f.bits_per_value {
                return Err(fail(("bits-per-value".into(), format!("decompressor says {bpv} bits per value, compressed block has {}", f.bits_per_value))));
            }
            let bytes_pv = (bpv / 8) as usize;
            for (at, len) in windows {
                let part = FixedWidthDataBlock {
                    data: f.data.slice_with_length(at as usize * bytes_pv, len as usize * bytes_pv),
                    bits_per_value: f.bits_per_value,
                    num_values: len,
                    block_info: BlockInfo::default(),
                };
                let got = dec.decompress(part, len).map_err(e2f("decompress-error")).map_err(fail)?;
                inp.compare(got, at, len).map_err(|f| fail((format!("{}{}", f.0, if len == n { "" } else { "-single" }), f.1)))?;
            }
        }
        PerValueDataBlock::Variable(v) => {
            let dec = ds.create_variable_per_value_decompressor(&enc).map_err(e2f("create-decompressor-error")).map_err(fail)?;
            for (at, len) in windows {
                let part = slice_var(&v, at, len).map_err(fail)?;
                let got = dec.decompress(part).map_err(e2f("decompress-error")).map_err(fail)?;
                inp.compare(got, at, len).map_err(|f| fail((format!("{}{}", f.0, if len == n { "" } else { "-single" }), f.1)))?;
            }
        }
    }
    Ok(name)
}

fn run_block(inp: &Input, p: &Params) -> Result<String, (String, String, String)> {
    let field = p.field(inp.dtype());
    let strat = p.strategy();
    let block = inp.block();
    let (comp, enc) = strat.create_block_compressor(&field, &block).map_err(|e| ("?".to_string(), "create-compressor-error".to_string(), e.to_string()))?;
    let name = enc_name(&enc);
    let fail = |f: Fail| (name.clone(), f.0, f.1);
    let buf = comp.compress(block).map_err(e2f("compress-error")).map_err(fail)?;
    let ds = DefaultDecompressionStrategy::default();
    let dec = ds.create_block_decompressor(&enc).map_err(e2f("create-decompressor-error")).map_err(fail)?;
    let got = dec.decompress(buf, inp.n()).map_err(e2f("decompress-error")).map_err(fail)?;
    inp.compare(got, 0, inp.n()).map_err(fail)?;
    Ok(name)
}

fn run_dict(inp: &Input) -> Result<String, (String, String, String)> {
    let fail = |f: Fail| ("dictionary".to_string(), f.0, f.1);
    let block = inp.block();
    let (indices, dictionary) = lance_encoding::encodings::logical::primitive::dict::dictionary_encode(block);
    let indices = match indices {
        DataBlock::FixedWidth(f) => f,
        other => return Err(fail(("wrong-block-kind".into(), format!("indices are a {} block", other.name())))),
    };
    if indices.num_values != inp.n() {
        return Err(fail(("num-values".into(), format!("{} indices for {} values", indices.num_values, inp.n()))));
    }
    let got = DictionaryDataBlock::from_parts(indices, dictionary).decode().map_err(e2f("decode-error")).map_err(fail)?;
    inp.compare(got, 0, inp.n()).map_err(fail)?;
    Ok("dictionary".into())
}

// ------------------------------------------------------------------------------------------
// cases

#[derive(Clone, Debug)]
struct Case {
    seam: &'static str, // miniblock | pervalue | block | dict
    fixed: bool,
    bits: u64,   // fixed: value bits; var: offset bits
    n: u64,      // number of values
    pattern: String,
    params: Params,
}

impl Case {
    fn to_json(&self) -> Value {
        json!({"kind":"codec","seam":self.seam,"fixed":self.fixed,"bits":self.bits,"n":self.n,"pattern":self.pattern,"params":self.params.to_json()})
    }
    fn from_json(v: &Value) -> Option<Self> {
        let seam = ["miniblock", "pervalue", "block", "dict"].into_iter().find(|s| Some(*s) == v["seam"].as_str())?;
        Some(Self {
            seam,
            fixed: v["fixed"].as_bool()?,
            bits: v["bits"].as_u64()?,
            n: v["n"].as_u64()?,
            pattern: v["pattern"].as_str()?.to_string(),
            params: Params::from_json(&v["params"])?,
        })
    }
    fn input(&self) -> Input {
        if self.fixed {
            Input::Fixed { bytes: fixed_bytes(&self.pattern, self.n, self.bits), bits: self.bits, n: self.n, float: self.pattern == "floatlike" }
        } else {
            Input::Var { values: var_values_of(&self.pattern, self.n), wide: self.bits == 64 }
        }
    }
}

/// variable-width pattern "<lens>/<gen>": lens in {l0,l1,l5,l255,l256,l4000,l70000,cycle,fewdistinct}, gen in {const,alpha,mix}
fn var_values_of(pattern: &str, n: u64) -> Vec<Vec<u8>> {
    let (lens, gen) = pattern.split_once('/').expect("var pattern");
    let cycle = [0usize, 1, 5, 255, 256, 9, 64];
    let mut stream = 0u64;
    (0..n)
        .map(|i| {
            let len = match lens {
                "cycle" => cycle[i as usize % cycle.len()],
                "fewdistinct" => 12,
                l => l[1..].parse::<usize>().unwrap(),
            };
            (0..len)
                .map(|k| match (lens, gen) {
                    ("fewdistinct", _) => b'a' + ((i % 3) as u8) + (k as u8 % 5),
                    (_, "const") => b'x',
                    (_, "alpha") => b'a' + ((k as u64 + i) % 26) as u8,
                    _ => {
                        stream += 1;
                        (stream.wrapping_mul(0x9E37_79B9_7F4A_7C15) >> 29) as u8
                    }
                })
                .collect()
        })
        .collect()
}

fn cases(ctx: &Ctx) -> Vec<Case> {
    let mut out = vec![];
    let quick = ctx.quick();
    let lens_fixed: Vec<u64> = if quick { vec![1, 3, 1025, 4097] } else { vec![1, 2, 3, 255, 256, 257, 1023, 1024, 1025, 2048, 4095, 4096, 4097, 8193, 20_000] };
    let mut params = vec![];
    for version in ["2.1", "2.2"] {
        for compression in [None, Some("none"), Some("lz4"), Some("zstd")] {
            for rle in [None, Some("1.0"), Some("0.0")] {
                for bss in [None, Some("on"), Some("off")] {
                    if quick {
                        // deviation-bounded: the default line, every single deviation, and the pairs in which
                        // the second parameter only has an effect together with a compression scheme
                        let devs = compression.is_some() as u32 + rle.is_some() as u32 + bss.is_some() as u32;
                        let pair_ok = devs == 2 && matches!(compression, Some("lz4") | Some("zstd")) && (bss == Some("on") || rle == Some("1.0"));
                        if devs > 1 && !pair_ok {
                            continue;
                        }
                        // the 2.2 strategy differs from 2.1 only at the block seam
                        if version == "2.2" && (rle.is_some() || bss.is_some() || compression == Some("none")) {
                            continue;
                        }
                    }
                    params.push(Params { compression, rle, bss, version });
                }
            }
        }
    }
    for bits in [8u64, 16, 32, 64, 128] {
        let mut pats: Vec<String> = ["zeros", "max", "constant", "ramp", "altminmax", "outlier_first", "outlier_last", "mix", "runs1", "runs2", "runs3", "runs4", "runs5", "runs300"]
            .iter()
            .map(|s| s.to_string())
            .collect();
        if bits == 32 || bits == 64 {
            pats.push("floatlike".into());
        }
        let widths: Vec<u64> = if quick {
            [0u64, 1, 7, 8, 9, 16, 17, 32, 33, 63, 64].into_iter().filter(|w| *w <= bits.min(64)).collect()
        } else {
            (0..=bits.min(64)).collect()
        };
        if bits <= 64 {
            for w in widths {
                pats.push(format!("bw{w}"));
            }
        }
        for n in &lens_fixed {
            for pat in &pats {
                for p in &params {
                    // 128-bit values: no bit-packing / RLE / BSS exists; only the compression axis matters
                    if bits == 128 && (p.rle.is_some() || p.bss.is_some()) {
                        continue;
                    }
                    // BSS only exists for 32/64-bit values and needs a compression scheme
                    if p.bss.is_some() && !(bits == 32 || bits == 64) {
                        continue;
                    }
                    for seam in ["miniblock", "pervalue", "block"] {
                        // the per-value seam ignores rle / bss; the block seam ignores them too
                        if seam != "miniblock" && (p.rle.is_some() || p.bss.is_some()) {
                            continue;
                        }
                        out.push(Case { seam, fixed: true, bits, n: *n, pattern: pat.clone(), params: p.clone() });
                    }
                }
            }
        }
    }
    // variable width
    let var_params: Vec<Params> = {
        let mut v = vec![];
        for version in ["2.1", "2.2"] {
            for compression in [None, Some("none"), Some("fsst"), Some("lz4"), Some("zstd")] {
                v.push(Params { compression, rle: None, bss: None, version });
            }
        }
        v
    };
    let var_ns: Vec<u64> = if quick { vec![1, 3, 1025, 5000] } else { vec![1, 2, 3, 100, 1024, 1025, 4097, 5000, 20_000] };
    for obits in [32u64, 64] {
        for lens in ["l0", "l1", "l5", "l255", "l256", "cycle", "fewdistinct", "l4000", "l70000"] {
            for gen in ["const", "alpha", "mix"] {
                if lens == "fewdistinct" && gen != "const" {
                    continue;
                }
                for n in &var_ns {
                    // big values: only a few of them
                    if (lens == "l4000" && *n > 1025) || (lens == "l70000" && *n > 3) {
                        continue;
                    }
                    if quick && *n == 5000 && !(matches!(lens, "l5" | "cycle" | "fewdistinct") && gen != "alpha") {
                        continue;
                    }
                    if quick && gen == "const" && lens != "fewdistinct" && lens != "l0" {
                        continue;
                    }
                    for p in &var_params {
                        if quick && p.version == "2.2" && !matches!(p.compression, None | Some("zstd")) {
                            continue;
                        }
                        for seam in ["miniblock", "pervalue", "block"] {
                            // a mini-block chunk cannot hold a value larger than the chunk: the structural
                            // layer never routes such values there
                            if seam == "miniblock" && lens == "l70000" {
                                continue;
                            }
                            out.push(Case { seam, fixed: false, bits: obits, n: *n, pattern: format!("{lens}/{gen}"), params: p.clone() });
                        }
                    }
                }
            }
        }
    }
    // dictionary: 128-bit fixed and variable width with few distinct values
    for n in if quick { vec![1u64, 2, 1025] } else { vec![1u64, 2, 3, 1024, 1025, 4097, 70_000] } {
        for pat in ["constant", "runs3", "altminmax", "mix", "zeros"] {
            out.push(Case { seam: "dict", fixed: true, bits: 128, n, pattern: pat.into(), params: Params { compression: None, rle: None, bss: None, version: "2.1" } });
        }
        for obits in [32u64, 64] {
            for pat in ["fewdistinct/const", "l0/const", "cycle/alpha", "l5/mix"] {
                out.push(Case { seam: "dict", fixed: false, bits: obits, n, pattern: pat.into(), params: Params { compression: None, rle: None, bss: None, version: "2.1" } });
            }
        }
    }
    out
}

fn run_one(c: &Case, cov: &mut Cov, viol: &mut Vec<Violation>) {
    let inp = c.input();
    let r = vcore::catch(|| match c.seam {
        "miniblock" => run_miniblock(&inp, &c.params),
        "pervalue" => run_pervalue(&inp, &c.params),
        "block" => run_block(&inp, &c.params),
        _ => run_dict(&inp),
    });
    let kind = if c.fixed { format!("fixed{}", c.bits) } else { format!("var{}", c.bits) };
    let case = c.to_json();
    match r {
        Ok(Ok(name)) => {
            let fam = family(&name);
            cov.outcome(&format!("{}/{}", c.seam, fam));
            let trivial = fam == "flat" || fam == "variable";
            cov.eval(if trivial { None } else { Some(vcore::hash64(case.to_string().as_bytes())) });
        }
        Ok(Err((name, what, desc))) => {
            cov.eval(Some(vcore::hash64(case.to_string().as_bytes())));
            let fam = family(&name);
            if what == "create-compressor-error" || what == "compress-error" {
                // a codec may refuse an input; recorded, not judged
                let short: String = desc.chars().filter(|c| !c.is_ascii_digit()).take(70).collect();
                cov.outcome(&format!("{}/refused/{kind}/{short}", c.seam));
                return;
            }
            cov.outcome(&format!("{}/{fam}/FAIL/{what}", c.seam));
            // root-cause class where the failure has been analysed, configuration + symptom otherwise
            let key = if what == "chunk-bytes-limit" && fam.contains("inlinebitpack") {
                "miniblock/inline-bitpacking-chunk-exceeds-byte-limit".to_string()
            } else if what == "chunk-bytes-limit" && fam.contains("fsst") {
                "miniblock/fsst-chunk-exceeds-byte-limit".to_string()
            } else {
                format!("codec/unclassified/{}/{fam}/{kind}/{what}", c.seam)
            };
            viol.push(Violation::new("codec-roundtrip", &key, format!("{case}: codec {name}: [{what}] {desc}"), case));
        }
        Err(p) => {
            cov.eval(Some(vcore::hash64(case.to_string().as_bytes())));
            cov.outcome(&format!("{}/PANIC", c.seam));
            let key = if c.seam == "block" && p.contains("tail_bit_savings") {
                "block/out-of-line-bitpacking-without-savings-debug-assert".to_string()
            } else {
                format!("codec/unclassified/{}/panic/{kind}/{}", c.seam, crate::val::msg_class(&p))
            };
            viol.push(Violation::new("codec-roundtrip", &key, format!("{case}: panic: {p}"), case));
        }
    }
}

pub fn run(ctx: &Ctx) -> Outcome {
    if let Some(art) = ctx.replay_case() {
        let mut out = Outcome::new("exploration");
        let mut cov = Cov::new();
        let mut viol = vec![];
        match art["case"]["kind"].as_str() {
            Some("codec") => {
                let c = Case::from_json(&art["case"]).unwrap_or_else(|| vcore::machinery_error("bad codec case"));
                run_one(&c, &mut cov, &mut viol);
            }
            Some("codec_file") => crate::c26_file::replay(&art["case"], &mut cov, &mut viol),
            _ => vcore::machinery_error("unknown replay case kind"),
        }
        cov.sample(art["case"].clone());
        cov.fill(&mut out, "replay of one case", false);
        out.violations = viol;
        return out;
    }
    let mut out = Outcome::new("exploration");
    let all = cases(ctx);
    let total = all.len();
    // interleave so that heavy cases spread over the workers
    let parts = ctx.workers * 8;
    let mut chunks: Vec<Vec<Case>> = vec![vec![]; parts];
    for (i, c) in all.into_iter().enumerate() {
        chunks[i % parts].push(c);
    }
    let deadline = ctx.opts.get("deadline").and_then(|d| d.parse().ok()).unwrap_or(ctx.tier.pick(32.0, 700.0));
    let start = ctx.start;
    let capped = std::sync::atomic::AtomicBool::new(false);
    let res = vcore::par_map(chunks, ctx.workers, |_, slice| {
        let mut cov = Cov::new();
        let mut viol = vec![];
        for c in slice {
            if start.elapsed().as_secs_f64() > deadline {
                capped.store(true, std::sync::atomic::Ordering::SeqCst);
                break;
            }
            run_one(&c, &mut cov, &mut viol);
        }
        (cov, viol)
    });
    let mut cov = Cov::new();
    let mut viol = vec![];
    for (c, v) in res {
        cov.merge(c);
        viol.extend(v);
    }
    let file_scope = crate::c26_file::run(ctx, &mut cov, &mut viol);
    viol.sort_by_key(|v| (v.case["n"].as_u64().unwrap_or(0), v.case.to_string().len()));
    // vacuity guard: every codec named in the property must have been reached at least once
    let reached: Vec<String> = cov.outcomes.keys().cloned().collect();
    let need = [
        ("flat", "value"), ("variable", "variable"), ("inlinebitpack", "bit-packing inline"), ("oolbitpack", "bit-packing out-of-line"),
        ("rle", "run-length"), ("bss", "byte-stream-split"), ("fsst", "FSST"), ("dictionary", "dictionary"), ("Lz", "general LZ4"), ("Zstd", "general ZSTD"),
        ("packedstruct", "packed struct"), ("file-codec/constant", "constant"),
    ];
    let mut missing = vec![];
    for (tag, label) in need {
        if !reached.iter().any(|k| k.contains(tag) && !k.contains("/refused/")) {
            missing.push(label);
        }
    }
    if !missing.is_empty() {
        vcore::machinery_error(&format!("codecs never reached: {missing:?} (outcomes: {reached:?})"));
    }
    cov.sample(json!({"kind":"codec","seam":"miniblock","fixed":true,"bits":32,"n":1025,"pattern":"bw17","params":{"compression":"zstd","rle":"1.0","bss":null,"version":"2.1"}}));
    cov.sample(json!({"kind":"codec","seam":"pervalue","fixed":false,"bits":32,"n":5000,"pattern":"cycle/alpha","params":{"compression":"fsst","rle":null,"bss":null,"version":"2.1"}}));
    cov.sample(json!({"kind":"codec","seam":"block","fixed":true,"bits":64,"n":4097,"pattern":"outlier_last","params":{"compression":null,"rle":null,"bss":null,"version":"2.2"}}));
    let exhaustive = !capped.load(std::sync::atomic::Ordering::SeqCst);
    cov.fill(
        &mut out,
        "odometer: seam {mini-block, per-value, block} x value width {8,16,32,64,128} x length x pattern {zeros,max,constant,ramp,alt min/max,outlier first/last,mix,runs of 1..5 and 300,float-like,bit width w via 2^w-1} x (compression {unset,none,lz4,zstd} x rle-threshold {unset,1.0,0.0} x bss {unset,on,off}) x strategy version {2.1,2.2}; variable width: offsets {32,64} x value length {0,1,5,255,256,cycle,few distinct,4000,70000} x content x n x compression {unset,none,fsst,lz4,zstd}; dictionary_encode/decode; plus the file-level codec family (see file_scope). non-trivial = the selected codec is not plain flat/variable",
        exhaustive,
    );
    if !exhaustive {
        out.set("cap_hit", format!("wall cap {deadline}s"));
    }
    out.set("codec_cases", total as u64);
    out.set("file_scope", file_scope);
    out.assume("codec selection is left to DefaultCompressionStrategy (+ field metadata); codecs it never selects for a given input are not forced");
    out.assume("a compressor that refuses an input with an error is recorded (distinct_outcomes */refused/*), not judged");
    out.violations = viol;
    out
}
