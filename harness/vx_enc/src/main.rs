//! vx_enc: see /verif/harness/AGENTS-GUIDE.md; one module per property, dispatched on the property id.
mod c25;
mod c26;
mod c26_file;
mod c27;
mod c27_file;
mod c28;
mod fio;
mod longlist;
mod val;

use vcore::{machinery_error, Ctx};

fn main() {
    let ctx = Ctx::from_args();
    vcore::quiet_panics();
    let out: vcore::Outcome = match ctx.id.as_str() {
        "C25" => c25::run(&ctx),
        "C26" => c26::run(&ctx),
        "C27" => c27::run(&ctx),
        "C28" => c28::run(&ctx),
        other => machinery_error(&format!("vx_enc does not implement {other}")),
    };
    vcore::finish(&ctx, out);
}
