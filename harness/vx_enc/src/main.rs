//! vx_enc: see /verif/harness/AGENTS-GUIDE.md; one module per property, dispatched on the property id.
mod c28;

use vcore::{machinery_error, Ctx};

fn main() {
    let ctx = Ctx::from_args();
    vcore::quiet_panics();
    let out: vcore::Outcome = match ctx.id.as_str() {
        "C28" => c28::run(&ctx),
        other => machinery_error(&format!("vx_enc does not implement {other}")),
    };
    vcore::finish(&ctx, out);
}
