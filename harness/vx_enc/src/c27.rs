//! C27 – repetition/definition levels encode nesting losslessly (K5, exhaustive small shapes).
//!
//! (a) API level: for every nesting stack of depth <= 3 over {list, struct, fixed_size_list(2)} above a
//!     nullable leaf and every value of a stated small scope: flatten to the per-layer validity /
//!     offsets buffers the encoders hand to `RepDefBuilder` (nulls pushed down, garbage behind NULL
//!     lists removed from the child – the contract of `ListStructuralEncoder` / `StructStructuralEncoder`),
//!     `serialize`, then `RepDefUnraveler` / `CompositeRepDefUnraveler` inner-to-outer; the unravelled
//!     buffers must equal the normalised input. Also with the rows split over two builders
//!     (`serialize(vec![a, b])`) and over two separately serialised halves (two unravelers in one
//!     composite), for every split point.
//! (b) control words: `build_control_word_iterator` -> `ControlWordParser` for a grid of
//!     (max_rep, max_def, max_visible_def) and every (rep, def) pair over boundary levels.
//! (c) row -> item translation: see `c27_file.rs` (2.1 files, every row subset).

use arrow_buffer::{BooleanBuffer, NullBuffer, OffsetBuffer, ScalarBuffer};
use lance_encoding::repdef::{
    build_control_word_iterator, CompositeRepDefUnraveler, ControlWordParser, RepDefBuilder, RepDefUnraveler,
};
use serde_json::{json, Value};
use vcore::{Cov, Ctx, Outcome, Violation};


// root-cause classes (= classification keys). One key per analysed defect; the symptom (panic, error
// text, differing column) goes into the description.
#[allow(dead_code)]
pub const K_ALLVALID_LIST: &str = "repdef/allvalid-list-starts-with-inner-special";
pub const K_CURRENT_LEN: &str = "repdef/record-validity-current-len-ignores-specials";
pub const K_COMPOSITE_COUNT: &str = "repdef/composite-allvalid-layer-counts-leaf-items";
#[allow(dead_code)]
pub const K_NODEF_TRUNCATE: &str = "repdef/composite-nodef-unraveler-truncates-to-shared-offsets";
#[allow(dead_code)]
pub const K_UNARY16: &str = "repdef/unary16-control-word-exhaustion";
pub const K_FULLZIP_ZERO_DEF: &str = "fullzip/all-zero-def-levels-control-word-width";
pub const K_FULLZIP_NULL_STRUCT_LIST: &str = "fullzip/null-struct-above-list-plus-second-special-level";
pub const K_ALLNULL_NESTED: &str = "all-null-page/nested-lists-page-without-leaf-value";
pub const K_FULLZIP_GARBAGE_PAGE: &str = "fullzip/page-with-list-specials-and-bitmap-without-nulls";

#[derive(Clone, Copy, Debug, PartialEq, Eq, Hash)]
pub enum Layer {
    List,
    Struct,
    Fsl,
}

pub fn stack_name(s: &[Layer]) -> String {
    let mut o: String = s
        .iter()
        .map(|l| match l {
            Layer::List => 'L',
            Layer::Struct => 'S',
            Layer::Fsl => 'F',
        })
        .collect();
    o.push('v');
    o
}

pub fn stack_from_name(n: &str) -> Option<Vec<Layer>> {
    n.trim_end_matches('v')
        .chars()
        .map(|c| match c {
            'L' => Some(Layer::List),
            'S' => Some(Layer::Struct),
            'F' => Some(Layer::Fsl),
            _ => None,
        })
        .collect()
}

/// a logical nested value
#[derive(Clone, Debug, PartialEq, Eq, Hash)]
pub enum V {
    Null,
    /// NULL list whose offsets still span one (garbage) item
    NullG,
    Leaf,
    List(Vec<V>),
    Struct(Box<V>),
    Fsl(Box<(V, V)>),
}

impl V {
    pub fn to_json(&self) -> Value {
        match self {
            V::Null => json!(null),
            V::NullG => json!("G"),
            V::Leaf => json!(1),
            V::List(v) => Value::Array(v.iter().map(|x| x.to_json()).collect()),
            V::Struct(c) => json!({"s": c.to_json()}),
            V::Fsl(c) => json!({"f": [c.0.to_json(), c.1.to_json()]}),
        }
    }
    pub fn from_json(v: &Value) -> Option<V> {
        Some(match v {
            Value::Null => V::Null,
            Value::String(_) => V::NullG,
            Value::Number(_) => V::Leaf,
            Value::Array(a) => V::List(a.iter().map(V::from_json).collect::<Option<Vec<_>>>()?),
            Value::Object(o) => {
                if let Some(c) = o.get("s") {
                    V::Struct(Box::new(V::from_json(c)?))
                } else {
                    let f = o.get("f")?.as_array()?;
                    V::Fsl(Box::new((V::from_json(&f[0])?, V::from_json(&f[1])?)))
                }
            }
            _ => return None,
        })
    }
    fn has_special(&self) -> bool {
        match self {
            V::Null | V::NullG => true,
            V::Leaf => false,
            V::List(v) => v.is_empty() || v.iter().any(|x| x.has_special()),
            V::Struct(c) => c.has_special(),
            V::Fsl(c) => c.0.has_special() || c.1.has_special(),
        }
    }
    fn has_leaf(&self) -> bool {
        match self {
            V::Null | V::NullG => false,
            V::Leaf => true,
            V::List(v) => v.iter().any(|x| x.has_leaf()),
            V::Struct(c) => c.has_leaf(),
            V::Fsl(c) => c.0.has_leaf() || c.1.has_leaf(),
        }
    }
}

/// every value of the type `stack` (then nullable leaf) with list lengths 0..=max_list
pub fn values(stack: &[Layer], garbage: bool, max_list: usize) -> Vec<V> {
    if stack.is_empty() {
        return vec![V::Null, V::Leaf];
    }
    let inner = values(&stack[1..], garbage, max_list);
    let mut out = vec![V::Null];
    match stack[0] {
        Layer::List => {
            if garbage {
                out.push(V::NullG);
            }
            out.push(V::List(vec![]));
            if max_list >= 1 {
                for a in &inner {
                    out.push(V::List(vec![a.clone()]));
                }
            }
            if max_list >= 2 {
                for a in &inner {
                    for b in &inner {
                        out.push(V::List(vec![a.clone(), b.clone()]));
                    }
                }
            }
        }
        Layer::Struct => {
            for a in &inner {
                out.push(V::Struct(Box::new(a.clone())));
            }
        }
        Layer::Fsl => {
            for a in &inner {
                for b in &inner {
                    out.push(V::Fsl(Box::new((a.clone(), b.clone()))));
                }
            }
        }
    }
    out
}

/// per-layer buffers (outer to inner, last = leaf)
#[derive(Clone, Debug, PartialEq, Eq)]
pub struct LayerBuf {
    pub validity: Vec<bool>,
    /// what is *handed to the builder* for slots hidden behind a NULL struct / FSL parent when the
    /// `unmasked` configuration is on (validity-only layers): `true` instead of the pushed-down `false`
    pub masked: Vec<bool>,
    /// list layers: raw lengths (a garbage NULL list has raw length 1, normalised length 0)
    pub raw_len: Vec<usize>,
    pub norm_len: Vec<usize>,
}

pub fn flatten(stack: &[Layer], rows: &[V]) -> Vec<LayerBuf> {
    let mut out = vec![];
    // None = hidden behind a NULL struct / FSL ancestor
    let mut cur: Vec<Option<&V>> = rows.iter().map(Some).collect();
    for l in stack {
        let mut b = LayerBuf { validity: vec![], masked: vec![], raw_len: vec![], norm_len: vec![] };
        let mut next: Vec<Option<&V>> = vec![];
        for it in &cur {
            b.masked.push(it.is_none());
            match l {
                Layer::List => match it {
                    Some(V::List(xs)) => {
                        b.validity.push(true);
                        b.raw_len.push(xs.len());
                        b.norm_len.push(xs.len());
                        next.extend(xs.iter().map(Some));
                    }
                    Some(V::NullG) => {
                        b.validity.push(false);
                        b.raw_len.push(1);
                        b.norm_len.push(0);
                    }
                    _ => {
                        b.validity.push(false);
                        b.raw_len.push(0);
                        b.norm_len.push(0);
                    }
                },
                Layer::Struct => match it {
                    Some(V::Struct(c)) => {
                        b.validity.push(true);
                        next.push(Some(c.as_ref()));
                    }
                    _ => {
                        b.validity.push(false);
                        next.push(None);
                    }
                },
                Layer::Fsl => match it {
                    Some(V::Fsl(c)) => {
                        b.validity.push(true);
                        next.push(Some(&c.0));
                        next.push(Some(&c.1));
                    }
                    _ => {
                        b.validity.push(false);
                        next.push(None);
                        next.push(None);
                    }
                },
            }
        }
        out.push(b);
        cur = next;
    }
    let mut b = LayerBuf { validity: vec![], masked: vec![], raw_len: vec![], norm_len: vec![] };
    for it in &cur {
        b.masked.push(it.is_none());
        b.validity.push(matches!(it, Some(V::Leaf)));
    }
    out.push(b);
    out
}

#[derive(Clone, Copy, Debug, PartialEq, Eq)]
pub struct Cfg {
    /// hand an explicit all-true bitmap instead of `None` when a layer has no NULLs
    pub explicit: bool,
    /// 64-bit offsets
    pub large: bool,
    /// offsets start at 5 instead of 0 (sliced list array)
    pub base: bool,
    /// slots hidden behind a NULL struct/FSL parent are handed over as valid (Arrow leaves them undefined)
    pub unmasked: bool,
}

impl Cfg {
    fn all(quick: bool) -> Vec<Cfg> {
        let mut v = vec![];
        for bits in 0..16u32 {
            // quick: at most one deviation from the default + the all-on corner
            if quick && bits.count_ones() > 1 && bits != 15 {
                continue;
            }
            v.push(Cfg { explicit: bits & 1 != 0, large: bits & 2 != 0, base: bits & 4 != 0, unmasked: bits & 8 != 0 });
        }
        v
    }
    fn to_json(self) -> Value {
        json!({"explicit":self.explicit,"large":self.large,"base":self.base,"unmasked":self.unmasked})
    }
    fn from_json(v: &Value) -> Option<Cfg> {
        Some(Cfg {
            explicit: v["explicit"].as_bool()?,
            large: v["large"].as_bool()?,
            base: v["base"].as_bool()?,
            unmasked: v["unmasked"].as_bool()?,
        })
    }
}

fn nullbuf(bits: &[bool]) -> NullBuffer {
    NullBuffer::new(BooleanBuffer::from_iter(bits.iter().copied()))
}

/// feed one builder; returns Err(description) when the builder's garbage flag is wrong
fn feed(stack: &[Layer], bufs: &[LayerBuf], cfg: Cfg) -> Result<RepDefBuilder, String> {
    let mut b = RepDefBuilder::default();
    for (i, lb) in bufs.iter().enumerate() {
        let handed: Vec<bool> = if cfg.unmasked && (i == stack.len() || stack[i] != Layer::List) {
            lb.validity.iter().zip(lb.masked.iter()).map(|(v, m)| *v || *m).collect()
        } else {
            lb.validity.clone()
        };
        let validity = if handed.iter().all(|x| *x) && !cfg.explicit { None } else { Some(nullbuf(&handed)) };
        if i == stack.len() {
            match validity {
                Some(v) => b.add_validity_bitmap(v),
                None => b.add_no_null(handed.len()),
            }
            continue;
        }
        match stack[i] {
            Layer::List => {
                let base = if cfg.base { 5i64 } else { 0 };
                let mut offs = vec![base];
                for l in &lb.raw_len {
                    offs.push(offs.last().unwrap() + *l as i64);
                }
                let expect_garbage = lb.raw_len != lb.norm_len;
                let got = if cfg.large {
                    b.add_offsets(OffsetBuffer::new(ScalarBuffer::from(offs)), validity)
                } else {
                    let o32: Vec<i32> = offs.iter().map(|x| *x as i32).collect();
                    b.add_offsets(OffsetBuffer::new(ScalarBuffer::from(o32)), validity)
                };
                if got != expect_garbage {
                    return Err(format!("add_offsets returned has_garbage={got}, expected {expect_garbage} (layer {i})"));
                }
            }
            Layer::Struct => match validity {
                Some(v) => b.add_validity_bitmap(v),
                None => b.add_no_null(handed.len()),
            },
            Layer::Fsl => b.add_fsl(validity, 2, handed.len()),
        }
    }
    Ok(b)
}

fn unraveler_of(ser: lance_encoding::repdef::SerializedRepDefs, num_items: usize) -> RepDefUnraveler {
    RepDefUnraveler::new(
        ser.repetition_levels.map(|l| l.to_vec()),
        ser.definition_levels.map(|l| l.to_vec()),
        ser.def_meaning.into(),
        num_items as u64,
    )
}

/// Slots hidden behind a NULL struct / FSL ancestor (`masked`) are not part of the logical value
/// (Arrow leaves them undefined): they are don't-care in the comparison.
fn cmp_validity(what: &str, got: Option<NullBuffer>, lb: &LayerBuf) -> Result<(), (String, String)> {
    let want = &lb.validity;
    match got {
        None => {
            if want.iter().zip(lb.masked.iter()).all(|(x, m)| *x || *m) {
                Ok(())
            } else {
                Err((format!("{what}-validity"), format!("{what}: unravelled validity = None (all valid), expected {want:?} (hidden slots {:?})", lb.masked)))
            }
        }
        Some(nb) => {
            let g: Vec<bool> = (0..nb.len()).map(|i| nb.is_valid(i)).collect();
            if g.len() == want.len() && (0..g.len()).all(|i| lb.masked[i] || g[i] == want[i]) {
                Ok(())
            } else {
                Err((format!("{what}-validity"), format!("{what}: unravelled validity {g:?}, expected {want:?} (hidden slots {:?})", lb.masked)))
            }
        }
    }
}

/// unravel inner-to-outer and compare with the expected (whole) buffers
fn unravel_and_compare(stack: &[Layer], want: &[LayerBuf], mut comp: CompositeRepDefUnraveler, large: bool) -> Result<(), (String, String)> {
    let leaf = &want[stack.len()];
    cmp_validity("leaf", comp.unravel_validity(leaf.validity.len()), leaf)?;
    for i in (0..stack.len()).rev() {
        let lb = &want[i];
        let name = format!("layer{i}");
        match stack[i] {
            Layer::Struct => cmp_validity(&name, comp.unravel_validity(lb.validity.len()), lb)?,
            Layer::Fsl => cmp_validity(&name, comp.unravel_fsl_validity(lb.validity.len(), 2), lb)?,
            Layer::List => {
                let mut wo = vec![0i64];
                for l in &lb.norm_len {
                    wo.push(wo.last().unwrap() + *l as i64);
                }
                let (go, gv): (Vec<i64>, Option<NullBuffer>) = if large {
                    let (o, v) = comp.unravel_offsets::<i64>().map_err(|e| (format!("{name}-offsets-error"), e.to_string()))?;
                    (o.iter().copied().collect(), v)
                } else {
                    let (o, v) = comp.unravel_offsets::<i32>().map_err(|e| (format!("{name}-offsets-error"), e.to_string()))?;
                    (o.iter().map(|x| *x as i64).collect(), v)
                };
                if go != wo {
                    return Err((format!("{name}-offsets"), format!("{name}: unravelled offsets {go:?}, expected {wo:?}")));
                }
                cmp_validity(&name, gv, lb)?;
            }
        }
    }
    Ok(())
}


/// validity as handed to the builder for layer `i` (see `feed`)
fn handed(stack: &[Layer], bufs: &[LayerBuf], cfg: Cfg, i: usize) -> Vec<bool> {
    let lb = &bufs[i];
    if cfg.unmasked && (i == stack.len() || stack[i] != Layer::List) {
        lb.validity.iter().zip(lb.masked.iter()).map(|(v, m)| *v || *m).collect()
    } else {
        lb.validity.clone()
    }
}

/// does the chain of first slots below `v` reach a NULL / empty of a deeper layer?
fn first_slot_special(v: &V) -> bool {
    match v {
        V::Null | V::NullG => true,
        V::Leaf => false,
        V::List(xs) => xs.is_empty() || first_slot_special(&xs[0]),
        V::Struct(c) => first_slot_special(c),
        V::Fsl(c) => first_slot_special(&c.0),
    }
}

/// Structural description of the inputs that hit the known `unravel_offsets` defect: one
/// serialisation unit in which some list layer has neither NULL nor empty lists (it is serialised as
/// `AllValidList`) and some list of that layer starts with a slot that is NULL / empty at a deeper layer.
pub fn cause_allvalid_list(stack: &[Layer], rows: &[V], explicit: bool) -> bool {
    fn nodes<'a>(v: &'a V, depth: usize, target: usize, out: &mut Vec<&'a V>) {
        if depth == target {
            out.push(v);
            return;
        }
        match v {
            V::List(xs) => xs.iter().for_each(|x| nodes(x, depth + 1, target, out)),
            V::Struct(c) => nodes(c, depth + 1, target, out),
            V::Fsl(c) => {
                nodes(&c.0, depth + 1, target, out);
                nodes(&c.1, depth + 1, target, out);
            }
            _ => {}
        }
    }
    if explicit {
        return false;
    }
    let bufs = flatten(stack, rows);
    for (i, l) in stack.iter().enumerate() {
        if *l != Layer::List || bufs[i].validity.is_empty() {
            continue;
        }
        if !(bufs[i].validity.iter().all(|v| *v) && bufs[i].norm_len.iter().all(|n| *n > 0)) {
            continue;
        }
        let mut at = vec![];
        for r in rows {
            nodes(r, 0, i, &mut at);
        }
        if at.iter().any(|v| matches!(v, V::List(xs) if first_slot_special(&xs[0]))) {
            return true;
        }
    }
    false
}


/// `SerializerContext::do_record_validity` sets `current_len = validity.len()` (without the special
/// entries of NULL / empty lists recorded so far) and the next `do_record_validity` then trips its own
/// `debug_assert!(current_len == validity.len() + current_num_specials)`: a list layer with NULL /
/// empty lists followed by two layers that carry a validity bitmap (no list layer in between).
pub fn cause_validity_after_specials(stack: &[Layer], rows: &[V], cfg: Cfg) -> bool {
    let bufs = flatten(stack, rows);
    let mut specials = 0usize;
    let mut len_ok = true;
    for i in 0..=stack.len() {
        let h = handed(stack, &bufs, cfg, i);
        let has_bitmap = cfg.explicit || !h.iter().all(|x| *x);
        if has_bitmap {
            if specials > 0 && !len_ok {
                return true;
            }
            len_ok = false;
        }
        if i < stack.len() && stack[i] == Layer::List {
            specials += bufs[i].norm_len.iter().filter(|l| **l == 0).count();
            len_ok = true;
        }
    }
    false
}


/// composite of two unravelers, second half without definition levels (nothing NULL / empty, no explicit
/// bitmaps) under nested lists: `unravel_offsets` truncates its rep levels to `offsets.len() - 1`, but
/// `offsets` already holds the lists of the first unraveler, so stale rep entries survive whenever an
/// inner list of the second half has more than one element.
fn cause_nodef_truncate(stack: &[Layer], b: &[V], cfg: Cfg) -> bool {
    fn inner_list_with_two(v: &V, below_outer_list: bool) -> bool {
        match v {
            V::List(xs) => (below_outer_list && xs.len() >= 2) || xs.iter().any(|x| inner_list_with_two(x, true)),
            V::Struct(c) => inner_list_with_two(c, below_outer_list),
            _ => false,
        }
    }
    if cfg.explicit || stack.iter().filter(|l| **l == Layer::List).count() < 2 {
        return false;
    }
    let fb = flatten(stack, b);
    let no_def = fb.iter().all(|l| l.validity.iter().all(|v| *v) && l.norm_len.iter().all(|n| *n > 0));
    no_def && b.iter().any(|r| inner_list_with_two(r, false))
}

/// the unit has rows but no leaf slot at all and the (empty) leaf validity is handed over as a bitmap:
/// `SerializerContext::build` then sees `current_len == 0` and drops all levels
fn cause_empty_leaf_bitmap(stack: &[Layer], rows: &[V], explicit: bool) -> bool {
    explicit && !rows.is_empty() && flatten(stack, rows)[stack.len()].validity.is_empty()
}

/// composite of two unravelers: a struct / FSL layer is all-valid in one half (`AllValidItem`, it
/// appends `num_items` = number of *leaf* items) and nullable in the other, and the all-valid half has
/// a different number of slots at that layer than leaf items
fn cause_composite_count(stack: &[Layer], a: &[V], b: &[V], cfg: Cfg) -> bool {
    let (fa, fb) = (flatten(stack, a), flatten(stack, b));
    for (i, l) in stack.iter().enumerate() {
        if *l == Layer::List {
            continue;
        }
        let (ha, hb) = (handed(stack, &fa, cfg, i), handed(stack, &fb, cfg, i));
        let (va, vb) = (ha.iter().all(|x| *x) && !cfg.explicit, hb.iter().all(|x| *x) && !cfg.explicit);
        if va != vb {
            let (h, f) = if va { (&ha, &fa) } else { (&hb, &fb) };
            if h.len() != f[stack.len()].validity.len() {
                return true;
            }
            // a read may select any rows of the all-valid half: one row whose slot count at this layer
            // differs from its number of leaf items is enough (e.g. struct<struct<list>> row {{[]}}: 1 slot, 0 items)
            let half = if va { a } else { b };
            if half.iter().any(|r| {
                let fr = flatten(stack, std::slice::from_ref(r));
                fr[i].validity.len() != fr[stack.len()].validity.len()
            }) {
                return true;
            }
        }
    }
    false
}


/// Defects of one serialisation unit. The shapes of the defects fixed in /repo (426ec68 all-valid list
/// starting with an inner special, 345e43b current_len without specials, 811f12d stale rep levels in the
/// second unraveler, a1b70fd 16-bit unary control word) are no longer classified: a recurrence must show
/// up as a new violation. The predicates are kept (`cause_*`) as documentation of those shapes.
fn unit_cause(stack: &[Layer], rows: &[V], cfg: Cfg) -> Option<&'static str> {
    let _ = (cause_empty_leaf_bitmap(stack, rows, cfg.explicit), cause_validity_after_specials(stack, rows, cfg), cause_allvalid_list(stack, rows, cfg.explicit));
    if rows.is_empty() {
        Some("zero-rows")
    } else {
        None
    }
}

fn halves_cause(stack: &[Layer], a: &[V], b: &[V], cfg: Cfg) -> Option<&'static str> {
    let _ = cause_nodef_truncate(stack, b, cfg);
    unit_cause(stack, a, cfg).or_else(|| unit_cause(stack, b, cfg)).or_else(|| {
        if cause_composite_count(stack, a, b, cfg) {
            Some(K_COMPOSITE_COUNT)
        } else {
            None
        }
    })
}

/// how a leaf column of a file was written (for the file-only defect shapes)
#[derive(Clone, Copy, Debug)]
pub struct FileShape {
    /// rows [..split] and [split..] are separate pages
    pub split: usize,
    pub pages: bool,
    /// structural-encoding = fullzip requested
    pub fullzip: bool,
    /// the written batch(es) are slices of a longer array: validity bitmaps survive although the slice has no NULL
    pub sliced: bool,
}

fn row_all_valid(v: &V) -> bool {
    match v {
        V::Null | V::NullG => false,
        V::Leaf => true,
        V::List(xs) => !xs.is_empty() && xs.iter().all(row_all_valid),
        V::Struct(c) => row_all_valid(c),
        V::Fsl(c) => row_all_valid(&c.0) && row_all_valid(&c.1),
    }
}

/// full-zip + a leaf column + a page whose definition levels are all zero although
/// a bitmap is handed over (slice of an array that has NULLs elsewhere): `encode_full_zip` derives
/// `max_def` from the level *values* (0), `build_control_word_iterator` then writes a one-byte Unary
/// control word but reports `bits_def = 0`, so the reader parses no control word at all (without lists:
/// every value is read one byte early) or hands no definition levels to an unraveler whose
/// `def_meaning` is nullable (with lists: unwrap on None).
fn cause_fullzip_zero_def(stack: &[Layer], rows: &[V], sh: FileShape) -> bool {
    let _ = stack;
    if !sh.fullzip || !(sh.sliced || (sh.pages && sh.split > 0)) {
        return false;
    }
    let pages: Vec<&[V]> = if sh.pages && sh.split > 0 && sh.split < rows.len() { vec![&rows[..sh.split], &rows[sh.split..]] } else { vec![rows] };
    // `sliced` without page split: the bitmap exists iff the longer array had a NULL in the dropped lead row;
    // the caller passes the lead row as part of `rows` only in the paged case, so a sliced page is a candidate
    // whenever it is itself free of NULLs
    let whole_has_null = rows.iter().any(|r| !row_all_valid(r)) || sh.sliced;
    whole_has_null && pages.iter().any(|p| !p.is_empty() && p.iter().all(row_all_valid))
}

/// full-zip + a struct layer above a list layer + a NULL struct at that layer + a second kind of special
/// at a different level at or above the innermost list (a NULL struct at another struct layer, a NULL
/// list, or an empty list). One special level alone (only NULL structs, or only NULL lists) reads fine.
fn cause_fullzip_null_struct_list(stack: &[Layer], rows: &[V], sh: FileShape) -> bool {
    // special "levels": 2*depth for a NULL at `depth`, 2*depth+1 for an empty list at `depth`
    fn scan(v: &V, depth: usize, stack: &[Layer], last_list: usize, levels: &mut std::collections::BTreeSet<usize>, struct_null: &mut bool) {
        match v {
            V::Null | V::NullG => {
                if depth <= last_list {
                    levels.insert(2 * depth);
                    if stack[depth] == Layer::Struct {
                        *struct_null = true;
                    }
                }
            }
            V::Leaf => {}
            V::List(xs) => {
                if xs.is_empty() {
                    levels.insert(2 * depth + 1);
                }
                xs.iter().for_each(|x| scan(x, depth + 1, stack, last_list, levels, struct_null));
            }
            V::Struct(c) => scan(c, depth + 1, stack, last_list, levels, struct_null),
            V::Fsl(_) => {}
        }
    }
    let Some(last_list) = stack.iter().rposition(|l| *l == Layer::List) else {
        return false;
    };
    if !sh.fullzip || !stack[..last_list].contains(&Layer::Struct) {
        return false;
    }
    let mut levels = std::collections::BTreeSet::new();
    let mut struct_null = false;
    for r in rows {
        scan(r, 0, stack, last_list, &mut levels, &mut struct_null);
    }
    struct_null && levels.len() >= 2
}

/// a column with nested lists (>= 2 list layers on the leaf's path) with a page that holds no valid leaf
/// value (that page uses the all-null layout, which keeps only rep/def levels)
fn cause_allnull_nested(stack: &[Layer], pages: &[&[V]]) -> bool {
    stack.iter().filter(|l| **l == Layer::List).count() >= 2
        && pages.iter().any(|rows| !rows.is_empty() && flatten(stack, rows)[stack.len()].validity.iter().all(|v| !*v))
}

/// classification of a file-level failure by the shape of one leaf column
pub fn file_cause(stack: &[Layer], rows: &[V], sh: FileShape) -> Option<&'static str> {
    let plain = Cfg { explicit: false, large: false, base: false, unmasked: false };
    let paged = sh.pages && sh.split > 0 && sh.split < rows.len();
    let rep = if paged { halves_cause(stack, &rows[..sh.split], &rows[sh.split..], plain) } else { unit_cause(stack, rows, plain) };
    rep.filter(|c| *c != "zero-rows").or_else(|| {
        let halves: Vec<&[V]> = if paged { vec![&rows[..sh.split], &rows[sh.split..]] } else { vec![rows] };
        // unanalysed class: full-zip, two pages cut from one batch, a page that carries a validity bitmap
        // without NULLs at some struct / leaf layer (the array has NULLs there in the other page) and also
        // holds NULL / empty lists (so its definition levels are not all zero, which is the class below)
        let whole = flatten(stack, rows);
        let bitmap_without_nulls = |h: &[V]| {
            let fh = flatten(stack, h);
            (0..=stack.len()).any(|i| (i == stack.len() || stack[i] != Layer::List) && whole[i].validity.iter().any(|v| !*v) && fh[i].validity.iter().all(|v| *v))
        };
        let has_list_special = |h: &[V]| {
            let fh = flatten(stack, h);
            (0..stack.len()).any(|i| stack[i] == Layer::List && fh[i].norm_len.iter().any(|l| *l == 0))
        };
        if sh.fullzip && paged && halves.iter().any(|h| !h.is_empty() && has_list_special(h) && bitmap_without_nulls(h)) {
            return Some(K_FULLZIP_GARBAGE_PAGE);
        }
        if cause_fullzip_zero_def(stack, rows, sh) {
            Some(K_FULLZIP_ZERO_DEF)
        } else if cause_fullzip_null_struct_list(stack, rows, sh) {
            Some(K_FULLZIP_NULL_STRUCT_LIST)
        } else if cause_allnull_nested(stack, &halves) {
            Some(K_ALLNULL_NESTED)
        } else {
            None
        }
    })
}

/// all oracles for one (stack, rows, cfg). Returns (mode, what-mismatched, description) per failure.
pub fn check_rows(stack: &[Layer], rows: &[V], cfg: Cfg) -> Vec<(String, String, String, Option<&'static str>)> {
    let mut fails = vec![];
    let want = flatten(stack, rows);
    let leaf_items = want[stack.len()].validity.len();
    // single builder
    let r = vcore::catch(|| -> Result<(), (String, String)> {
        let b = feed(stack, &want, cfg).map_err(|e| ("garbage-flag".to_string(), e))?;
        let ser = RepDefBuilder::serialize(vec![b]);
        if let (Some(r), Some(d)) = (&ser.repetition_levels, &ser.definition_levels) {
            if r.len() != d.len() {
                return Err(("levels-len".into(), format!("rep has {} levels, def has {}", r.len(), d.len())));
            }
        }
        let comp = CompositeRepDefUnraveler::new(vec![unraveler_of(ser, leaf_items)]);
        unravel_and_compare(stack, &want, comp, cfg.large)
    });
    match r {
        Err(p) => fails.push(("single".to_string(), "panic".to_string(), format!("panic: {p}"), unit_cause(stack, rows, cfg))),
        Ok(Err((k, d))) => fails.push(("single".to_string(), k, d, unit_cause(stack, rows, cfg))),
        Ok(Ok(())) => {}
    }
    if !fails.is_empty() {
        return fails;
    }
    // two builders / two unravelers for every split point with non-empty halves
    for k in 1..rows.len() {
        let (wa, wb) = (flatten(stack, &rows[..k]), flatten(stack, &rows[k..]));
        let r = vcore::catch(|| -> Result<(), (String, String)> {
            let a = feed(stack, &wa, cfg).map_err(|e| ("garbage-flag".to_string(), e))?;
            let b = feed(stack, &wb, cfg).map_err(|e| ("garbage-flag".to_string(), e))?;
            let ser = RepDefBuilder::serialize(vec![a, b]);
            let comp = CompositeRepDefUnraveler::new(vec![unraveler_of(ser, leaf_items)]);
            unravel_and_compare(stack, &want, comp, cfg.large)
        });
        match r {
            Err(p) => fails.push(("two-builders".to_string(), "panic".to_string(), format!("split at {k}: panic: {p}"), unit_cause(stack, rows, cfg))),
            Ok(Err((kk, d))) => fails.push(("two-builders".to_string(), kk, format!("split at {k}: {d}"), unit_cause(stack, rows, cfg))),
            Ok(Ok(())) => {}
        }
        let r = vcore::catch(|| -> Result<(), (String, String)> {
            let a = feed(stack, &wa, cfg).map_err(|e| ("garbage-flag".to_string(), e))?;
            let b = feed(stack, &wb, cfg).map_err(|e| ("garbage-flag".to_string(), e))?;
            let sa = RepDefBuilder::serialize(vec![a]);
            let sb = RepDefBuilder::serialize(vec![b]);
            let ua = unraveler_of(sa, wa[stack.len()].validity.len());
            let ub = unraveler_of(sb, wb[stack.len()].validity.len());
            let comp = CompositeRepDefUnraveler::new(vec![ua, ub]);
            unravel_and_compare(stack, &want, comp, cfg.large)
        });
        match r {
            Err(p) => fails.push(("two-unravelers".to_string(), "panic".to_string(), format!("split at {k}: panic: {p}"), halves_cause(stack, &rows[..k], &rows[k..], cfg))),
            Ok(Err((kk, d))) => fails.push(("two-unravelers".to_string(), kk, format!("split at {k}: {d}"), halves_cause(stack, &rows[..k], &rows[k..], cfg))),
            Ok(Ok(())) => {}
        }
        if !fails.is_empty() {
            break;
        }
    }
    fails
}

pub fn all_stacks(max_depth: usize) -> Vec<Vec<Layer>> {
    let mut out = vec![];
    for d in 0..=max_depth {
        for s in vcore::smallx::sequences(3, d, d) {
            let st: Vec<Layer> = s
                .iter()
                .map(|i| match i {
                    0 => Layer::List,
                    1 => Layer::Struct,
                    _ => Layer::Fsl,
                })
                .collect();
            // `RepDefUnraveler::decimate` is `todo!()` when repetition levels exist: FSL together with a
            // list layer is declared unsupported by the code itself -> outside the scope
            if st.contains(&Layer::Fsl) && st.contains(&Layer::List) {
                continue;
            }
            out.push(st);
        }
    }
    out
}

/// features of the input that decide which serializer / unraveler branches run (part of the key)
fn features(stack: &[Layer], rows: &[V]) -> String {
    fn walk(v: &V, depth: usize, stack: &[Layer], f: &mut std::collections::BTreeSet<String>) {
        match v {
            V::Null => {
                let k = if depth < stack.len() {
                    match stack[depth] {
                        Layer::List => "null-list",
                        Layer::Struct => "null-struct",
                        Layer::Fsl => "null-fsl",
                    }
                } else {
                    "null-leaf"
                };
                f.insert(k.to_string());
            }
            V::NullG => {
                f.insert("garbage".into());
            }
            V::Leaf => {}
            V::List(xs) => {
                if xs.is_empty() {
                    f.insert("empty-list".into());
                }
                for x in xs {
                    walk(x, depth + 1, stack, f);
                }
            }
            V::Struct(c) => walk(c, depth + 1, stack, f),
            V::Fsl(c) => {
                walk(&c.0, depth + 1, stack, f);
                walk(&c.1, depth + 1, stack, f);
            }
        }
    }
    let mut f = std::collections::BTreeSet::new();
    for r in rows {
        walk(r, 0, stack, &mut f);
    }
    f.into_iter().collect::<Vec<_>>().join("+")
}

fn case_json(stack: &[Layer], rows: &[V], cfg: Cfg) -> Value {
    json!({"kind":"repdef","stack":stack_name(stack),"rows":rows.iter().map(|r| r.to_json()).collect::<Vec<_>>(),"cfg":cfg.to_json()})
}

fn run_case(stack: &[Layer], rows: &[V], cfg: Cfg, cov: &mut Cov, viol: &mut Vec<Violation>) {
    let nontrivial = rows.iter().any(|r| r.has_special()) && rows.iter().any(|r| r.has_leaf());
    cov.eval(if nontrivial {
        Some(vcore::hash64(format!("{}{:?}", stack_name(stack), rows).as_bytes()))
    } else {
        None
    });
    let mut fails = check_rows(stack, rows, cfg);
    if rows.is_empty() {
        // zero rows: `serialize` is never reached with zero rows through the writer (zero-row files are
        // covered at file level in C25); a panic here is recorded, not judged
        if !fails.is_empty() {
            cov.outcome("repdef/zero-rows-api-panic(recorded, outside the encoders' calling contract)");
        }
        fails.clear();
    }
    if fails.is_empty() {
        cov.outcome("repdef/ok");
        if let Some(c) = unit_cause(stack, rows, cfg) {
            // the structural description of a known defect matched but every oracle held: shows how tight the description is
            cov.outcome(&format!("repdef/ok-although-shape-matches/{c}"));
        }
    }
    for (mode, k, d, cause) in fails {
        cov.outcome(&format!("repdef-api/fail/{mode}/{}", cause.unwrap_or("unclassified")));
        let cfgs = format!(
            "{}{}{}{}",
            if cfg.explicit { "E" } else { "" },
            if cfg.large { "W" } else { "" },
            if cfg.base { "B" } else { "" },
            if cfg.unmasked { "U" } else { "" }
        );
        // inputs matching the structural description of an analysed defect are keyed by that
        // description; everything else keeps the full (stack, mismatch, features, config) key
        let key = match cause {
            Some(c) => c.to_string(),
            None => format!("repdef/{mode}/{}/{k}/{}/cfg{cfgs}", stack_name(stack), features(stack, rows)),
        };
        viol.push(Violation::new(
            &format!("repdef-{mode}"),
            &key,
            format!("stack {} rows {} cfg {:?}: {d}", stack_name(stack), Value::Array(rows.iter().map(|r| r.to_json()).collect()), cfg),
            case_json(stack, rows, cfg),
        ));
    }
}

// ------------------------------------------------------------------------------------------
// (b) control words

fn ctrl_levels(max: u16) -> Vec<u16> {
    let mut v = vec![0u16, 1, max / 2, max.saturating_sub(1), max];
    v.retain(|x| *x <= max);
    v.sort();
    v.dedup();
    v
}

fn control_words(cov: &mut Cov, viol: &mut Vec<Violation>) {
    let maxes: [u16; 15] = [0, 1, 2, 3, 4, 7, 8, 15, 16, 127, 128, 255, 256, 4095, 32767];
    for &max_rep in &maxes {
        for &max_def in &maxes {
            let reps = ctrl_levels(max_rep);
            let defs = ctrl_levels(max_def);
            let mut pairs: Vec<(u16, u16)> = vec![];
            for r in &reps {
                for d in &defs {
                    pairs.push((*r, *d));
                }
            }
            let mut vis: Vec<u16> = vec![0, max_def / 2, max_def, u16::MAX];
            vis.sort();
            vis.dedup();
            for max_vis in vis {
                let rep: Vec<u16> = pairs.iter().map(|p| p.0).collect();
                let def: Vec<u16> = pairs.iter().map(|p| p.1).collect();
                let case = json!({"kind":"control_words","max_rep":max_rep,"max_def":max_def,"max_visible_def":max_vis});
                cov.eval(if max_rep > 0 && max_def > 0 { Some(vcore::hash64(case.to_string().as_bytes())) } else { None });
                let r = vcore::catch(|| -> Result<(), (String, String)> {
                    let has_rep = max_rep > 0;
                    let has_def = max_def > 0;
                    let mut it = build_control_word_iterator(
                        if has_rep { Some(&rep[..]) } else { None },
                        max_rep,
                        if has_def { Some(&def[..]) } else { None },
                        max_def,
                        max_vis,
                        pairs.len(),
                    );
                    let parser = ControlWordParser::new(it.bits_rep(), it.bits_def());
                    if parser.bytes_per_word() != it.bytes_per_word() {
                        return Err(("bytes-per-word".into(), format!("iterator {} bytes/word, parser {}", it.bytes_per_word(), parser.bytes_per_word())));
                    }
                    if parser.has_rep() != it.has_repetition() || it.has_repetition() != has_rep {
                        return Err(("has-rep".into(), format!("iterator has_repetition {} parser has_rep {} levels present {}", it.has_repetition(), parser.has_rep(), has_rep)));
                    }
                    let bpw = it.bytes_per_word();
                    let mut buf = vec![];
                    let mut descs = vec![];
                    for _ in 0..pairs.len() {
                        match it.append_next(&mut buf) {
                            Some(d) => descs.push(d),
                            None => return Err(("short".into(), "iterator ended before all levels were produced".into())),
                        }
                    }
                    if buf.len() != bpw * pairs.len() {
                        return Err(("buf-len".into(), format!("{} bytes for {} words of {} bytes", buf.len(), pairs.len(), bpw)));
                    }
                    let (mut gr, mut gd) = (vec![], vec![]);
                    for (i, (r, d)) in pairs.iter().enumerate() {
                        let src = &buf[i * bpw..];
                        parser.parse(src, &mut gr, &mut gd);
                        let pd = parser.parse_desc(src, max_rep, max_vis);
                        let want_new_row = !has_rep || *r == max_rep;
                        let want_visible = !has_rep || !has_def || *d <= max_vis;
                        let want_valid = !has_def || *d == 0;
                        for (who, desc) in [("iterator", &descs[i]), ("parser", &pd)] {
                            if desc.is_new_row != want_new_row {
                                return Err((format!("{who}-is_new_row"), format!("{who}: (rep {r}, def {d}) is_new_row {} expected {want_new_row}", desc.is_new_row)));
                            }
                            if desc.is_visible != want_visible {
                                return Err((format!("{who}-is_visible"), format!("{who}: (rep {r}, def {d}) is_visible {} expected {want_visible}", desc.is_visible)));
                            }
                            if desc.is_valid_item != want_valid {
                                return Err((format!("{who}-is_valid_item"), format!("{who}: (rep {r}, def {d}) is_valid_item {} expected {want_valid}", desc.is_valid_item)));
                            }
                        }
                    }
                    if has_rep && gr != rep {
                        return Err(("rep-roundtrip".into(), format!("parsed rep {gr:?} expected {rep:?}")));
                    }
                    if has_def && gd != def {
                        return Err(("def-roundtrip".into(), format!("parsed def {gd:?} expected {def:?}")));
                    }
                    // an exhausted iterator answers None (as the Option return type and every other
                    // width's implementation say)
                    let mut sink = vec![];
                    match vcore::catch(|| it.append_next(&mut sink).is_some()) {
                        Ok(false) => {}
                        Ok(true) => return Err(("exhausted-some".into(), "append_next after the last level returned Some".into())),
                        Err(p) => return Err(("exhausted-panic".into(), format!("append_next after the last level panicked instead of returning None: {p}"))),
                    }
                    Ok(())
                });
                let width = |m: u16| if m == 0 { 0 } else { 16 - m.leading_zeros() };
                let shape = format!(
                    "{}{}-{}",
                    if max_rep > 0 { "rep" } else { "" },
                    if max_def > 0 { "def" } else { "" },
                    match width(max_rep) + width(max_def) {
                        0 => "w0",
                        1..=8 => "w8",
                        9..=16 => "w16",
                        _ => "w32",
                    }
                );
                match r {
                    Ok(Ok(())) => cov.outcome("ctrl/ok"),
                    Ok(Err((k, d))) => {
                        cov.outcome("ctrl/fail");
                        let key = format!("ctrl/{shape}/{k}");
                        viol.push(Violation::new("control-words", &key, format!("{case}: {d}"), case));
                    }
                    Err(p) => {
                        cov.outcome("ctrl/panic");
                        viol.push(Violation::new("control-words", &format!("ctrl/{shape}/panic"), format!("{case}: panic: {p}"), case));
                    }
                }
            }
        }
    }
}

// ------------------------------------------------------------------------------------------

struct Work {
    stack: Vec<Layer>,
    n: usize,
    /// first-row index slice (work is split on the first row's value)
    first: Vec<usize>,
    /// row alphabet: NULL-with-garbage lists included, maximal list length
    garbage: bool,
    max_list: usize,
}

fn replay(ctx: &Ctx, case: &Value) -> Outcome {
    let mut out = Outcome::new("exploration");
    let mut cov = Cov::new();
    let mut viol = vec![];
    match case["kind"].as_str() {
        Some("repdef") => {
            let stack = stack_from_name(case["stack"].as_str().unwrap_or("")).unwrap_or_else(|| vcore::machinery_error("bad stack"));
            let rows: Vec<V> = case["rows"]
                .as_array()
                .and_then(|a| a.iter().map(V::from_json).collect::<Option<Vec<_>>>())
                .unwrap_or_else(|| vcore::machinery_error("bad rows"));
            let cfg = Cfg::from_json(&case["cfg"]).unwrap_or_else(|| vcore::machinery_error("bad cfg"));
            run_case(&stack, &rows, cfg, &mut cov, &mut viol);
        }
        Some("control_words") => {
            let mut all = vec![];
            control_words(&mut cov, &mut all);
            viol.extend(all.into_iter().filter(|v| &v.case == case));
        }
        Some("long_list") => crate::longlist::replay(case, &mut cov, &mut viol),
        Some("repdef_file") => {
            crate::c27_file::replay(ctx, case, &mut cov, &mut viol);
        }
        _ => vcore::machinery_error("unknown replay case kind"),
    }
    cov.sample(case.clone());
    cov.fill(&mut out, "replay of one case", false);
    out.violations = viol;
    out
}

pub fn run(ctx: &Ctx) -> Outcome {
    if let Some(art) = ctx.replay_case() {
        return replay(ctx, &art["case"]);
    }
    let mut out = Outcome::new("exploration");
    let cap_per_stack: u64 = ctx.tier.pick(6_000, 400_000);
    let cfgs = Cfg::all(ctx.quick());
    let stacks = all_stacks(3);
    let mut scope = vec![];
    let mut work: Vec<Work> = vec![];
    for st in &stacks {
        work.push(Work { stack: st.clone(), n: 0, first: vec![], garbage: true, max_list: 2 });
        let hard_max = if st.len() >= 3 { 4 } else { 6 };
        // the full alphabet first; thinner alphabets (no garbage lists, then lists of <= 1 element) are
        // added only where they reach more rows than the richer one did
        let mut best_n = 0usize;
        for (garbage, max_list) in [(true, 2usize), (false, 2), (false, 1)] {
            let vals = values(st, garbage, max_list);
            if !st.contains(&Layer::List) && !(garbage && max_list == 2) {
                continue; // the alphabets only differ for list stacks
            }
            let mut n_max = 0usize;
            let mut total: u64 = 0;
            for n in 1..=hard_max {
                let c = (vals.len() as u64).checked_pow(n as u32).unwrap_or(u64::MAX);
                if n > 1 && total.saturating_add(c) > cap_per_stack {
                    break;
                }
                total = total.saturating_add(c);
                n_max = n;
            }
            if n_max <= best_n {
                continue;
            }
            scope.push(json!({"stack":stack_name(st),"garbage_lists":garbage,"max_list_len":max_list,"row_values":vals.len(),"rows":format!("{}..={}", best_n + 1, n_max)}));
            for n in (best_n + 1)..=n_max {
                let idx: Vec<usize> = (0..vals.len()).collect();
                for ch in vcore::smallx::chunks(&idx, if vals.len().pow(n as u32) > 20_000 { 64 } else { 4 }) {
                    work.push(Work { stack: st.clone(), n, first: ch, garbage, max_list });
                }
            }
            best_n = n_max;
        }
    }
    let deadline = ctx.opts.get("deadline").and_then(|d| d.parse().ok()).unwrap_or(ctx.tier.pick(20.0, 300.0));
    let start = std::time::Instant::now();
    let capped = std::sync::atomic::AtomicBool::new(false);
    let res = vcore::par_map(work, ctx.workers, |_, w| {
        let mut cov = Cov::new();
        let mut viol: Vec<Violation> = vec![];
        let vals = values(&w.stack, w.garbage, w.max_list);
        if w.n == 0 {
            for cfg in &cfgs {
                run_case(&w.stack, &[], *cfg, &mut cov, &mut viol);
            }
            return (cov, viol);
        }
        let mut dims = vec![vals.len(); w.n];
        dims[0] = w.first.len();
        let mut seen_keys = std::collections::HashSet::new();
        vcore::smallx::product(&dims, |ix| {
            if start.elapsed().as_secs_f64() > deadline {
                capped.store(true, std::sync::atomic::Ordering::SeqCst);
                return false;
            }
            let rows: Vec<V> = ix.iter().enumerate().map(|(k, i)| if k == 0 { vals[w.first[*i]].clone() } else { vals[*i].clone() }).collect();
            for cfg in &cfgs {
                // `unmasked` only differs when something is hidden behind a NULL struct / FSL
                let mut v = vec![];
                run_case(&w.stack, &rows, *cfg, &mut cov, &mut v);
                for x in v {
                    if seen_keys.insert(x.key.clone()) || viol.len() < 50 {
                        viol.push(x);
                    }
                }
            }
            true
        });
        (cov, viol)
    });
    let mut cov = Cov::new();
    let mut viol = vec![];
    for (c, v) in res {
        cov.merge(c);
        viol.extend(v);
    }
    eprintln!("[c27] api-level done at {:.1}s", ctx.elapsed_s());
    control_words(&mut cov, &mut viol);
    // (c) file level
    let file_scope = crate::c27_file::run(ctx, &mut cov, &mut viol);
    eprintln!("[c27] file-level done at {:.1}s", ctx.elapsed_s());
    // shortest inputs first so that `finish` keeps the minimal artefact per key
    viol.sort_by_key(|v| (v.case["rows"].to_string().len(), v.case["cfg"].to_string().matches("true").count(), v.case.to_string().len()));
    cov.sample(case_json(&[Layer::List, Layer::Struct], &[V::List(vec![V::Null, V::Struct(Box::new(V::Leaf))]), V::NullG], Cfg { explicit: false, large: false, base: true, unmasked: false }));
    cov.sample(case_json(&[Layer::Struct, Layer::List, Layer::List], &[V::Struct(Box::new(V::List(vec![V::List(vec![]), V::Null])))], Cfg { explicit: true, large: true, base: false, unmasked: false }));
    cov.sample(json!({"kind":"control_words","max_rep":3,"max_def":255,"max_visible_def":127}));
    let exhaustive = !capped.load(std::sync::atomic::Ordering::SeqCst) && file_scope["capped"] != json!(true);
    cov.fill(
        &mut out,
        "rep/def API: every stack of depth<=3 over {list,struct,fsl(2)} (FSL only without lists) x every tuple of <= max_rows row values (list length 0..=2, NULL, NULL-with-garbage, NULL/valid at every level) x builder configurations x {one builder, two builders, two unravelers at every split}; control words: 15x15 (max_rep,max_def) x visible levels x boundary level pairs; files: see file_scope (incl. the long-list family: rows of 4097 / 10000 items spanning several mini-block chunks). non-trivial = input holds at least one NULL/empty and at least one leaf item",
        exhaustive,
    );
    if !exhaustive {
        out.set("cap_hit", format!("wall cap (API-level enumeration {deadline}s / file-level enumeration) stopped the odometer early"));
    }
    out.set("scope_per_stack", Value::Array(scope));
    out.set("builder_configs", cfgs.len() as u64);
    out.set("file_scope", file_scope);
    out.assume("API-level inputs follow the encoders' calling contract: NULLs of a struct are pushed down to list children and garbage behind NULL lists is removed from the child before it is handed to the builder");
    out.assume("FSL layers together with list layers are outside the scope: RepDefUnraveler::decimate is todo!() there and the 2.1 encoder never calls add_fsl");
    out.violations = viol;
    out
}
