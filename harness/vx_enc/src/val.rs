//! Logical value model used as the oracle side of the round-trip checks (independent of Lance helpers).
//!
//! `Val` is what a row of an Arrow array *means*; two arrays are logically equal when their `Val`
//! rows are equal. Documented normalisations applied by the conversion:
//!   * 32/64-bit offsets (List/LargeList, Utf8/LargeUtf8, Binary/LargeBinary, views) are the same value;
//!   * a dictionary array is its decoded values;
//!   * whatever sits behind a NULL (garbage list ranges, children of a NULL struct, items of a NULL
//!     fixed-size list) is not part of the value;
//!   * floats are compared by bit pattern (NaN payloads and -0.0 must survive).

use arrow_array::cast::AsArray;
use arrow_array::types::*;
use arrow_array::*;
use arrow_schema::{DataType, IntervalUnit, TimeUnit};

#[derive(Clone, Debug, PartialEq, Eq, Hash)]
pub enum Val {
    Null,
    Bool(bool),
    Int(i128),
    /// 256-bit decimals and intervals: raw little-endian bytes
    Raw(Vec<u8>),
    /// float bits (f16/f32/f64 widened to the bit pattern with a width tag)
    F(u8, u64),
    Bytes(Vec<u8>),
    List(Vec<Val>),
    Struct(Vec<(String, Val)>),
}

impl Val {
    pub fn short(&self) -> String {
        match self {
            Val::Null => "N".into(),
            Val::Bool(b) => format!("{b}"),
            Val::Int(i) => format!("{i}"),
            Val::Raw(b) => format!("raw{b:?}"),
            Val::F(w, b) => match w {
                32 => format!("{:?}f", f32::from_bits(*b as u32)),
                64 => format!("{:?}d", f64::from_bits(*b)),
                _ => format!("h{b:#x}"),
            },
            Val::Bytes(b) => match std::str::from_utf8(b) {
                Ok(s) if b.len() <= 12 => format!("{s:?}"),
                _ if b.len() <= 6 => format!("x{b:?}"),
                _ => format!("bytes[{}]", b.len()),
            },
            Val::List(v) => format!("[{}]", v.iter().map(|x| x.short()).collect::<Vec<_>>().join(",")),
            Val::Struct(v) => format!(
                "{{{}}}",
                v.iter().map(|(k, x)| format!("{k}:{}", x.short())).collect::<Vec<_>>().join(",")
            ),
        }
    }
}

pub fn rows_short(rows: &[Val]) -> String {
    let s = rows.iter().map(|r| r.short()).collect::<Vec<_>>().join(" | ");
    if s.len() > 300 {
        format!("{}…", s.chars().take(300).collect::<String>())
    } else {
        s
    }
}

macro_rules! prim_rows {
    ($arr:expr, $t:ty, $f:expr) => {{
        let a = $arr.as_primitive::<$t>();
        (0..a.len())
            .map(|i| if a.is_null(i) { Val::Null } else { $f(a.value(i)) })
            .collect()
    }};
}

/// One `Val` per row of `arr`.
pub fn array_rows(arr: &dyn Array) -> Result<Vec<Val>, String> {
    let int = |v: i128| Val::Int(v);
    Ok(match arr.data_type() {
        DataType::Null => vec![Val::Null; arr.len()],
        DataType::Boolean => {
            let a = arr.as_boolean();
            (0..a.len()).map(|i| if a.is_null(i) { Val::Null } else { Val::Bool(a.value(i)) }).collect()
        }
        DataType::Int8 => prim_rows!(arr, Int8Type, |v| int(v as i128)),
        DataType::Int16 => prim_rows!(arr, Int16Type, |v| int(v as i128)),
        DataType::Int32 => prim_rows!(arr, Int32Type, |v| int(v as i128)),
        DataType::Int64 => prim_rows!(arr, Int64Type, |v| int(v as i128)),
        DataType::UInt8 => prim_rows!(arr, UInt8Type, |v| int(v as i128)),
        DataType::UInt16 => prim_rows!(arr, UInt16Type, |v| int(v as i128)),
        DataType::UInt32 => prim_rows!(arr, UInt32Type, |v| int(v as i128)),
        DataType::UInt64 => prim_rows!(arr, UInt64Type, |v| int(v as i128)),
        DataType::Float16 => prim_rows!(arr, Float16Type, |v: half::f16| Val::F(16, v.to_bits() as u64)),
        DataType::Float32 => prim_rows!(arr, Float32Type, |v: f32| Val::F(32, v.to_bits() as u64)),
        DataType::Float64 => prim_rows!(arr, Float64Type, |v: f64| Val::F(64, v.to_bits())),
        DataType::Date32 => prim_rows!(arr, Date32Type, |v| int(v as i128)),
        DataType::Date64 => prim_rows!(arr, Date64Type, |v| int(v as i128)),
        DataType::Time32(TimeUnit::Second) => prim_rows!(arr, Time32SecondType, |v| int(v as i128)),
        DataType::Time32(TimeUnit::Millisecond) => prim_rows!(arr, Time32MillisecondType, |v| int(v as i128)),
        DataType::Time64(TimeUnit::Microsecond) => prim_rows!(arr, Time64MicrosecondType, |v| int(v as i128)),
        DataType::Time64(TimeUnit::Nanosecond) => prim_rows!(arr, Time64NanosecondType, |v| int(v as i128)),
        DataType::Timestamp(TimeUnit::Second, _) => prim_rows!(arr, TimestampSecondType, |v| int(v as i128)),
        DataType::Timestamp(TimeUnit::Millisecond, _) => prim_rows!(arr, TimestampMillisecondType, |v| int(v as i128)),
        DataType::Timestamp(TimeUnit::Microsecond, _) => prim_rows!(arr, TimestampMicrosecondType, |v| int(v as i128)),
        DataType::Timestamp(TimeUnit::Nanosecond, _) => prim_rows!(arr, TimestampNanosecondType, |v| int(v as i128)),
        DataType::Duration(TimeUnit::Second) => prim_rows!(arr, DurationSecondType, |v| int(v as i128)),
        DataType::Duration(TimeUnit::Millisecond) => prim_rows!(arr, DurationMillisecondType, |v| int(v as i128)),
        DataType::Duration(TimeUnit::Microsecond) => prim_rows!(arr, DurationMicrosecondType, |v| int(v as i128)),
        DataType::Duration(TimeUnit::Nanosecond) => prim_rows!(arr, DurationNanosecondType, |v| int(v as i128)),
        DataType::Decimal128(_, _) => prim_rows!(arr, Decimal128Type, |v| int(v)),
        DataType::Decimal256(_, _) => {
            prim_rows!(arr, Decimal256Type, |v: arrow_buffer::i256| Val::Raw(v.to_le_bytes().to_vec()))
        }
        DataType::Interval(IntervalUnit::YearMonth) => prim_rows!(arr, IntervalYearMonthType, |v| int(v as i128)),
        DataType::Interval(IntervalUnit::DayTime) => {
            prim_rows!(arr, IntervalDayTimeType, |v: arrow_buffer::IntervalDayTime| Val::Raw(
                [v.days.to_le_bytes(), v.milliseconds.to_le_bytes()].concat()
            ))
        }
        DataType::Interval(IntervalUnit::MonthDayNano) => {
            prim_rows!(arr, IntervalMonthDayNanoType, |v: arrow_buffer::IntervalMonthDayNano| Val::Raw(
                [v.months.to_le_bytes().to_vec(), v.days.to_le_bytes().to_vec(), v.nanoseconds.to_le_bytes().to_vec()].concat()
            ))
        }
        DataType::Utf8 => {
            let a = arr.as_string::<i32>();
            (0..a.len()).map(|i| if a.is_null(i) { Val::Null } else { Val::Bytes(a.value(i).as_bytes().to_vec()) }).collect()
        }
        DataType::LargeUtf8 => {
            let a = arr.as_string::<i64>();
            (0..a.len()).map(|i| if a.is_null(i) { Val::Null } else { Val::Bytes(a.value(i).as_bytes().to_vec()) }).collect()
        }
        DataType::Utf8View => {
            let a = arr.as_string_view();
            (0..a.len()).map(|i| if a.is_null(i) { Val::Null } else { Val::Bytes(a.value(i).as_bytes().to_vec()) }).collect()
        }
        DataType::Binary => {
            let a = arr.as_binary::<i32>();
            (0..a.len()).map(|i| if a.is_null(i) { Val::Null } else { Val::Bytes(a.value(i).to_vec()) }).collect()
        }
        DataType::LargeBinary => {
            let a = arr.as_binary::<i64>();
            (0..a.len()).map(|i| if a.is_null(i) { Val::Null } else { Val::Bytes(a.value(i).to_vec()) }).collect()
        }
        DataType::BinaryView => {
            let a = arr.as_binary_view();
            (0..a.len()).map(|i| if a.is_null(i) { Val::Null } else { Val::Bytes(a.value(i).to_vec()) }).collect()
        }
        DataType::FixedSizeBinary(_) => {
            let a = arr.as_fixed_size_binary();
            (0..a.len()).map(|i| if a.is_null(i) { Val::Null } else { Val::Bytes(a.value(i).to_vec()) }).collect()
        }
        DataType::List(_) => {
            let a = arr.as_list::<i32>();
            let mut out = Vec::with_capacity(a.len());
            for i in 0..a.len() {
                out.push(if a.is_null(i) { Val::Null } else { Val::List(array_rows(a.value(i).as_ref())?) });
            }
            out
        }
        DataType::LargeList(_) => {
            let a = arr.as_list::<i64>();
            let mut out = Vec::with_capacity(a.len());
            for i in 0..a.len() {
                out.push(if a.is_null(i) { Val::Null } else { Val::List(array_rows(a.value(i).as_ref())?) });
            }
            out
        }
        DataType::FixedSizeList(_, _) => {
            let a = arr.as_fixed_size_list();
            let mut out = Vec::with_capacity(a.len());
            for i in 0..a.len() {
                out.push(if a.is_null(i) { Val::Null } else { Val::List(array_rows(a.value(i).as_ref())?) });
            }
            out
        }
        DataType::Struct(fields) => {
            let a = arr.as_struct();
            let mut cols = vec![];
            for c in a.columns() {
                if c.len() != a.len() {
                    return Err(format!("struct child length {} != struct length {}", c.len(), a.len()));
                }
                cols.push(array_rows(c.as_ref())?);
            }
            (0..a.len())
                .map(|i| {
                    if a.is_null(i) {
                        Val::Null
                    } else {
                        Val::Struct(fields.iter().enumerate().map(|(k, f)| (f.name().clone(), cols[k][i].clone())).collect())
                    }
                })
                .collect()
        }
        DataType::Dictionary(_, _) => {
            let a = arr.as_any_dictionary();
            let values = array_rows(a.values().as_ref())?;
            let keys = array_rows(a.keys())?;
            let mut out = Vec::with_capacity(keys.len());
            for k in keys {
                out.push(match k {
                    Val::Null => Val::Null,
                    Val::Int(i) => values.get(i as usize).cloned().ok_or_else(|| format!("dictionary key {i} out of range"))?,
                    other => return Err(format!("odd dictionary key {other:?}")),
                });
            }
            out
        }
        other => return Err(format!("val: unsupported data type {other}")),
    })
}

/// Rows of a record batch as structs over the top-level columns.
pub fn batch_rows(b: &RecordBatch) -> Result<Vec<Val>, String> {
    let mut cols = vec![];
    for c in b.columns() {
        cols.push(array_rows(c.as_ref())?);
    }
    let schema = b.schema();
    Ok((0..b.num_rows())
        .map(|i| Val::Struct(schema.fields().iter().enumerate().map(|(k, f)| (f.name().clone(), cols[k][i].clone())).collect()))
        .collect())
}

pub fn batches_rows(bs: &[RecordBatch]) -> Result<Vec<Val>, String> {
    let mut out = vec![];
    for b in bs {
        out.extend(batch_rows(b)?);
    }
    Ok(out)
}

/// Type equality modulo the documented normalisations (offset width, views, dictionary decoding is
/// NOT a type normalisation here: the reader returns the dictionary type for 2.x; callers decide).
pub fn type_shape(dt: &DataType) -> String {
    match dt {
        DataType::Utf8 | DataType::LargeUtf8 | DataType::Utf8View => "utf8".into(),
        DataType::Binary | DataType::LargeBinary | DataType::BinaryView => "binary".into(),
        DataType::List(f) | DataType::LargeList(f) => format!("list<{}>", type_shape(f.data_type())),
        DataType::FixedSizeList(f, n) => format!("fsl{n}<{}>", type_shape(f.data_type())),
        DataType::Struct(fs) => format!(
            "struct<{}>",
            fs.iter().map(|f| format!("{}:{}", f.name(), type_shape(f.data_type()))).collect::<Vec<_>>().join(",")
        ),
        DataType::Dictionary(_, v) => format!("dict<{}>", type_shape(v)),
        other => format!("{other}"),
    }
}

/// path of the first difference between two values ("" = the values themselves differ in kind)
pub fn diff_path(a: &Val, b: &Val) -> String {
    match (a, b) {
        (Val::Struct(x), Val::Struct(y)) if x.len() == y.len() => {
            for ((n, u), (_, v)) in x.iter().zip(y.iter()) {
                if u != v {
                    let sub = diff_path(u, v);
                    return if sub.is_empty() { n.clone() } else { format!("{n}.{sub}") };
                }
            }
            String::new()
        }
        (Val::List(x), Val::List(y)) => {
            if x.len() != y.len() {
                return "[len]".into();
            }
            for (u, v) in x.iter().zip(y.iter()) {
                if u != v {
                    let sub = diff_path(u, v);
                    return if sub.is_empty() { "[]".into() } else { format!("[].{sub}") };
                }
            }
            String::new()
        }
        (Val::Null, _) => "(null-for-value)".into(),
        (_, Val::Null) => "(value-for-null)".into(),
        _ => String::new(),
    }
}

/// normalise an error / panic message into a short class: digits dropped, paths cut
pub fn msg_class(m: &str) -> String {
    let m = m.replace("\\n", " ").replace('\n', " ");
    let core = if let Some(i) = m.find("panicked with message") { &m[i + 22..] } else { &m[..] };
    let mut out = String::new();
    let mut last_space = false;
    for c in core.chars() {
        if c.is_ascii_digit() {
            continue;
        }
        if c.is_alphanumeric() {
            out.push(c.to_ascii_lowercase());
            last_space = false;
        } else if !last_space && !out.is_empty() {
            out.push('-');
            last_space = true;
        }
        if out.len() >= 48 {
            break;
        }
    }
    out.trim_end_matches('-').to_string()
}
