//! C28 – standalone compression kernels round trip (K5).
//!
//! (a) FastLanes bit-packing (`lance_bitpacking::BitPacking::unchecked_pack / unchecked_unpack`):
//!     T in {u8,u16,u32,u64} x every width 0..=BITS x explicit value patterns masked to the width on
//!     1024-lane blocks, plus a *position* family: for every one of the 1024 positions, a block that
//!     is zero everywhere except `2^w-1` at that position (pins the lane transposition), and its
//!     complement (max everywhere except 0 at that position).
//! (b) `fsst::fsst::{compress, decompress}` with the buffer convention of its only in-tree caller
//!     (lance-encoding: out = 2 x in, offsets 2 x, decompress out = 8 x in): odometer over
//!     alphabet kind x alphabet size x string length x length pattern x content generator x total size
//!     class x offset width x first-offset. Oracle: `Ok` => decompressed strings == input strings.
//!
//! The FSST table builder samples the input with `StdRng::from_os_rng()` and iterates a std
//! `HashSet`, i.e. the *compressed bytes* are not a function of the input. The oracle (round trip
//! identity) does not depend on the sample; inputs whose sample is necessarily the same for every
//! draw (all strings identical, or a single string) are counted separately in the evidence.

use lance_bitpacking::BitPacking;
use serde_json::{json, Value};
use vcore::{Cov, Ctx, Outcome, Violation};

// ------------------------------------------------------------------------------------------
// (a) bit-packing

const BP_PATTERNS: [&str; 10] = [
    "zeros", "max", "ramp", "revramp", "alt0max", "altmax0", "outlier_first", "outlier_last", "bitwalk", "mix",
];

fn mask64(w: usize) -> u64 {
    if w == 0 {
        0
    } else if w >= 64 {
        u64::MAX
    } else {
        (1u64 << w) - 1
    }
}

/// value of pattern `p` at position `i` (0..1024), before masking
fn bp_value(p: &str, i: usize, w: usize) -> u64 {
    let m = mask64(w);
    match p {
        "zeros" => 0,
        "max" => m,
        "ramp" => i as u64,
        "revramp" => m.wrapping_sub(i as u64),
        "alt0max" => {
            if i % 2 == 0 {
                0
            } else {
                m
            }
        }
        "altmax0" => {
            if i % 2 == 0 {
                m
            } else {
                0
            }
        }
        "outlier_first" => {
            if i == 0 {
                m
            } else {
                1
            }
        }
        "outlier_last" => {
            if i == 1023 {
                m
            } else {
                0
            }
        }
        "bitwalk" => {
            if w == 0 {
                0
            } else {
                1u64 << (i % w)
            }
        }
        // explicit multiplicative mixing of the position: a fixed function, no generator state
        "mix" => ((i as u64 + 1).wrapping_mul(0x9E37_79B9_7F4A_7C15)).rotate_left((i % 64) as u32),
        _ => unreachable!(),
    }
}

macro_rules! bp_roundtrip {
    ($name:ident, $t:ty) => {
        /// pack + unpack 1024 values; returns Err(description) on mismatch / panic
        fn $name(width: usize, vals: &[u64]) -> Result<(), String> {
            let bits = <$t>::BITS as usize;
            let input: Vec<$t> = vals.iter().map(|v| *v as $t).collect();
            let packed_len = 1024 * width / bits;
            let r = vcore::catch(|| {
                let mut packed: Vec<$t> = vec![0; packed_len];
                let mut out: Vec<$t> = vec![<$t>::MAX; 1024];
                unsafe {
                    <$t as BitPacking>::unchecked_pack(width, &input, &mut packed);
                    <$t as BitPacking>::unchecked_unpack(width, &packed, &mut out);
                }
                // second unpack into a zero-filled buffer: the result must not depend on what was in `out`
                let mut out2: Vec<$t> = vec![0; 1024];
                unsafe {
                    <$t as BitPacking>::unchecked_unpack(width, &packed, &mut out2);
                }
                (out, out2)
            });
            match r {
                Err(p) => Err(format!("panic: {p}")),
                Ok((out, out2)) => {
                    if let Some(i) = (0..1024).find(|i| out[*i] != input[*i]) {
                        return Err(format!("position {i}: packed {} unpacked {}", input[i], out[i]));
                    }
                    if out2 != out {
                        return Err("unpack result depends on the previous content of the output buffer".to_string());
                    }
                    Ok(())
                }
            }
        }
    };
}
bp_roundtrip!(bp_u8, u8);
bp_roundtrip!(bp_u16, u16);
bp_roundtrip!(bp_u32, u32);
bp_roundtrip!(bp_u64, u64);

fn bp_run(ty: &str, width: usize, vals: &[u64]) -> Result<(), String> {
    match ty {
        "u8" => bp_u8(width, vals),
        "u16" => bp_u16(width, vals),
        "u32" => bp_u32(width, vals),
        "u64" => bp_u64(width, vals),
        _ => unreachable!(),
    }
}

fn bp_input(case: &Value) -> Option<(String, usize, Vec<u64>)> {
    let ty = case["type"].as_str()?.to_string();
    let w = case["width"].as_u64()? as usize;
    let m = mask64(w);
    let vals: Vec<u64> = match case["family"].as_str()? {
        "pattern" => {
            let p = case["pattern"].as_str()?;
            let p = BP_PATTERNS.iter().find(|x| **x == p)?;
            (0..1024).map(|i| bp_value(p, i, w) & m).collect()
        }
        "position" => {
            let pos = case["pos"].as_u64()? as usize;
            let inv = case["inverted"].as_bool()?;
            (0..1024)
                .map(|i| if (i == pos) != inv { m } else { 0 })
                .collect()
        }
        _ => return None,
    };
    Some((ty, w, vals))
}

fn bp_check(case: Value, cov: &mut Cov, viol: &mut Vec<Violation>) {
    let (ty, w, vals) = bp_input(&case).expect("well-formed bit-packing case");
    let nontrivial = w > 0 && vals.iter().any(|v| *v != 0);
    cov.eval(if nontrivial {
        Some(vcore::hash64(case.to_string().as_bytes()))
    } else {
        None
    });
    match bp_run(&ty, w, &vals) {
        Ok(()) => cov.outcome("bitpack/ok"),
        Err(e) => {
            cov.outcome("bitpack/mismatch");
            let fam = case["family"].as_str().unwrap_or("?").to_string();
            viol.push(Violation::new(
                "bitpack-roundtrip",
                &format!("bitpack/{ty}/w{w}/{fam}"),
                format!("{ty} width {w} {case}: {e}"),
                case,
            ));
        }
    }
}

fn bp_cases(ctx: &Ctx) -> Vec<Value> {
    let mut v = vec![];
    for (ty, bits) in [("u8", 8usize), ("u16", 16), ("u32", 32), ("u64", 64)] {
        for w in 0..=bits {
            for p in BP_PATTERNS {
                v.push(json!({"kind":"bitpack","family":"pattern","type":ty,"width":w,"pattern":p}));
            }
            // position family: every position in the thorough tier, every position of the first two
            // 128-blocks + the last one in the quick tier (positions 0..256, 896..1024)
            for pos in 0..1024usize {
                if ctx.quick() && (256..896).contains(&pos) {
                    continue;
                }
                if w == 0 {
                    continue;
                }
                for inv in [false, true] {
                    v.push(json!({"kind":"bitpack","family":"position","type":ty,"width":w,"pos":pos,"inverted":inv}));
                }
            }
        }
    }
    v
}

// ------------------------------------------------------------------------------------------
// (b) FSST

#[derive(Clone, Debug)]
struct FsstCase {
    alpha_kind: usize, // 0 = from b'a' upward, 1 = from 0x00 upward, 2 = from 0xFF downward
    alpha_size: usize, // 1,2,4,16,256
    len: usize,        // base string length
    len_pat: usize,    // 0 uniform, 1 alternate with empty, 2 alternate with length 1, 3 growing 0..=len cyclic
    gen: usize,        // 0 repeat (all strings identical), 1 cyclic (string i rotated by i), 2 mixed stream
    size: usize,       // 0 small (< 32 KiB copy path), 1 just below 32 KiB, 2 at/above 32 KiB, 3 ~3x32 KiB
    wide: bool,        // i64 offsets
    start: usize,      // first offset (bytes of unreferenced prefix)
}

const ALPHA_SIZES: [usize; 5] = [1, 2, 4, 16, 256];
const LENS: [usize; 13] = [0, 1, 3, 7, 8, 9, 64, 510, 511, 512, 1021, 1022, 1023];

impl FsstCase {
    fn to_json(&self) -> Value {
        json!({"kind":"fsst","alpha_kind":self.alpha_kind,"alpha_size":self.alpha_size,"len":self.len,
               "len_pat":self.len_pat,"gen":self.gen,"size":self.size,"wide":self.wide,"start":self.start})
    }
    fn from_json(v: &Value) -> Option<Self> {
        Some(Self {
            alpha_kind: v["alpha_kind"].as_u64()? as usize,
            alpha_size: v["alpha_size"].as_u64()? as usize,
            len: v["len"].as_u64()? as usize,
            len_pat: v["len_pat"].as_u64()? as usize,
            gen: v["gen"].as_u64()? as usize,
            size: v["size"].as_u64()? as usize,
            wide: v["wide"].as_bool()?,
            start: v["start"].as_u64()? as usize,
        })
    }
    fn alphabet(&self) -> Vec<u8> {
        (0..self.alpha_size)
            .map(|k| match self.alpha_kind {
                0 => b'a'.wrapping_add(k as u8),
                1 => k as u8,
                _ => 0xFFu8.wrapping_sub(k as u8),
            })
            .collect()
    }
    fn str_len(&self, i: usize) -> usize {
        match self.len_pat {
            0 => self.len,
            1 => {
                if i % 2 == 0 {
                    self.len
                } else {
                    0
                }
            }
            2 => {
                if i % 2 == 0 {
                    self.len
                } else {
                    1
                }
            }
            _ => i % (self.len + 1),
        }
    }
    /// (bytes, offsets (usize), number of strings)
    fn build(&self) -> (Vec<u8>, Vec<usize>) {
        let target = match self.size {
            0 => 600,
            1 => 32 * 1024 - 1,
            2 => 32 * 1024,
            _ => 3 * 32 * 1024 + 17,
        };
        let alpha = self.alphabet();
        let a = alpha.len();
        let mut bytes = vec![0xEEu8; self.start];
        let mut offs = vec![self.start];
        let mut i = 0usize;
        let mut stream = 0u64;
        // always at least 3 strings; stop when the referenced bytes reach the target. For the
        // "just below" class the last string is truncated so that the total is exactly target.
        loop {
            let referenced = bytes.len() - self.start;
            if i >= 3 && (referenced >= target || (self.len == 0 && i >= 40) || i >= 70_000) {
                break;
            }
            let mut l = self.str_len(i);
            if self.size == 1 && referenced + l > target {
                l = target.saturating_sub(referenced);
                if l == 0 && i >= 3 {
                    break;
                }
            }
            for k in 0..l {
                let b = match self.gen {
                    0 => alpha[k % a],
                    1 => alpha[(k + i) % a],
                    _ => {
                        stream += 1;
                        let h = stream.wrapping_mul(0x9E37_79B9_7F4A_7C15);
                        alpha[((h >> 29) as usize) % a]
                    }
                };
                bytes.push(b);
            }
            offs.push(bytes.len());
            i += 1;
        }
        (bytes, offs)
    }
    /// every draw of the codec's internal sample has the same content
    fn sample_deterministic(&self, nstrings: usize, total: usize) -> bool {
        total <= (1 << 14) || nstrings == 1 || (self.gen == 0 && self.len_pat == 0)
    }
}

enum FsstOutcome {
    CompressErr(String),
    Ok { encoded: bool, ratio_pct: u64 },
    Bad(String, String), // (key suffix, description)
}

fn fsst_roundtrip_t<T: arrow_array::OffsetSizeTrait>(bytes: &[u8], offs: &[usize]) -> FsstOutcome {
    let in_offs: Vec<T> = offs.iter().map(|o| T::from_usize(*o).unwrap()).collect();
    let r = vcore::catch(|| {
        let mut st = vec![0u8; fsst::fsst::FSST_SYMBOL_TABLE_SIZE];
        let mut out = vec![0u8; bytes.len() * 2];
        let mut out_offs = vec![T::from_usize(0).unwrap(); in_offs.len() * 2];
        match fsst::fsst::compress(&mut st, bytes, &in_offs, &mut out, &mut out_offs) {
            Err(e) => return Err(e.to_string()),
            Ok(()) => {}
        }
        Ok((st, out, out_offs))
    });
    let (st, comp, comp_offs) = match r {
        Err(p) => return FsstOutcome::Bad("compress-panic".into(), format!("compress panicked: {p}")),
        Ok(Err(e)) => return FsstOutcome::CompressErr(e),
        Ok(Ok(x)) => x,
    };
    if comp_offs.len() != in_offs.len() {
        return FsstOutcome::Bad(
            "compress-offsets-len".into(),
            format!("compress returned {} offsets for {} input offsets", comp_offs.len(), in_offs.len()),
        );
    }
    let r = vcore::catch(|| {
        let mut out = vec![0u8; comp.len() * 8];
        let mut out_offs = vec![T::from_usize(0).unwrap(); comp_offs.len()];
        fsst::fsst::decompress(&st, &comp, &comp_offs, &mut out, &mut out_offs).map(|_| (out, out_offs)).map_err(|e| e.to_string())
    });
    let (dec, dec_offs) = match r {
        Err(p) => return FsstOutcome::Bad("decompress-panic".into(), format!("decompress panicked: {p}")),
        Ok(Err(e)) => return FsstOutcome::Bad("decompress-error".into(), format!("decompress of compress's own output failed: {e}")),
        Ok(Ok(x)) => x,
    };
    if dec_offs.len() != offs.len() {
        return FsstOutcome::Bad("offsets-len".into(), format!("{} offsets back, {} in", dec_offs.len(), offs.len()));
    }
    for i in 1..offs.len() {
        let want = &bytes[offs[i - 1]..offs[i]];
        let (s, e) = (dec_offs[i - 1].as_usize(), dec_offs[i].as_usize());
        if s > e || e > dec.len() {
            return FsstOutcome::Bad("offsets-range".into(), format!("string {i}: decoded offsets {s}..{e} outside buffer of {}", dec.len()));
        }
        if &dec[s..e] != want {
            let at = want.iter().zip(dec[s..e].iter()).position(|(a, b)| a != b);
            return FsstOutcome::Bad(
                "value".into(),
                format!("string {} differs (len in {} out {}, first differing byte {:?})", i - 1, want.len(), e - s, at),
            );
        }
    }
    let referenced = offs[offs.len() - 1] - offs[0];
    let encoded = st[3] & 1 != 0; // bit 24 of the little-endian header word = encoder switch
    let ratio = if referenced == 0 { 100 } else { (comp.len() as u64 * 100) / referenced as u64 };
    FsstOutcome::Ok { encoded, ratio_pct: ratio }
}

fn fsst_check(c: &FsstCase, cov: &mut Cov, viol: &mut Vec<Violation>, det: &mut u64) {
    let (bytes, offs) = c.build();
    let case = c.to_json();
    let referenced = offs[offs.len() - 1] - offs[0];
    let r = if c.wide {
        fsst_roundtrip_t::<i64>(&bytes, &offs)
    } else {
        fsst_roundtrip_t::<i32>(&bytes, &offs)
    };
    if c.sample_deterministic(offs.len() - 1, bytes.len()) {
        *det += 1;
    }
    let class = format!(
        "a{}/len{}/pat{}/gen{}/{}",
        c.alpha_size,
        if c.len >= 510 { "chunk".to_string() } else { c.len.to_string() },
        c.len_pat,
        c.gen,
        if c.wide { "i64" } else { "i32" }
    );
    match r {
        FsstOutcome::CompressErr(e) => {
            // allowed by the property ("either reports an error or ..."); recorded
            cov.eval(None);
            let short: String = e.chars().take(40).collect();
            cov.outcome(&format!("fsst/compress-err/{short}"));
        }
        FsstOutcome::Ok { encoded, ratio_pct } => {
            cov.eval(if encoded && referenced > 0 {
                Some(vcore::hash64(case.to_string().as_bytes()))
            } else {
                None
            });
            cov.outcome(if !encoded {
                "fsst/ok/copy-path"
            } else if ratio_pct < 50 {
                "fsst/ok/encoded/ratio<50%"
            } else if ratio_pct <= 100 {
                "fsst/ok/encoded/ratio50-100%"
            } else {
                "fsst/ok/encoded/expanded"
            });
        }
        FsstOutcome::Bad(k, what) => {
            cov.eval(Some(vcore::hash64(case.to_string().as_bytes())));
            cov.outcome(&format!("fsst/bad/{k}"));
            viol.push(Violation::new("fsst-roundtrip", &format!("fsst/{k}/{class}"), format!("{case}: {what}"), case));
        }
    }
}

fn fsst_cases(ctx: &Ctx) -> Vec<FsstCase> {
    let mut v = vec![];
    let sizes: &[usize] = ctx.tier.pick(&[0, 2][..], &[0, 1, 2, 3][..]);
    let starts: &[usize] = ctx.tier.pick(&[0][..], &[0, 5][..]);
    for alpha_kind in 0..3 {
        for alpha_size in ALPHA_SIZES {
            for len in LENS {
                for len_pat in 0..4 {
                    if len == 0 && len_pat != 0 {
                        continue;
                    }
                    for gen in 0..3 {
                        for &size in sizes {
                            for wide in [false, true] {
                                for &start in starts {
                                    // quick: the chunk-boundary lengths only with uniform/alternating patterns
                                    if ctx.quick() && len >= 510 && len_pat >= 2 {
                                        continue;
                                    }
                                    if ctx.quick() && alpha_kind == 1 && alpha_size != 256 && gen != 2 {
                                        continue;
                                    }
                                    v.push(FsstCase { alpha_kind, alpha_size, len, len_pat, gen, size, wide, start });
                                }
                            }
                        }
                    }
                }
            }
        }
    }
    v
}

fn replay(case: &Value) -> Outcome {
    let mut out = Outcome::new("exploration");
    let mut cov = Cov::new();
    let mut viol = vec![];
    match case["kind"].as_str() {
        Some("bitpack") => bp_check(case.clone(), &mut cov, &mut viol),
        Some("fsst") => {
            let c = FsstCase::from_json(case).unwrap_or_else(|| vcore::machinery_error("bad fsst replay case"));
            let mut det = 0;
            // the codec draws its sample from the OS rng: replay a few times, any failure counts
            for _ in 0..8 {
                fsst_check(&c, &mut cov, &mut viol, &mut det);
            }
        }
        _ => vcore::machinery_error("unknown replay case kind"),
    }
    cov.sample(case.clone());
    cov.fill(&mut out, "replay of one case", false);
    out.violations = viol;
    out
}

pub fn run(ctx: &Ctx) -> Outcome {
    if let Some(art) = ctx.replay_case() {
        return replay(&art["case"]);
    }
    let mut out = Outcome::new("exploration");
    // (a)
    let bp = bp_cases(ctx);
    let n_bp = bp.len();
    let chunks = vcore::smallx::chunks(&bp, ctx.workers * 4);
    let res = vcore::par_map(chunks, ctx.workers, |_, slice| {
        let mut cov = Cov::new();
        let mut viol = vec![];
        for c in slice {
            bp_check(c, &mut cov, &mut viol);
        }
        (cov, viol)
    });
    let mut cov = Cov::new();
    let mut viol = vec![];
    for (c, v) in res {
        cov.merge(c);
        viol.extend(v);
    }
    // (b)
    let fc = fsst_cases(ctx);
    let n_fsst = fc.len();
    let chunks: Vec<Vec<FsstCase>> = {
        // interleave so that the big inputs are spread over the workers
        let parts = ctx.workers * 4;
        let mut c: Vec<Vec<FsstCase>> = vec![vec![]; parts];
        for (i, x) in fc.into_iter().enumerate() {
            c[i % parts].push(x);
        }
        c.into_iter().filter(|x| !x.is_empty()).collect()
    };
    let res = vcore::par_map(chunks, ctx.workers, |_, slice| {
        let mut cov = Cov::new();
        let mut viol = vec![];
        let mut det = 0u64;
        for c in slice {
            fsst_check(&c, &mut cov, &mut viol, &mut det);
        }
        (cov, viol, det)
    });
    let mut det_total = 0u64;
    for (c, v, d) in res {
        cov.merge(c);
        viol.extend(v);
        det_total += d;
    }
    cov.sample(json!({"kind":"bitpack","family":"pattern","type":"u64","width":63,"pattern":"mix"}));
    cov.sample(json!({"kind":"bitpack","family":"position","type":"u16","width":11,"pos":1023,"inverted":false}));
    cov.sample(FsstCase { alpha_kind: 2, alpha_size: 4, len: 511, len_pat: 1, gen: 2, size: 2, wide: false, start: 0 }.to_json());
    cov.sample(FsstCase { alpha_kind: 0, alpha_size: 256, len: 9, len_pat: 3, gen: 1, size: 2, wide: true, start: 0 }.to_json());
    cov.fill(
        &mut out,
        "bit-packing: {u8,u16,u32,u64} x every width 0..=BITS x 10 explicit patterns + single-position / inverted single-position blocks; non-trivial = width>0 and some non-zero value. FSST: odometer alphabet kind(3) x alphabet size {1,2,4,16,256} x string length {0,1,3,7,8,9,64,510,511,512,1021,1022,1023} x length pattern(4) x generator {identical, rotated, mixed stream} x size class x {i32,i64} offsets (x first offset in thorough); non-trivial = the encoder really encoded (switch on) a non-empty input",
        true,
    );
    out.set("bitpack_cases", n_bp as u64);
    out.set("fsst_cases", n_fsst as u64);
    out.set("fsst_cases_with_draw_independent_sample", det_total);
    out.assume("fsst buffers follow the convention of the in-tree caller (compress: out = 2 x in bytes, 2 x offsets; decompress: out = 8 x compressed bytes); smaller buffers accepted by the length checks are outside this run");
    out.assume("the fsst symbol table depends on an OS-seeded sample and HashSet order; a passing input passed for the draw of this run only (inputs with a draw-independent sample are counted in fsst_cases_with_draw_independent_sample); a failing draw is a violation regardless");
    out.assume("bit-packing inputs are masked to the width (the kernels' precondition)");
    out.violations = viol;
    out
}
