//! "Long list" family (C27 row -> item translation, reused by C25): rows whose list spans several
//! mini-block chunks, so that random access has to walk chunks that are entirely preamble / trailer of
//! one row. Structured, fully explicit: row-length patterns x LONG in {4097, 10000} x variant x
//! structural encoding x file version; values are a ramp so truncation or shifting is visible.
//! Reads per file: full, every sub-range (includes every single row r..r+1 and every row pair), the
//! same ranges through the multi-range call, every sorted index list of <= 2 rows; batch sizes 1, 1024.

use crate::fio::{self, Fs, Req, WriteCfg};
use crate::val::{self, Val};
use arrow_array::{ArrayRef, Int32Array, ListArray, RecordBatch, StringArray, StructArray};
use arrow_buffer::{NullBuffer, OffsetBuffer, ScalarBuffer};
use arrow_schema::{DataType, Field, Fields, Schema};
use serde_json::{json, Value};
use std::collections::HashMap;
use std::sync::Arc;
use vcore::{Cov, Ctx, Violation};

/// row-length patterns: -1 = LONG, -2 = NULL list, otherwise the literal (short) length
const PATTERNS: [&[i64]; 9] = [
    &[2, -1, 3],
    &[-1],
    &[1, -1],
    &[-1, 2],
    &[-1, -1],
    &[0, -1, -2, 1],
    &[3, -1, -1, 1],
    &[-2, -1],
    &[1, 2, -1, 0, 3],
];

/// "plain" | "nullitem" (NULL items in the middle and at the end of every LONG row) | "instruct"
/// (struct<c: list<..>, k: int32> with a NULL struct row where the pattern has a NULL list) | "utf8"
const VARIANTS: [&str; 4] = ["plain", "nullitem", "instruct", "utf8"];

#[derive(Clone, Debug)]
pub struct LongCase {
    pub pattern: usize,
    pub long: usize,
    pub variant: &'static str,
    pub structural: &'static str,
    pub version: &'static str,
}

impl LongCase {
    pub fn to_json(&self) -> Value {
        json!({"kind":"long_list","pattern":self.pattern,"long":self.long,"variant":self.variant,"structural":self.structural,"version":self.version})
    }
    pub fn from_json(v: &Value) -> Option<Self> {
        let pick = |s: &str, opts: &[&'static str]| opts.iter().find(|o| **o == s).copied();
        Some(Self {
            pattern: v["pattern"].as_u64()? as usize,
            long: v["long"].as_u64()? as usize,
            variant: pick(v["variant"].as_str()?, &VARIANTS)?,
            structural: pick(v["structural"].as_str()?, &["default", "miniblock", "fullzip"])?,
            version: pick(v["version"].as_str()?, &["2.0", "2.1", "2.2"])?,
        })
    }
    fn lens(&self) -> Vec<Option<usize>> {
        PATTERNS[self.pattern % PATTERNS.len()]
            .iter()
            .map(|l| match l {
                -1 => Some(self.long),
                -2 => None,
                x => Some(*x as usize),
            })
            .collect()
    }
}

fn build(c: &LongCase) -> (Arc<Schema>, RecordBatch) {
    let lens = c.lens();
    let n = lens.len();
    let mut meta = HashMap::new();
    if c.structural != "default" {
        meta.insert(lance_encoding::constants::STRUCTURAL_ENCODING_META_KEY.to_string(), c.structural.to_string());
    }
    // a NULL struct row is only expressible from 2.1 on; in 2.0 the "instruct" variant keeps the struct valid
    let struct_nulls = c.variant == "instruct" && c.version != "2.0";
    let mut offs = vec![0i32];
    let mut valid = vec![];
    let mut items: Vec<Option<i32>> = vec![];
    for l in &lens {
        match l {
            Some(l) => {
                let start = items.len() as i32;
                for k in 0..*l {
                    // ramp over the whole column: a truncated or shifted row shows as a value mismatch
                    let null_here = c.variant == "nullitem" && *l >= 4096 && (k == l / 2 || k + 1 == *l || k == 2047 || k == 2048);
                    items.push(if null_here { None } else { Some(start + k as i32) });
                }
                valid.push(true);
            }
            None => valid.push(c.variant == "instruct" && struct_nulls),
        }
        offs.push(items.len() as i32);
    }
    let (item_type, values): (DataType, ArrayRef) = if c.variant == "utf8" {
        (DataType::Utf8, Arc::new(StringArray::from(items.iter().map(|v| v.map(|x| format!("v{x}"))).collect::<Vec<_>>())))
    } else {
        (DataType::Int32, Arc::new(Int32Array::from(items)))
    };
    let item_field = Arc::new(Field::new("item", item_type, true));
    let list_nulls = if valid.iter().all(|v| *v) { None } else { Some(NullBuffer::from(valid.clone())) };
    let list: ArrayRef = Arc::new(ListArray::new(item_field.clone(), OffsetBuffer::new(ScalarBuffer::from(offs)), values, list_nulls));
    let (x_type, x): (DataType, ArrayRef) = if c.variant == "instruct" {
        let fields = Fields::from(vec![Field::new("c", DataType::List(item_field), true), Field::new("k", DataType::Int32, true)]);
        let k: ArrayRef = Arc::new(Int32Array::from((0..n as i32).map(|i| Some(1000 + i)).collect::<Vec<_>>()));
        let snulls = if struct_nulls && lens.iter().any(|l| l.is_none()) { Some(NullBuffer::from(lens.iter().map(|l| l.is_some()).collect::<Vec<_>>())) } else { None };
        (DataType::Struct(fields.clone()), Arc::new(StructArray::new(fields, vec![list, k], snulls)))
    } else {
        (DataType::List(item_field), list)
    };
    let id: ArrayRef = Arc::new(Int32Array::from((0..n as i32).collect::<Vec<_>>()));
    let schema = Arc::new(Schema::new(vec![Field::new("id", DataType::Int32, false), Field::new("x", x_type, true).with_metadata(meta)]));
    let b = RecordBatch::try_new(schema.clone(), vec![id, x]).expect("well-formed long-list batch");
    (schema, b)
}

fn reqs(n: usize) -> Vec<Req> {
    let mut out = vec![Req::Full];
    for a in 0..n {
        for b in (a + 1)..=n {
            out.push(Req::Range(a, b));
            out.push(Req::Ranges(vec![(a as u64, b as u64)]));
        }
    }
    for a in 0..n {
        out.push(Req::Indices(vec![a as u32]));
        for b in (a + 1)..n {
            out.push(Req::Indices(vec![a as u32, b as u32]));
            if b > a + 1 {
                out.push(Req::Ranges(vec![(a as u64, a as u64 + 1), (b as u64, b as u64 + 1)]));
            }
        }
    }
    out
}

pub struct LongOutcome {
    pub fails: Vec<(String, String, Value)>,
    pub reads: u64,
    pub refused: Option<String>,
    /// (items in the list column's leaf, mini-block chunks of its page(s)) when the page is mini-block
    pub chunks: Option<(usize, usize)>,
    pub layout: String,
}

fn row_len(v: &Val) -> String {
    // compact description of a row: the list length instead of 10,000 values
    fn find_list(v: &Val) -> Option<&Vec<Val>> {
        match v {
            Val::List(xs) => Some(xs),
            Val::Struct(fs) => fs.iter().find_map(|(_, x)| find_list(x)),
            _ => None,
        }
    }
    match find_list(v) {
        Some(xs) => format!("list of {} items", xs.len()),
        None => v.short(),
    }
}

pub async fn check(fs: &Fs, c: &LongCase) -> LongOutcome {
    let mut out = LongOutcome { fails: vec![], reads: 0, refused: None, chunks: None, layout: String::new() };
    let (schema, batch) = build(c);
    let n = batch.num_rows();
    let expected = val::batch_rows(&batch).unwrap_or_else(|e| vcore::machinery_error(&e));
    let path = fs.fresh_path();
    if let Err(e) = fio::write_file(fs, &path, &schema, &[batch], &WriteCfg::v(c.version)).await {
        out.refused = Some(e.chars().filter(|ch| !ch.is_ascii_digit()).take(90).collect());
        fs.delete(&path).await;
        return out;
    }
    let reader = match fio::open(fs, &path).await {
        Ok(r) => r,
        Err(e) => {
            out.fails.push(("open/error".into(), e, json!(null)));
            return out;
        }
    };
    // observe the chunking of the list leaf column: a mini-block page's first buffer holds one u16 per chunk
    let total_items: usize = c.lens().iter().map(|l| l.unwrap_or(0)).sum();
    for cm in reader.metadata().column_metadatas.iter() {
        for p in &cm.pages {
            let d = lance_file::reader::describe_encoding(p);
            // the list leaf is the mini-block page with the most chunks (`id` / `k` pages hold n <= 5 values)
            if d.contains("MiniBlockLayout") {
                let chunks = (p.buffer_sizes.first().copied().unwrap_or(0) / 2) as usize;
                if chunks > out.chunks.map(|c| c.1).unwrap_or(1) {
                    out.chunks = Some((total_items, chunks));
                }
            }
            if out.layout.is_empty() || d.contains("FullZipLayout") {
                if d.contains("FullZipLayout") {
                    out.layout = "fullzip".into();
                } else if d.contains("MiniBlockLayout") && out.layout.is_empty() {
                    out.layout = "miniblock".into();
                }
            }
        }
    }
    let mut failed_kinds = std::collections::HashSet::new();
    for req in reqs(n) {
        for bs in [1024u32, 1] {
            let label = req.kind();
            if failed_kinds.contains(label) {
                continue;
            }
            out.reads += 1;
            let want: Vec<&Val> = req.rows(n).iter().map(|i| &expected[*i]).collect();
            let f = match fio::read(&reader, &req, bs, None).await {
                Err(e) => Some((format!("{label}/error/{}", val::msg_class(&e)), format!("read {req:?} batch_size {bs}: {e}"))),
                Ok(got) => match val::batches_rows(&got) {
                    Err(e) => Some((format!("{label}/malformed"), format!("read {req:?}: {e}"))),
                    Ok(rows) => {
                        if rows.len() != want.len() {
                            Some((format!("{label}/row-count"), format!("read {req:?} batch_size {bs}: {} rows back, {} requested", rows.len(), want.len())))
                        } else {
                            (0..rows.len()).find(|i| &rows[*i] != want[*i]).map(|i| {
                                let last = i + 1 == rows.len();
                                (
                                    format!("{label}/value/{}{}", val::diff_path(&rows[i], want[i]), if last { "/last-row-of-request" } else { "" }),
                                    format!(
                                        "read {req:?} batch_size {bs}: result row {i} (input row {}) is a {} but the input row is a {}",
                                        req.rows(n)[i],
                                        row_len(&rows[i]),
                                        row_len(want[i])
                                    ),
                                )
                            })
                        }
                    }
                },
            };
            if let Some((k, d)) = f {
                failed_kinds.insert(label);
                out.fails.push((k, d, json!({"req": req.to_json(), "batch_size": bs})));
            }
        }
    }
    drop(reader);
    fs.delete(&path).await;
    out
}

pub fn cases(quick: bool, versions: &[&'static str]) -> Vec<LongCase> {
    let mut out = vec![];
    for &version in versions {
        for pattern in 0..PATTERNS.len() {
            for long in [4097usize, 10_000] {
                for variant in VARIANTS {
                    for structural in ["miniblock", "fullzip", "default"] {
                        if version == "2.0" && structural != "default" {
                            continue;
                        }
                        if version != "2.0" && structural == "default" && variant != "utf8" {
                            continue; // int32 defaults to mini-block: identical to the explicit request
                        }
                        let _ = quick; // the family is cheap (about 1 s): both tiers run all of it
                        out.push(LongCase { pattern, long, variant, structural, version });
                    }
                }
            }
        }
    }
    out
}

fn run_one(c: &LongCase, cov: &mut Cov, viol: &mut Vec<Violation>, chunk_obs: &mut Vec<Value>) {
    use futures::FutureExt;
    let case = c.to_json();
    let r = vstore::block_on(async {
        let fs = Fs::new();
        std::panic::AssertUnwindSafe(check(&fs, c)).catch_unwind().await
    });
    let h = vcore::hash64(case.to_string().as_bytes());
    match r {
        Ok(o) => {
            cov.evaluations += o.reads.max(1);
            if let Some(why) = o.refused {
                cov.outcome(&format!("long-list/refused/{}/{why}", c.version));
                return;
            }
            cov.nontrivial.insert(h);
            cov.outcome(&format!("long-list/written/{}/{}", c.version, if o.layout.is_empty() { "other-layout" } else { &o.layout }));
            if let Some((items, chunks)) = o.chunks {
                let per_chunk = items as f64 / chunks.max(1) as f64;
                // a row of LONG items covers at least floor((LONG - (per_chunk-1)) / per_chunk) whole chunks
                let whole = ((c.long as f64 - (per_chunk - 1.0)) / per_chunk).floor().max(0.0) as u64;
                cov.outcome(&format!("long-list/long-row-covers-whole-chunks/{}", whole.min(9)));
                if chunk_obs.len() < 6 {
                    chunk_obs.push(json!({"case": case, "leaf_items": items, "miniblock_chunks": chunks, "avg_items_per_chunk": per_chunk.round(), "whole_chunks_inside_one_long_row_at_least": whole}));
                }
            }
            if o.fails.is_empty() {
                cov.outcome("long-list/ok");
            }
            for (k, d, req) in o.fails {
                cov.outcome("long-list/FAIL");
                let mut cj = case.clone();
                cj["read"] = req;
                // key: layout actually used + where the value differs; `last-row-of-request` separates the
                // random-access truncation shape from a corrupt row in the middle of a request
                let sym = k.split('/').skip(1).collect::<Vec<_>>().join("/");
                viol.push(Violation::new(
                    "rows-to-items-long-list",
                    &format!("file/unclassified/long-list/{}/{}/{sym}", c.structural, if c.variant == "utf8" { "utf8" } else { "int32" }),
                    format!("[{k}] pattern {:?} LONG {} variant {} {} {}: {d}", PATTERNS[c.pattern], c.long, c.variant, c.structural, c.version),
                    cj,
                ));
            }
        }
        Err(p) => {
            cov.evaluations += 1;
            cov.nontrivial.insert(h);
            cov.outcome("long-list/PANIC");
            let msg = vcore::panic_message(&p);
            viol.push(Violation::new(
                "rows-to-items-long-list",
                &format!("file/unclassified/long-list/{}/{}/panic/{}", c.structural, if c.variant == "utf8" { "utf8" } else { "int32" }, val::msg_class(&msg)),
                format!("pattern {:?} LONG {} variant {} {} {}: panic: {msg}", PATTERNS[c.pattern], c.long, c.variant, c.structural, c.version),
                case,
            ));
        }
    }
}

pub fn replay(case: &Value, cov: &mut Cov, viol: &mut Vec<Violation>) {
    let mut cj = case.clone();
    if let Some(o) = cj.as_object_mut() {
        o.remove("read");
    }
    let c = LongCase::from_json(&cj).unwrap_or_else(|| vcore::machinery_error("bad long_list case"));
    let mut obs = vec![];
    run_one(&c, cov, viol, &mut obs);
}

/// run the family; returns the evidence fragment
pub fn run(ctx: &Ctx, versions: &[&'static str], cov: &mut Cov, viol: &mut Vec<Violation>) -> Value {
    let all = cases(ctx.quick(), versions);
    let total = all.len();
    let res = vcore::par_map(all, ctx.workers, |_, c| {
        let mut cov = Cov::new();
        let mut viol = vec![];
        let mut obs = vec![];
        run_one(&c, &mut cov, &mut viol, &mut obs);
        (cov, viol, obs)
    });
    let mut obs_all = vec![];
    for (c, v, o) in res {
        cov.merge(c);
        viol.extend(v);
        for x in o {
            if obs_all.len() < 8 {
                obs_all.push(x);
            }
        }
    }
    cov.sample(LongCase { pattern: 0, long: 10_000, variant: "nullitem", structural: "miniblock", version: "2.1" }.to_json());
    json!({"files": total, "patterns": PATTERNS.iter().map(|p| format!("{p:?}")).collect::<Vec<_>>(), "long": [4097, 10000],
           "legend": "-1 = LONG items, -2 = NULL list (NULL struct in the instruct variant)", "variants": VARIANTS, "versions": versions,
           "reads": "full, every sub-range a..b (single range call and multi-range call), every sorted index list <= 2, non-adjacent single-row range pairs; batch sizes 1024 and 1",
           "chunk_observations": obs_all})
}
