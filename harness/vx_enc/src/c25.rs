//! C25 – file format round trip through `lance_file::writer::FileWriter` / `reader::FileReader`
//! (2.0 / 2.1 / 2.2) and the legacy 0.1 writer / reader under `lance_file::previous` (K5).
//!
//! One table per case: `id: int32` (row number) + `c: T`. `T` ranges over an explicit type catalogue
//! (leaves x containers, depth <= 2, plus a structured depth-3/4 family); the column data is a
//! deterministic function of (type, number of rows, per-level validity pattern, list-length pattern,
//! garbage-behind-NULL flag). Every file is read back: full (batch sizes 1, 2, n, 1024), every
//! sub-range, range pairs, every sorted index list of <= 3 rows, and the projections {c}, {id} and
//! (struct columns) {c.a}; rows are compared with an independent Arrow -> value conversion of the input.

use crate::c27::{Layer, V};
use crate::fio::{self, Fs, Req, WriteCfg};
use crate::val::{self, Val};
use arrow_array::types::Int32Type;
use arrow_array::*;
use arrow_buffer::{NullBuffer, OffsetBuffer, ScalarBuffer};
use arrow_schema::{DataType, Field, Fields, Schema, TimeUnit};
use lance_file::reader::ReaderProjection;
use serde::{Deserialize, Serialize};
use serde_json::{json, Value};
use std::collections::HashMap;
use std::sync::Arc;
use vcore::{Cov, Ctx, Outcome, Violation};

#[derive(Clone, Debug, PartialEq, Eq, Serialize, Deserialize)]
pub enum Ty {
    Leaf(String),
    List(Box<Ty>),
    LargeList(Box<Ty>),
    Fsl(Box<Ty>),
    Struct(Vec<Ty>),
}

const STRUCT_NAMES: [&str; 3] = ["a", "b", "d"];

impl Ty {
    fn name(&self) -> String {
        match self {
            Ty::Leaf(l) => l.clone(),
            Ty::List(t) => format!("list<{}>", t.name()),
            Ty::LargeList(t) => format!("llist<{}>", t.name()),
            Ty::Fsl(t) => format!("fsl<{}>", t.name()),
            Ty::Struct(ts) => format!("struct<{}>", ts.iter().map(|t| t.name()).collect::<Vec<_>>().join(",")),
        }
    }
    /// container skeleton (part of unclassified keys): list and large_list coincide, leaves are "x" except
    /// the two whose physical layout is special (bool: 1 bit per value, dict)
    fn skeleton(&self) -> String {
        match self {
            Ty::Leaf(l) => match l.as_str() {
                "dict" => "dict".into(),
                "bool" => "bool".into(),
                "null" => "null".into(),
                _ => "x".into(),
            },
            Ty::List(t) | Ty::LargeList(t) => format!("list<{}>", t.skeleton()),
            Ty::Fsl(t) => format!("fsl<{}>", t.skeleton()),
            Ty::Struct(ts) => format!("struct<{}>", ts.iter().map(|t| t.skeleton()).collect::<Vec<_>>().join(",")),
        }
    }
    fn data_type(&self, meta: &HashMap<String, String>) -> DataType {
        match self {
            Ty::Leaf(l) => match l.as_str() {
                "int8" => DataType::Int8,
                "int16" => DataType::Int16,
                "int32" => DataType::Int32,
                "int64" => DataType::Int64,
                "uint64" => DataType::UInt64,
                "f16" => DataType::Float16,
                "f32" => DataType::Float32,
                "f64" => DataType::Float64,
                "bool" => DataType::Boolean,
                "utf8" => DataType::Utf8,
                "large_utf8" => DataType::LargeUtf8,
                "binary" => DataType::Binary,
                "large_binary" => DataType::LargeBinary,
                "fsb3" => DataType::FixedSizeBinary(3),
                "decimal128" => DataType::Decimal128(38, 4),
                "timestamp" => DataType::Timestamp(TimeUnit::Microsecond, Some("UTC".into())),
                "date32" => DataType::Date32,
                "dict" => DataType::Dictionary(Box::new(DataType::Int32), Box::new(DataType::Utf8)),
                "null" => DataType::Null,
                other => vcore::machinery_error(&format!("unknown leaf {other}")),
            },
            Ty::List(t) => DataType::List(Arc::new(Field::new("item", t.data_type(meta), true).with_metadata(leaf_meta(t, meta)))),
            Ty::LargeList(t) => DataType::LargeList(Arc::new(Field::new("item", t.data_type(meta), true).with_metadata(leaf_meta(t, meta)))),
            Ty::Fsl(t) => DataType::FixedSizeList(Arc::new(Field::new("item", t.data_type(meta), true).with_metadata(leaf_meta(t, meta))), 2),
            Ty::Struct(ts) => DataType::Struct(Fields::from(
                ts.iter()
                    .enumerate()
                    .map(|(i, t)| Field::new(STRUCT_NAMES[i], t.data_type(meta), true).with_metadata(leaf_meta(t, meta)))
                    .collect::<Vec<_>>(),
            )),
        }
    }
}

/// compression metadata is read from the leaf field, structural-encoding from the root field: the
/// same map is attached to both
fn leaf_meta(t: &Ty, meta: &HashMap<String, String>) -> HashMap<String, String> {
    if matches!(t, Ty::Leaf(_)) {
        meta.clone()
    } else {
        HashMap::new()
    }
}

/// validity pattern codes: 0 all valid (no bitmap) | 1 even slots NULL | 2 odd slots NULL | 3 all NULL |
/// 4 first NULL | 5 last NULL | 10+m: slot i valid iff bit (i % 3) of m
fn valid_at(code: u8, i: usize, n: usize) -> bool {
    match code {
        0 => true,
        1 => i % 2 == 1,
        2 => i % 2 == 0,
        3 => false,
        4 => i != 0,
        5 => i + 1 != n,
        m => ((m - 10) >> (i % 3)) & 1 == 1,
    }
}

const LENS: [[usize; 3]; 4] = [[1, 0, 2], [2, 2, 1], [0, 0, 0], [1, 1, 1]];

#[derive(Clone, Debug, PartialEq, Eq, Serialize, Deserialize)]
pub struct Spec {
    /// documented NULL support of the target version: 0 = everything (2.1+), 1 = no NULL structs
    /// (2.0: "2.1 adds support for nulls in struct fields"), 2 = no NULLs at all (legacy 0.1: "2.0
    /// introduced null support for lists, fixed size lists, and primitives")
    #[serde(default)]
    pub null_support: u8,
    /// validity pattern per nesting level (cyclic)
    pub pats: Vec<u8>,
    /// list-length pattern
    pub lens: usize,
    /// NULL lists keep a non-empty (garbage) range
    pub garbage: bool,
}

fn nulls_of(code: u8, n: usize) -> Option<NullBuffer> {
    if code == 0 {
        None
    } else {
        Some(NullBuffer::from((0..n).map(|i| valid_at(code, i, n)).collect::<Vec<_>>()))
    }
}

fn gen(ty: &Ty, n: usize, spec: &Spec, level: usize, ctr: &mut u64, meta: &HashMap<String, String>) -> ArrayRef {
    let mut code = spec.pats[level % spec.pats.len()];
    if spec.null_support == 2 || (spec.null_support == 1 && matches!(ty, Ty::Struct(_))) {
        code = 0;
    }
    let v = |i: usize| valid_at(code, i, n);
    let mut next = || {
        *ctr += 1;
        *ctr
    };
    match ty {
        Ty::Leaf(l) => match l.as_str() {
            "int8" => Arc::new(Int8Array::from((0..n).map(|i| { let c = next(); v(i).then_some((c.wrapping_mul(37)) as i8) }).collect::<Vec<_>>())),
            "int16" => Arc::new(Int16Array::from((0..n).map(|i| { let c = next(); v(i).then_some((c.wrapping_mul(1237)) as i16) }).collect::<Vec<_>>())),
            "int32" => Arc::new(Int32Array::from((0..n).map(|i| { let c = next(); v(i).then_some((c.wrapping_mul(1_000_003)) as i32) }).collect::<Vec<_>>())),
            "int64" => Arc::new(Int64Array::from((0..n).map(|i| { let c = next(); v(i).then_some(if c % 5 == 0 { i64::MIN } else { (c as i64).wrapping_mul(0x1234_5678_9ABC) }) }).collect::<Vec<_>>())),
            "uint64" => Arc::new(UInt64Array::from((0..n).map(|i| { let c = next(); v(i).then_some(if c % 4 == 0 { u64::MAX } else { c.wrapping_mul(0x9E37_79B9_7F4A_7C15) }) }).collect::<Vec<_>>())),
            "f16" => Arc::new(Float16Array::from((0..n).map(|i| { let c = next(); v(i).then_some(half::f16::from_bits((c.wrapping_mul(977)) as u16)) }).collect::<Vec<_>>())),
            "f32" => Arc::new(Float32Array::from((0..n).map(|i| { let c = next(); v(i).then_some(match c % 4 { 0 => f32::NAN, 1 => -0.0, _ => c as f32 * 0.37 }) }).collect::<Vec<_>>())),
            "f64" => Arc::new(Float64Array::from((0..n).map(|i| { let c = next(); v(i).then_some(match c % 4 { 0 => f64::from_bits(0x7FF8_0000_0000_1234), 1 => -0.0, _ => c as f64 * 1e-7 }) }).collect::<Vec<_>>())),
            "bool" => Arc::new(BooleanArray::from((0..n).map(|i| { let c = next(); v(i).then_some(c % 3 != 0) }).collect::<Vec<_>>())),
            "utf8" => Arc::new(StringArray::from((0..n).map(|i| { let c = next(); v(i).then(|| if c % 4 == 0 && spec.null_support != 2 { String::new() } else { format!("s{c}{}", "é".repeat((c % 3) as usize)) }) }).collect::<Vec<_>>())),
            "large_utf8" => Arc::new(LargeStringArray::from((0..n).map(|i| { let c = next(); v(i).then(|| format!("L{c}")) }).collect::<Vec<_>>())),
            "binary" => Arc::new(BinaryArray::from((0..n).map(|i| { let c = next(); v(i).then(|| vec![0u8, 0xFF, c as u8][..if spec.null_support == 2 { 1 + (c % 3) as usize } else { (c % 4) as usize }].to_vec()) }).collect::<Vec<Option<Vec<u8>>>>().iter().map(|o| o.as_deref()).collect::<Vec<_>>())),
            "large_binary" => Arc::new(LargeBinaryArray::from((0..n).map(|i| { let c = next(); v(i).then(|| vec![c as u8; if spec.null_support == 2 { 1 + (c % 4) as usize } else { (c % 5) as usize }]) }).collect::<Vec<Option<Vec<u8>>>>().iter().map(|o| o.as_deref()).collect::<Vec<_>>())),
            "fsb3" => {
                let vals: Vec<Option<Vec<u8>>> = (0..n).map(|i| { let c = next(); v(i).then(|| vec![c as u8, 0, 0xFF]) }).collect();
                Arc::new(FixedSizeBinaryArray::try_from_sparse_iter_with_size(vals.into_iter(), 3).expect("fsb"))
            }
            "decimal128" => Arc::new(
                Decimal128Array::from((0..n).map(|i| { let c = next(); v(i).then_some(if c % 3 == 0 { -(c as i128) << 70 } else { (c as i128) * 1_000_000_007 }) }).collect::<Vec<_>>())
                    .with_precision_and_scale(38, 4)
                    .expect("decimal"),
            ),
            "timestamp" => Arc::new(
                TimestampMicrosecondArray::from((0..n).map(|i| { let c = next(); v(i).then_some(1_700_000_000_000_000i64 + c as i64 * 1_000_003) }).collect::<Vec<_>>()).with_timezone("UTC"),
            ),
            "date32" => Arc::new(Date32Array::from((0..n).map(|i| { let c = next(); v(i).then_some(19_000 + c as i32) }).collect::<Vec<_>>())),
            "dict" => {
                let words = if spec.null_support == 2 { ["alpha", "beta", "delta", "gamma"] } else { ["alpha", "beta", "", "gamma"] };
                let vals: Vec<Option<&str>> = (0..n).map(|i| { let c = next(); v(i).then_some(words[(c % 4) as usize]) }).collect();
                Arc::new(vals.into_iter().collect::<DictionaryArray<Int32Type>>())
            }
            "null" => Arc::new(NullArray::new(n)),
            other => vcore::machinery_error(&format!("unknown leaf {other}")),
        },
        Ty::List(t) | Ty::LargeList(t) => {
            let mut offs = vec![0i64];
            for i in 0..n {
                let l = if v(i) || spec.garbage { LENS[spec.lens][i % 3] } else { 0 };
                offs.push(offs[i] + l as i64);
            }
            let child = gen(t, *offs.last().unwrap() as usize, spec, level + 1, ctr, meta);
            let f = Arc::new(Field::new("item", t.data_type(meta), true).with_metadata(leaf_meta(t, meta)));
            if matches!(ty, Ty::LargeList(_)) {
                Arc::new(LargeListArray::new(f, OffsetBuffer::new(ScalarBuffer::from(offs)), child, nulls_of(code, n)))
            } else {
                Arc::new(ListArray::new(f, OffsetBuffer::new(ScalarBuffer::from(offs.iter().map(|x| *x as i32).collect::<Vec<_>>())), child, nulls_of(code, n)))
            }
        }
        Ty::Fsl(t) => {
            let child = gen(t, 2 * n, spec, level + 1, ctr, meta);
            let f = Arc::new(Field::new("item", t.data_type(meta), true).with_metadata(leaf_meta(t, meta)));
            Arc::new(FixedSizeListArray::new(f, 2, child, nulls_of(code, n)))
        }
        Ty::Struct(ts) => {
            let cols: Vec<ArrayRef> = ts.iter().enumerate().map(|(k, t)| gen(t, n, spec, level + 1 + k, ctr, meta)).collect();
            let fields = Fields::from(
                ts.iter().enumerate().map(|(i, t)| Field::new(STRUCT_NAMES[i], t.data_type(meta), true).with_metadata(leaf_meta(t, meta))).collect::<Vec<_>>(),
            );
            Arc::new(StructArray::new(fields, cols, nulls_of(code, n)))
        }
    }
}

#[derive(Clone, Debug, PartialEq, Eq, Serialize, Deserialize)]
pub struct Case {
    pub ty: Ty,
    pub n: usize,
    pub spec: Spec,
    pub version: String,
    /// "one" | "two" (two batches, one page where the writer accumulates) | "pages" (two batches, page per batch) | "sliced" (batch = slice(1..) of a longer one)
    pub batching: String,
    /// Some(bytes): max_page_bytes
    pub max_page_bytes: Option<u64>,
    /// "" | "zstd" | "lz4" | "none"
    pub compression: String,
    /// "default" | "miniblock" | "fullzip"
    pub structural: String,
}

fn static_version(v: &str) -> &'static str {
    match v {
        "2.0" => "2.0",
        "2.1" => "2.1",
        "2.2" => "2.2",
        "0.1" => "0.1",
        o => vcore::machinery_error(&format!("bad version {o}")),
    }
}

fn build_batches(c: &Case) -> (Arc<Schema>, Vec<RecordBatch>, RecordBatch) {
    let mut meta = HashMap::new();
    if !c.compression.is_empty() {
        meta.insert(lance_encoding::constants::COMPRESSION_META_KEY.to_string(), c.compression.clone());
    }
    if c.structural != "default" {
        meta.insert(lance_encoding::constants::STRUCTURAL_ENCODING_META_KEY.to_string(), c.structural.clone());
    }
    let lead = if c.batching == "sliced" { 1 } else { 0 };
    let total = c.n + lead;
    let mut ctr = 0u64;
    let col = gen(&c.ty, total, &c.spec, 0, &mut ctr, &meta);
    let id: ArrayRef = Arc::new(Int32Array::from((0..total as i32).collect::<Vec<_>>()));
    let schema = Arc::new(Schema::new(vec![
        Field::new("id", DataType::Int32, false),
        Field::new("c", c.ty.data_type(&meta), true).with_metadata(meta.clone()),
    ]));
    let whole = RecordBatch::try_new(schema.clone(), vec![id, col]).expect("well-formed batch").slice(lead, c.n);
    let batches = match c.batching.as_str() {
        "two" | "pages" if c.n >= 2 => {
            let k = c.n / 2;
            vec![whole.slice(0, k), whole.slice(k, c.n - k)]
        }
        _ => vec![whole.clone()],
    };
    (schema, batches, whole)
}

// ------------------------------------------------------------------------------------------
// cause classification (shared with C27): the rows of every leaf column as a nesting tree

#[derive(Clone, Debug)]
enum Step {
    List,
    Field(usize),
}

fn leaf_paths(ty: &Ty, cur: &mut Vec<Step>, out: &mut Vec<Vec<Step>>) {
    match ty {
        Ty::Leaf(_) | Ty::Fsl(_) => out.push(cur.clone()),
        Ty::List(t) | Ty::LargeList(t) => {
            cur.push(Step::List);
            leaf_paths(t, cur, out);
            cur.pop();
        }
        Ty::Struct(ts) => {
            for (i, t) in ts.iter().enumerate() {
                cur.push(Step::Field(i));
                leaf_paths(t, cur, out);
                cur.pop();
            }
        }
    }
}

fn to_v(val: &Val, path: &[Step]) -> V {
    match (path.first(), val) {
        (_, Val::Null) => V::Null,
        (None, _) => V::Leaf,
        (Some(Step::List), Val::List(xs)) => V::List(xs.iter().map(|x| to_v(x, &path[1..])).collect()),
        (Some(Step::Field(i)), Val::Struct(fs)) => V::Struct(Box::new(to_v(&fs[*i].1, &path[1..]))),
        _ => V::Leaf,
    }
}

fn classify(c: &Case, rows: &[Val]) -> Option<&'static str> {
    if c.version == "2.0" || c.version == "0.1" {
        return None;
    }
    let mut paths = vec![];
    leaf_paths(&c.ty, &mut vec![], &mut paths);
    let col: Vec<&Val> = rows
        .iter()
        .map(|r| match r {
            Val::Struct(fs) => &fs[1].1,
            _ => r,
        })
        .collect();
    let (split, pages) = match c.batching.as_str() {
        "pages" if c.n >= 2 => (c.n / 2, true),
        _ => (0, false),
    };
    let sh = crate::c27::FileShape { split, pages, fullzip: c.structural == "fullzip", sliced: matches!(c.batching.as_str(), "sliced" | "two" | "pages") };
    for p in paths {
        let stack: Vec<Layer> = p.iter().map(|s| if matches!(s, Step::List) { Layer::List } else { Layer::Struct }).collect();
        let vs: Vec<V> = col.iter().map(|v| to_v(v, &p)).collect();
        if let Some(cause) = crate::c27::file_cause(&stack, &vs, sh) {
            return Some(cause);
        }
        let _ = leaf_is_fsl(&c.ty, &p);
    }
    None
}

fn leaf_is_fsl(ty: &Ty, path: &[Step]) -> bool {
    match (ty, path.first()) {
        (Ty::Fsl(_), None) => true,
        (Ty::List(t), Some(Step::List)) | (Ty::LargeList(t), Some(Step::List)) => leaf_is_fsl(t, &path[1..]),
        (Ty::Struct(ts), Some(Step::Field(i))) => leaf_is_fsl(&ts[*i], &path[1..]),
        _ => false,
    }
}

/// items of every (outermost) fixed_size_list value reachable in `v`
fn fsl_items<'a>(ty: &Ty, v: &'a Val, out: &mut Vec<&'a Val>) {
    match (ty, v) {
        (Ty::Fsl(_), Val::List(xs)) => out.extend(xs.iter()),
        (Ty::List(t), Val::List(xs)) | (Ty::LargeList(t), Val::List(xs)) => xs.iter().for_each(|x| fsl_items(t, x, out)),
        (Ty::Struct(ts), Val::Struct(fs)) => ts.iter().zip(fs.iter()).for_each(|(t, (_, x))| fsl_items(t, x, out)),
        _ => {}
    }
}

/// a fixed_size_list column (possibly nested) all of whose items are NULL
fn fsl_all_items_null(c: &Case, rows: &[Val]) -> bool {
    let mut items = vec![];
    for r in rows {
        if let Val::Struct(fs) = r {
            fsl_items(&c.ty, &fs[1].1, &mut items);
        }
    }
    fn all_null(v: &Val) -> bool {
        match v {
            Val::Null => true,
            Val::List(xs) => !xs.is_empty() && xs.iter().all(all_null),
            _ => false,
        }
    }
    !items.is_empty() && items.iter().all(|v| all_null(v))
}

fn has_leaf(ty: &Ty, name: &str) -> bool {
    match ty {
        Ty::Leaf(l) => l == name,
        Ty::List(t) | Ty::LargeList(t) | Ty::Fsl(t) => has_leaf(t, name),
        Ty::Struct(ts) => ts.iter().any(|t| has_leaf(t, name)),
    }
}

/// shapes that are not rep/def shapes: configuration + type classes
fn classify_config(c: &Case) -> Option<&'static str> {
    if c.version == "2.0" || c.version == "0.1" {
        return None;
    }
    if c.structural == "fullzip" && has_leaf(&c.ty, "bool") {
        // the writer accepts the request (no error from try_new / write_batch) and the encode task panics
        return Some("fullzip/boolean-leaf-accepted-then-encode-task-panics");
    }
    if has_leaf(&c.ty, "null") && !matches!(c.ty, Ty::Leaf(_)) {
        return Some("null-typed-items-inside-a-container");
    }
    None
}

// ------------------------------------------------------------------------------------------

fn all_reqs(n: usize, heavy: bool) -> Vec<(Req, u32)> {
    let mut out: Vec<(Req, u32)> = vec![(Req::Full, 1024), (Req::Full, 1), (Req::Full, 2), (Req::Full, n.max(1) as u32)];
    for a in 0..n {
        for b in (a + 1)..=n {
            out.push((Req::Range(a, b), 1024));
            if heavy && b - a >= 3 {
                out.push((Req::Range(a, b), 2));
            }
        }
    }
    // range pairs (both non-empty, sorted, disjoint; adjacent allowed)
    for a in 0..n {
        for b in (a + 1)..=n {
            for c in b..n {
                for d in (c + 1)..=n {
                    if n > 4 && (b - a > 2 || d - c > 2) {
                        continue;
                    }
                    out.push((Req::Ranges(vec![(a as u64, b as u64), (c as u64, d as u64)]), 1024));
                }
            }
        }
    }
    // sorted index lists of <= 3 rows
    for a in 0..n {
        out.push((Req::Indices(vec![a as u32]), 1024));
        for b in (a + 1)..n {
            out.push((Req::Indices(vec![a as u32, b as u32]), 1024));
            for c in (b + 1)..n {
                out.push((Req::Indices(vec![a as u32, b as u32, c as u32]), 1024));
            }
        }
    }
    out
}

fn project_val(v: &Val, keep: &[&str]) -> Val {
    // keep: top-level column names, "c.a" keeps only child a of struct column c
    match v {
        Val::Struct(fs) => {
            let mut out = vec![];
            for (n, x) in fs {
                if keep.contains(&n.as_str()) {
                    out.push((n.clone(), x.clone()));
                } else if n == "c" && keep.contains(&"c.a") {
                    out.push((
                        n.clone(),
                        match x {
                            Val::Struct(cs) => Val::Struct(cs.iter().filter(|(k, _)| k == "a").cloned().collect()),
                            other => other.clone(),
                        },
                    ));
                }
            }
            Val::Struct(out)
        }
        other => other.clone(),
    }
}

/// data type with the metadata of nested fields removed (encoding hints are not part of the type)
fn strip_meta(dt: &DataType) -> DataType {
    let f = |fl: &Arc<Field>| Arc::new(Field::new(fl.name(), strip_meta(fl.data_type()), fl.is_nullable()));
    match dt {
        DataType::List(x) => DataType::List(f(x)),
        DataType::LargeList(x) => DataType::LargeList(f(x)),
        DataType::FixedSizeList(x, n) => DataType::FixedSizeList(f(x), *n),
        DataType::Struct(fs) => DataType::Struct(Fields::from(fs.iter().map(f).collect::<Vec<_>>())),
        other => other.clone(),
    }
}

/// panics that are the code's way of saying "this type is not supported (yet)": treated like a refusal
const UNSUPPORTED: [&str; 5] = ["not yet implemented", "Unsupported logical type", "not implemented", "Expecting fixed stride data type", "Implement encoding for field"];

pub struct FileResult {
    pub fails: Vec<(String, String, Value)>,
    pub reads: u64,
    pub refused: Option<String>,
    pub pages: usize,
}

fn compare(got: &[RecordBatch], want: &[Val], label: &str, req: &Req, bs: u32) -> Option<(String, String)> {
    if bs <= 2 && got.iter().any(|b| b.num_rows() > bs as usize) {
        return Some((format!("{label}/batch-size"), format!("read {req:?} batch_size {bs}: a batch of more than {bs} rows came back")));
    }
    match val::batches_rows(got) {
        Err(e) => Some((format!("{label}/malformed"), format!("read {req:?}: returned arrays are malformed: {e}"))),
        Ok(rows) => {
            if rows.len() != want.len() {
                Some((format!("{label}/row-count"), format!("read {req:?} batch_size {bs}: {} rows back, {} requested", rows.len(), want.len())))
            } else {
                (0..rows.len()).find(|i| rows[*i] != want[*i]).map(|i| {
                    (
                        format!("{label}/value/{}", val::diff_path(&rows[i], &want[i])),
                        format!("read {req:?} batch_size {bs}: result row {i} is {} but the input row is {}", rows[i].short(), want[i].short()),
                    )
                })
            }
        }
    }
}

async fn check_v2(fs: &Fs, c: &Case, heavy: bool) -> FileResult {
    let mut res = FileResult { fails: vec![], reads: 0, refused: None, pages: 0 };
    let (schema, batches, whole) = build_batches(c);
    let expected = val::batch_rows(&whole).unwrap_or_else(|e| vcore::machinery_error(&format!("val conversion of the input failed: {e}")));
    let path = fs.fresh_path();
    let wcfg = WriteCfg {
        version: static_version(&c.version),
        max_page_bytes: c.max_page_bytes,
        data_cache_bytes: if c.batching == "pages" { Some(0) } else { None },
    };
    match fio::write_file(fs, &path, &schema, &batches, &wcfg).await {
        Ok(cnt) => {
            if cnt != c.n as u64 {
                res.fails.push(("write/row-count".into(), format!("finish() reported {cnt} rows, {} written", c.n), json!(null)));
            }
        }
        Err(e) => {
            // the property quantifies over data "the file writer accepts"
            res.refused = Some(e.chars().filter(|ch| !ch.is_ascii_digit()).take(100).collect());
            fs.delete(&path).await;
            return res;
        }
    }
    let reader = match fio::open(fs, &path).await {
        Ok(r) => r,
        Err(e) => {
            res.fails.push((format!("open/error/{}", val::msg_class(&e)), e, json!(null)));
            fs.delete(&path).await;
            return res;
        }
    };
    if reader.num_rows() != c.n as u64 {
        res.fails.push(("open/num-rows".into(), format!("num_rows() = {}, {} written", reader.num_rows(), c.n), json!(null)));
    }
    res.pages = reader.metadata().column_metadatas.iter().map(|m| m.pages.len()).max().unwrap_or(0);
    // schema
    let got_schema: Schema = reader.schema().as_ref().into();
    for (g, w) in got_schema.fields().iter().zip(schema.fields().iter()) {
        if strip_meta(g.data_type()) != strip_meta(w.data_type()) || g.name() != w.name() {
            res.fails.push(("schema".into(), format!("file schema field {} : {} but {} : {} was written", g.name(), g.data_type(), w.name(), w.data_type()), json!(null)));
        }
    }
    if got_schema.fields().len() != schema.fields().len() {
        res.fails.push(("schema".into(), format!("file schema has {} fields, {} written", got_schema.fields().len(), schema.fields().len()), json!(null)));
    }
    let mut kinds_failed = std::collections::HashSet::new();
    for (req, bs) in all_reqs(c.n, heavy) {
        res.reads += 1;
        let label = if matches!(req, Req::Full) && bs != 1024 { "full-small-batches".to_string() } else { req.kind().to_string() };
        if kinds_failed.contains(&label) {
            continue; // one artefact per request kind and file
        }
        let want: Vec<Val> = req.rows(c.n).iter().map(|i| expected[*i].clone()).collect();
        let f = match fio::read(&reader, &req, bs, None).await {
            Err(e) => Some((format!("{label}/error/{}", val::msg_class(&e)), format!("read {req:?} batch_size {bs}: {e}"))),
            Ok(got) => compare(&got, &want, &label, &req, bs),
        };
        if let Some((k, d)) = f {
            kinds_failed.insert(label);
            res.fails.push((k, d, json!({"req": req.to_json(), "batch_size": bs})));
        }
    }
    // projections
    let version = reader.metadata().version();
    let mut projs: Vec<Vec<&str>> = vec![vec!["c"], vec!["id"]];
    if matches!(c.ty, Ty::Struct(_)) {
        projs.push(vec!["c.a"]);
        projs.push(vec!["id", "c.a"]);
    }
    for names in projs {
        res.reads += 1;
        let label = format!("projection-{}", names.join("+"));
        let proj = match ReaderProjection::from_column_names(version, reader.schema(), &names) {
            Ok(p) => p,
            Err(e) => {
                res.fails.push((format!("{label}/build-error"), format!("from_column_names({names:?}): {e}"), json!({"projection": names})));
                continue;
            }
        };
        let want: Vec<Val> = expected.iter().map(|r| project_val(r, &names)).collect();
        let f = match fio::read(&reader, &Req::Full, 1024, Some(proj)).await {
            Err(e) => Some((format!("{label}/error/{}", val::msg_class(&e)), format!("projected read {names:?}: {e}"))),
            Ok(got) => compare(&got, &want, &label, &Req::Full, 1024),
        };
        if let Some((k, d)) = f {
            res.fails.push((k, d, json!({"projection": names})));
        }
    }
    drop(reader);
    fs.delete(&path).await;
    res
}

// ------------------------------------------------------------------------------------------
// legacy 0.1

struct NoSchema;

#[async_trait::async_trait]
impl lance_file::previous::writer::ManifestProvider for NoSchema {
    async fn store_schema(_: &mut lance_io::object_writer::ObjectWriter, _: &lance_core::datatypes::Schema) -> lance_core::Result<Option<usize>> {
        Ok(None)
    }
}

async fn check_legacy(fs: &Fs, c: &Case) -> FileResult {
    use lance_file::previous::reader::FileReader as OldReader;
    use lance_file::previous::writer::FileWriter as OldWriter;
    let mut res = FileResult { fails: vec![], reads: 0, refused: None, pages: 0 };
    let (schema, batches, whole) = build_batches(c);
    let expected = val::batch_rows(&whole).unwrap_or_else(|e| vcore::machinery_error(&e));
    let mut lschema = match lance_core::datatypes::Schema::try_from(schema.as_ref()) {
        Ok(s) => s,
        Err(e) => {
            res.refused = Some(format!("schema: {e}").chars().take(100).collect());
            return res;
        }
    };
    if let Err(e) = lschema.set_dictionary(&whole) {
        res.refused = Some(format!("set_dictionary: {e}").chars().take(100).collect());
        return res;
    }
    let path = fs.fresh_path();
    let mut w = match OldWriter::<NoSchema>::try_new(&fs.store, &path, lschema.clone(), &Default::default()).await {
        Ok(w) => w,
        Err(e) => {
            res.refused = Some(format!("writer: {e}").chars().filter(|ch| !ch.is_ascii_digit()).take(100).collect());
            return res;
        }
    };
    for b in &batches {
        if let Err(e) = w.write(std::slice::from_ref(b)).await {
            res.refused = Some(format!("write: {e}").chars().filter(|ch| !ch.is_ascii_digit()).take(100).collect());
            fs.delete(&path).await;
            return res;
        }
    }
    match w.finish().await {
        Ok(cnt) => {
            if cnt != c.n {
                res.fails.push(("write/row-count".into(), format!("finish() reported {cnt} rows, {} written", c.n), json!(null)));
            }
        }
        Err(e) => {
            res.refused = Some(format!("finish: {e}").chars().filter(|ch| !ch.is_ascii_digit()).take(100).collect());
            fs.delete(&path).await;
            return res;
        }
    }
    let reader = match OldReader::try_new(&fs.store, &path, lschema.clone()).await {
        Ok(r) => r,
        Err(e) => {
            res.fails.push((format!("open/error/{}", val::msg_class(&e.to_string())), e.to_string(), json!(null)));
            return res;
        }
    };
    if reader.len() != c.n {
        res.fails.push(("open/num-rows".into(), format!("len() = {}, {} written", reader.len(), c.n), json!(null)));
    }
    res.pages = reader.num_batches();
    let proj = reader.schema().clone();
    let mut kinds_failed = std::collections::HashSet::new();
    for (req, _bs) in all_reqs(c.n, false) {
        let (label, got) = match &req {
            Req::Full => continue,
            Req::Range(a, b) => ("range", reader.read_range(*a..*b, &proj).await),
            Req::Indices(ix) => ("indices", reader.take(ix, &proj).await),
            Req::Ranges(_) => continue, // the legacy reader has no multi-range call
        };
        res.reads += 1;
        if kinds_failed.contains(label) {
            continue;
        }
        let want: Vec<Val> = req.rows(c.n).iter().map(|i| expected[*i].clone()).collect();
        let f = match got {
            Err(e) => Some((format!("{label}/error/{}", val::msg_class(&e.to_string())), format!("read {req:?}: {e}"))),
            Ok(b) => compare(&[b], &want, label, &req, 1024),
        };
        if let Some((k, d)) = f {
            kinds_failed.insert(label);
            res.fails.push((k, d, json!({"req": req.to_json()})));
        }
    }
    // full read = range 0..n, and batch by batch
    if c.n > 0 {
        res.reads += 1;
        let mut rows = vec![];
        let mut err = None;
        for bid in 0..reader.num_batches() as i32 {
            match reader.read_batch(bid, lance_io::ReadBatchParams::RangeFull, &proj).await {
                Ok(b) => rows.push(b),
                Err(e) => {
                    err = Some(e.to_string());
                    break;
                }
            }
        }
        let f = match err {
            Some(e) => Some((format!("read_batch/error/{}", val::msg_class(&e)), format!("read_batch: {e}"))),
            None => compare(&rows, &expected, "read_batch", &Req::Full, 1024),
        };
        if let Some((k, d)) = f {
            res.fails.push((k, d, json!({"req": "read_batch"})));
        }
    }
    drop(reader);
    fs.delete(&path).await;
    res
}

// ------------------------------------------------------------------------------------------

fn leaf(s: &str) -> Ty {
    Ty::Leaf(s.to_string())
}

fn type_catalogue(quick: bool) -> Vec<Ty> {
    let base = ["int8", "int64", "f32", "bool", "utf8", "large_binary", "fsb3", "decimal128", "timestamp", "dict"];
    let extra = ["int16", "int32", "uint64", "f16", "f64", "date32", "binary", "large_utf8", "null"];
    let mut leaves: Vec<&str> = base.to_vec();
    if !quick {
        leaves.extend(extra);
    }
    // fixed_size_list over variable-width / dictionary items is documented as not implemented
    // (reader.rs: "FixedSizeList (of non-primitive): not yet implemented"): not part of the catalogue
    let fsl_ok = |t: &Ty| !matches!(t, Ty::Leaf(l) if matches!(l.as_str(), "utf8" | "large_utf8" | "binary" | "large_binary" | "dict" | "null"));
    let wrap = |k: usize, t: Ty| match k {
        0 => Ty::List(Box::new(t)),
        1 => Ty::LargeList(Box::new(t)),
        2 => Ty::Fsl(Box::new(t)),
        _ => Ty::Struct(vec![t, leaf("int32")]),
    };
    let mut out = vec![];
    for l in &leaves {
        out.push(leaf(l));
        for k in 0..4 {
            if k == 2 && !fsl_ok(&leaf(l)) {
                continue;
            }
            out.push(wrap(k, leaf(l)));
        }
    }
    // depth 2: containers of containers; quick: over two leaves only
    let d2_leaves: Vec<&str> = if quick { vec!["int64", "utf8"] } else { vec!["int64", "utf8", "bool", "fsb3", "dict", "f32"] };
    for l in d2_leaves {
        for k1 in 0..4 {
            for k2 in 0..4 {
                if k2 == 2 && !fsl_ok(&leaf(l)) {
                    continue;
                }
                out.push(wrap(k1, wrap(k2, leaf(l))));
            }
        }
    }
    // structured depth-3/4 family
    out.push(Ty::List(Box::new(Ty::Struct(vec![Ty::List(Box::new(leaf("int32"))), leaf("utf8")]))));
    out.push(Ty::Struct(vec![Ty::Struct(vec![Ty::List(Box::new(leaf("utf8"))), leaf("int8")]), leaf("int64")]));
    out.push(Ty::Struct(vec![leaf("int64"), leaf("utf8"), Ty::List(Box::new(leaf("f32")))]));
    out.push(Ty::LargeList(Box::new(Ty::List(Box::new(Ty::Struct(vec![leaf("utf8"), leaf("bool")]))))));
    out.push(Ty::List(Box::new(Ty::List(Box::new(Ty::List(Box::new(leaf("int64"))))))));
    out.push(Ty::Struct(vec![Ty::Fsl(Box::new(leaf("f32"))), Ty::List(Box::new(leaf("dict")))]));
    let _ = &fsl_ok;
    out
}

fn specs_for(n: usize, quick: bool) -> Vec<Spec> {
    let mut out = vec![];
    let tops: Vec<u8> = match n {
        0 => vec![0],
        1 => vec![0, 3],
        2 | 3 => (0..(1u8 << n)).map(|m| 10 + m).chain([0]).collect(),
        _ => {
            if quick {
                vec![0, 1, 5, 3]
            } else {
                vec![0, 1, 2, 4, 5, 3]
            }
        }
    };
    for t in tops {
        // inner levels: the pattern rotates through three fixed choices, list lengths through the patterns
        let inners: Vec<(Vec<u8>, usize, bool)> = if quick {
            vec![(vec![t, 1, 0], 0, true), (vec![t, 0, 2], 1, false)]
        } else {
            vec![(vec![t, 1, 0], 0, true), (vec![t, 0, 2], 1, false), (vec![t, 2, 1], 2, false), (vec![t, 3, 0], 3, true), (vec![t, 0, 0], 3, false)]
        };
        for (pats, lens, garbage) in inners {
            out.push(Spec { null_support: 0, pats, lens, garbage });
        }
    }
    out
}

fn cases(ctx: &Ctx) -> Vec<Case> {
    let quick = ctx.quick();
    let mut out = vec![];
    let ns: Vec<usize> = if quick { vec![0, 1, 3, 7] } else { vec![0, 1, 2, 3, 7] };
    for ty in type_catalogue(quick) {
        let is_leafy = matches!(ty, Ty::Leaf(_));
        for version in ["2.0", "2.1", "2.2", "0.1"] {
            for &n in &ns {
                let specs = specs_for(n, quick);
                for (si, spec) in specs.iter().enumerate() {
                    // a leaf column has a single nesting level: the inner pattern choices coincide
                    if is_leafy && si % (if quick { 2 } else { 5 }) != 0 {
                        continue;
                    }
                    let mut spec = spec.clone();
                    spec.null_support = match version {
                        "0.1" => 2,
                        "2.0" => 1,
                        _ => 0,
                    };
                    // without NULLs all validity patterns of the legacy version coincide
                    if version == "0.1" && si >= (if quick { 2 } else { 5 }) {
                        continue;
                    }
                    let base = Case {
                        ty: ty.clone(),
                        n,
                        spec: spec.clone(),
                        version: version.into(),
                        batching: "one".into(),
                        max_page_bytes: None,
                        compression: String::new(),
                        structural: "default".into(),
                    };
                    out.push(base.clone());
                    // deviations from the base configuration, one at a time, on one validity pattern per (type, n)
                    if si == 1 % specs.len() && n >= 3 {
                        for b in ["two", "pages", "sliced"] {
                            out.push(Case { batching: b.into(), ..base.clone() });
                        }
                        if version == "2.0" {
                            out.push(Case { max_page_bytes: Some(1), batching: "two".into(), ..base.clone() });
                        }
                        if version != "0.1" {
                            out.push(Case { compression: "zstd".into(), ..base.clone() });
                        }
                        if version == "2.1" || version == "2.2" {
                            out.push(Case { structural: "miniblock".into(), ..base.clone() });
                            out.push(Case { structural: "fullzip".into(), ..base.clone() });
                            if !quick {
                                out.push(Case { structural: "fullzip".into(), batching: "pages".into(), ..base.clone() });
                                out.push(Case { compression: "lz4".into(), structural: "miniblock".into(), ..base.clone() });
                            }
                        }
                    }
                }
            }
        }
    }
    out
}

fn run_case(fs: &Fs, c: &Case, heavy: bool, cov: &mut Cov, viol: &mut Vec<Violation>) -> bool {
    use futures::FutureExt;
    let case = serde_json::to_value(c).expect("case json");
    let fut = async {
        if c.version == "0.1" {
            check_legacy(fs, c).await
        } else {
            check_v2(fs, c, heavy).await
        }
    };
    let r = vstore::block_on(std::panic::AssertUnwindSafe(fut).catch_unwind());
    let cfg_class = format!(
        "{}{}{}{}",
        c.batching,
        if c.max_page_bytes.is_some() { "+tinypages" } else { "" },
        if c.compression.is_empty() { String::new() } else { format!("+{}", c.compression) },
        if c.structural == "default" { String::new() } else { format!("+{}", c.structural) }
    );
    let nontrivial = c.n >= 2 && c.spec.pats.iter().any(|p| *p != 0);
    let h = vcore::hash64(case.to_string().as_bytes());
    match r {
        Ok(fr) => {
            cov.evaluations += fr.reads.max(1);
            if nontrivial && fr.refused.is_none() {
                cov.nontrivial.insert(h);
            }
            if let Some(why) = fr.refused {
                cov.outcome(&format!("refused/{}/{}", c.version, why));
                return true;
            }
            cov.outcome(&format!("written/{}/{}", c.version, if fr.pages > 1 { "multi-page" } else { "one-page" }));
            if fr.fails.is_empty() {
                cov.outcome(&format!("ok/{}", c.version));
                return true;
            }
            let (_, _, whole) = build_batches(c);
            let rows = val::batch_rows(&whole).unwrap_or_default();
            let mut cause = classify(c, &rows).or_else(|| classify_config(c)).or_else(|| if c.version.starts_with("2.") && c.version != "2.0" && fsl_all_items_null(c, &rows) { Some("fsl/all-items-null-cannot-be-written") } else { None });
            // shape class (unanalysed): only reads that project the column `c` alone fail, and `c` is a list of
            // structs with a list child next to another leaf
            if cause.is_none() && c.version != "2.0" && c.version != "0.1" && c.ty.skeleton().contains("list<struct<list<") && fr.fails.iter().all(|(k, _, _)| k.starts_with("projection-c/")) {
                cause = Some("projection/list-of-struct-with-list-child-read-alone");
            }
            for (k, d, req) in fr.fails {
                cov.outcome(&format!("FAIL/{}/{}", c.version, cause.unwrap_or("unclassified")));
                let key = match cause {
                    Some(cs) => cs.to_string(),
                    // the request kind (full / range / ranges / indices / projection) is part of the
                    // description, not of the key: one defect shows through all of them
                    None => format!("file/unclassified/{}/{}/{cfg_class}/{}", c.version, c.ty.skeleton(), k.split('/').skip(1).collect::<Vec<_>>().join("/")),
                };
                let d = format!("[{k}] {d}");
                let mut cj = case.clone();
                cj["read"] = req;
                viol.push(Violation::new("file-roundtrip", &key, format!("type {} n {} spec {:?} {} {cfg_class}: {d}", c.ty.name(), c.n, c.spec, c.version), cj));
            }
            true
        }
        Err(p) => {
            cov.evaluations += 1;
            let msg = vcore::panic_message(&p);
            if let Some(u) = UNSUPPORTED.iter().find(|u| msg.contains(**u)) {
                cov.outcome(&format!("refused/{}/panic: {u} [{}]", c.version, c.ty.skeleton()));
                return false;
            }
            cov.nontrivial.insert(h);
            let (_, _, whole) = build_batches(c);
            let rows = val::batch_rows(&whole).unwrap_or_default();
            let cause = classify(c, &rows).or_else(|| classify_config(c)).or_else(|| if c.version.starts_with("2.") && c.version != "2.0" && fsl_all_items_null(c, &rows) { Some("fsl/all-items-null-cannot-be-written") } else { None });
            cov.outcome(&format!("PANIC/{}/{}", c.version, cause.unwrap_or("unclassified")));
            let key = match cause {
                Some(cs) => cs.to_string(),
                None => format!("file/unclassified/{}/{}/{cfg_class}/panic/{}", c.version, c.ty.skeleton(), val::msg_class(&msg)),
            };
            viol.push(Violation::new("file-roundtrip", &key, format!("type {} n {} spec {:?} {} {cfg_class}: panic: {msg}", c.ty.name(), c.n, c.spec, c.version), case));
            false
        }
    }
}

pub fn run(ctx: &Ctx) -> Outcome {
    let mut out = Outcome::new("exploration");
    if let Some(art) = ctx.replay_case() {
        let mut cj = art["case"].clone();
        if let Some(o) = cj.as_object_mut() {
            o.remove("read");
        }
        if cj["kind"] == json!("long_list") {
            let mut cov = Cov::new();
            let mut viol = vec![];
            crate::longlist::replay(&cj, &mut cov, &mut viol);
            cov.sample(art["case"].clone());
            cov.fill(&mut out, "replay of one case", false);
            out.violations = viol;
            return out;
        }
        let c: Case = serde_json::from_value(cj).unwrap_or_else(|e| vcore::machinery_error(&format!("bad replay case: {e}")));
        let mut cov = Cov::new();
        let mut viol = vec![];
        let fs = vstore::block_on(async { Fs::new() });
        run_case(&fs, &c, true, &mut cov, &mut viol);
        cov.sample(art["case"].clone());
        cov.fill(&mut out, "replay of one case", false);
        out.violations = viol;
        return out;
    }
    let all = cases(ctx);
    let total = all.len();
    let parts = ctx.workers * 6;
    let mut chunks: Vec<Vec<Case>> = vec![vec![]; parts];
    for (i, c) in all.into_iter().enumerate() {
        chunks[i % parts].push(c);
    }
    let deadline = ctx.opts.get("deadline").and_then(|d| d.parse().ok()).unwrap_or(ctx.tier.pick(40.0, 840.0));
    let start = ctx.start;
    let capped = std::sync::atomic::AtomicBool::new(false);
    let done = std::sync::atomic::AtomicU64::new(0);
    let heavy = !ctx.quick();
    let res = vcore::par_map(chunks, ctx.workers, |_, slice| {
        let mut cov = Cov::new();
        let mut viol = vec![];
        let mut fs = vstore::block_on(async { Fs::new() });
        for c in slice {
            if start.elapsed().as_secs_f64() > deadline {
                capped.store(true, std::sync::atomic::Ordering::SeqCst);
                break;
            }
            if !run_case(&fs, &c, heavy, &mut cov, &mut viol) {
                fs = vstore::block_on(async { Fs::new() });
            }
            done.fetch_add(1, std::sync::atomic::Ordering::Relaxed);
        }
        (cov, viol)
    });
    let mut cov = Cov::new();
    let mut viol = vec![];
    for (c, v) in res {
        cov.merge(c);
        viol.extend(v);
    }
    // long-list family (shared with C27): sub-range / index reads whose last row spans several mini-block chunks
    let long_scope = crate::longlist::run(ctx, &["2.0", "2.1", "2.2"], &mut cov, &mut viol);
    viol.sort_by_key(|v| (v.case["n"].as_u64().unwrap_or(0), v.case["ty"].to_string().len(), v.case.to_string().len()));
    if let Some(s) = viol.first() {
        cov.sample(s.case.clone());
    }
    cov.sample(serde_json::to_value(Case {
        ty: Ty::List(Box::new(Ty::Struct(vec![leaf("utf8"), leaf("int32")]))),
        n: 3,
        spec: Spec { null_support: 0, pats: vec![13, 1, 0], lens: 0, garbage: true },
        version: "2.1".into(),
        batching: "pages".into(),
        max_page_bytes: None,
        compression: String::new(),
        structural: "fullzip".into(),
    })
    .unwrap());
    let exhaustive = !capped.load(std::sync::atomic::Ordering::SeqCst);
    cov.fill(
        &mut out,
        "odometer: type catalogue (leaf types x {-, list, large_list, fixed_size_list(2), struct} depth <= 2 + six structured depth-3/4 types) x rows {0,1,(2,)3,7} x top-level validity (all 2^n patterns for n<=3, six patterns for n=7) x inner validity / list-length / garbage-behind-NULL choices x file version {0.1,2.0,2.1,2.2} x (one batch; deviations one at a time: two batches, page per batch, sliced input, tiny pages (2.0), zstd/lz4, miniblock/fullzip); per file: full read with batch sizes {1,2,n,1024}, every sub-range, range pairs, every sorted index list <= 3, projections. evaluations = read requests; non-trivial = file with >= 2 rows and at least one NULL pattern",
        exhaustive,
    );
    out.set("files_planned", total as u64);
    out.set("long_list_family", long_scope);
    out.set("files_done", done.load(std::sync::atomic::Ordering::Relaxed));
    if !exhaustive {
        out.set("cap_hit", format!("wall cap {deadline}s"));
    }
    out.assume("legacy 0.1: inputs without NULLs and without empty strings / binaries (its binary encoding stores NULL as zero length); 2.0: no NULL structs; types whose encoder is todo!/unsupported are recorded as refused");
    out.assume("inputs the writer refuses with an error are recorded (distinct_outcomes refused/*), not judged: the property quantifies over data the writer accepts");
    out.assume("equality is logical: offset width, dictionary encoding and anything hidden behind a NULL are not part of the value; floats compare by bit pattern");
    out.violations = viol;
    out
}
