//! C27 (c) – row -> item translation: small nested shapes written as 2.1 (and 2.2) files with the
//! mini-block / full-zip structural encodings and read back for **every** non-empty subset of rows,
//! once as a sorted index list and once as the equivalent list of ranges, plus the full read.

use crate::c27::{stack_from_name, stack_name, values, Layer, V};
use crate::fio::{self, Fs, Req, WriteCfg};
use crate::val::{self, Val};
use arrow_array::{ArrayRef, Int32Array, LargeListArray, ListArray, RecordBatch, StringArray, StructArray};
use arrow_buffer::{NullBuffer, OffsetBuffer, ScalarBuffer};
use arrow_schema::{DataType, Field, Fields, Schema};
use serde_json::{json, Value};
use std::collections::HashMap;
use std::sync::Arc;
use vcore::{Cov, Ctx, Violation};

#[derive(Clone, Debug, PartialEq, Eq)]
pub struct FileCfg {
    pub version: &'static str,
    /// "default" | "miniblock" | "fullzip"
    pub structural: &'static str,
    /// "int32" | "utf8"
    pub leaf: &'static str,
    pub large_lists: bool,
    /// rows are written as two batches split at this row (0 = one batch)
    pub split: usize,
    /// the n-row pattern is repeated this many times (1 = as is)
    pub tile: usize,
    /// data_cache_bytes = 0: every written batch becomes its own page
    pub pages: bool,
}

impl FileCfg {
    pub fn to_json(&self) -> Value {
        json!({"version":self.version,"structural":self.structural,"leaf":self.leaf,"large_lists":self.large_lists,"split":self.split,"tile":self.tile,"pages":self.pages})
    }
    pub fn from_json(v: &Value) -> Option<Self> {
        let pick = |s: &str, opts: &[&'static str]| opts.iter().find(|o| **o == s).copied();
        Some(Self {
            version: pick(v["version"].as_str()?, &["2.0", "2.1", "2.2"])?,
            structural: pick(v["structural"].as_str()?, &["default", "miniblock", "fullzip"])?,
            leaf: pick(v["leaf"].as_str()?, &["int32", "utf8"])?,
            large_lists: v["large_lists"].as_bool()?,
            split: v["split"].as_u64()? as usize,
            tile: v["tile"].as_u64()? as usize,
            pages: v["pages"].as_bool().unwrap_or(false),
        })
    }
}

fn leaf_meta(cfg: &FileCfg) -> HashMap<String, String> {
    let mut m = HashMap::new();
    if cfg.structural != "default" {
        m.insert(lance_encoding::constants::STRUCTURAL_ENCODING_META_KEY.to_string(), cfg.structural.to_string());
    }
    m
}

/// The top-level field: the structural-encoding request is read from the *root* field's metadata
/// (`StructuralEncodingStrategy::create_field_encoder` passes `&field.metadata` of the root down).
pub fn root_field(stack: &[Layer], cfg: &FileCfg) -> Field {
    field_of("x", stack, cfg).with_metadata(leaf_meta(cfg))
}

/// the Arrow field for `stack` above the leaf
pub fn field_of(name: &str, stack: &[Layer], cfg: &FileCfg) -> Field {
    if stack.is_empty() {
        let dt = if cfg.leaf == "utf8" { DataType::Utf8 } else { DataType::Int32 };
        return Field::new(name, dt, true);
    }
    match stack[0] {
        Layer::List => {
            let child = Arc::new(field_of("item", &stack[1..], cfg));
            Field::new(name, if cfg.large_lists { DataType::LargeList(child) } else { DataType::List(child) }, true)
        }
        Layer::Struct => {
            let c = field_of("c", &stack[1..], cfg);
            let k = Field::new("k", DataType::Int32, true);
            Field::new(name, DataType::Struct(Fields::from(vec![c, k])), true)
        }
        Layer::Fsl => unreachable!("FSL layers are not part of the file-level shapes"),
    }
}

fn garbage_value(stack: &[Layer]) -> V {
    if stack.is_empty() {
        return V::Leaf;
    }
    match stack[0] {
        Layer::List => V::List(vec![garbage_value(&stack[1..])]),
        Layer::Struct => V::Struct(Box::new(garbage_value(&stack[1..]))),
        Layer::Fsl => unreachable!(),
    }
}

/// Build the Arrow array for `items` of type `stack`. Hidden slots (behind a NULL struct, or the
/// range of a NULL-with-garbage list) are filled with valid-looking garbage.
pub fn build_array(stack: &[Layer], items: &[V], cfg: &FileCfg, counter: &mut i32) -> ArrayRef {
    if stack.is_empty() {
        let vals: Vec<Option<i32>> = items
            .iter()
            .map(|v| {
                *counter += 1;
                if matches!(v, V::Leaf) {
                    Some(*counter)
                } else {
                    None
                }
            })
            .collect();
        return if cfg.leaf == "utf8" {
            Arc::new(StringArray::from(vals.iter().map(|v| v.map(|x| format!("s{x}"))).collect::<Vec<_>>()))
        } else {
            Arc::new(Int32Array::from(vals))
        };
    }
    match stack[0] {
        Layer::List => {
            let mut child_items = vec![];
            let mut offs = vec![0i64];
            let mut valid = vec![];
            for v in items {
                match v {
                    V::List(xs) => {
                        child_items.extend(xs.iter().cloned());
                        valid.push(true);
                    }
                    V::NullG => {
                        child_items.push(garbage_value(&stack[1..]));
                        valid.push(false);
                    }
                    _ => valid.push(false),
                }
                offs.push(child_items.len() as i64);
            }
            let child = build_array(&stack[1..], &child_items, cfg, counter);
            let f = Arc::new(field_of("item", &stack[1..], cfg));
            let nulls = if valid.iter().all(|x| *x) { None } else { Some(NullBuffer::from(valid)) };
            if cfg.large_lists {
                Arc::new(LargeListArray::new(f, OffsetBuffer::new(ScalarBuffer::from(offs)), child, nulls))
            } else {
                let o32: Vec<i32> = offs.iter().map(|x| *x as i32).collect();
                Arc::new(ListArray::new(f, OffsetBuffer::new(ScalarBuffer::from(o32)), child, nulls))
            }
        }
        Layer::Struct => {
            let mut child_items = vec![];
            let mut valid = vec![];
            for v in items {
                match v {
                    V::Struct(c) => {
                        child_items.push(c.as_ref().clone());
                        valid.push(true);
                    }
                    _ => {
                        child_items.push(garbage_value(&stack[1..]));
                        valid.push(false);
                    }
                }
            }
            let child = build_array(&stack[1..], &child_items, cfg, counter);
            let k: ArrayRef = Arc::new(Int32Array::from(
                (0..items.len())
                    .map(|_| {
                        *counter += 1;
                        Some(*counter)
                    })
                    .collect::<Vec<_>>(),
            ));
            let fields = Fields::from(vec![field_of("c", &stack[1..], cfg), Field::new("k", DataType::Int32, true)]);
            let nulls = if valid.iter().all(|x| *x) { None } else { Some(NullBuffer::from(valid)) };
            Arc::new(StructArray::new(fields, vec![child, k], nulls))
        }
        Layer::Fsl => unreachable!(),
    }
}

pub fn build_batch(stack: &[Layer], rows: &[V], cfg: &FileCfg) -> (Arc<Schema>, RecordBatch) {
    let mut counter = 0;
    let x = build_array(stack, rows, cfg, &mut counter);
    let id: ArrayRef = Arc::new(Int32Array::from((0..rows.len() as i32).collect::<Vec<_>>()));
    let schema = Arc::new(Schema::new(vec![Field::new("id", DataType::Int32, false), root_field(stack, cfg)]));
    let b = RecordBatch::try_new(schema.clone(), vec![id, x]).expect("harness builds a well-formed batch");
    (schema, b)
}

fn subset_reqs(n: usize, window: Option<(usize, usize)>) -> Vec<Req> {
    // every non-empty subset of the window (default: all rows) as indices and as maximal ranges
    let (w0, wlen) = window.unwrap_or((0, n));
    let mut out = vec![Req::Full];
    for m in 1u32..(1u32 << wlen) {
        let idx: Vec<u32> = (0..wlen).filter(|i| m & (1 << i) != 0).map(|i| (w0 + i) as u32).collect();
        let mut ranges: Vec<(u64, u64)> = vec![];
        for i in &idx {
            match ranges.last_mut() {
                Some(r) if r.1 == *i as u64 => r.1 += 1,
                _ => ranges.push((*i as u64, *i as u64 + 1)),
            }
        }
        out.push(Req::Indices(idx));
        out.push(Req::Ranges(ranges));
    }
    out
}

pub struct FileOutcome {
    pub fails: Vec<(String, String, Value)>, // (key suffix, description, request json)
    pub reads: u64,
    pub layouts: Vec<String>,
}

/// write one file and run all subset reads
pub async fn check_file(fs: &Fs, stack: &[Layer], rows: &[V], cfg: &FileCfg, windows: &[(usize, usize)]) -> FileOutcome {
    let mut out = FileOutcome { fails: vec![], reads: 0, layouts: vec![] };
    let tiled: Vec<V> = (0..cfg.tile.max(1)).flat_map(|_| rows.iter().cloned()).collect();
    let (schema, batch) = build_batch(stack, &tiled, cfg);
    let n = tiled.len();
    let expected = match val::batch_rows(&batch) {
        Ok(r) => r,
        Err(e) => vcore::machinery_error(&format!("val conversion of harness input failed: {e}")),
    };
    let batches: Vec<RecordBatch> = if cfg.split > 0 && cfg.split < n {
        vec![batch.slice(0, cfg.split), batch.slice(cfg.split, n - cfg.split)]
    } else {
        vec![batch.clone()]
    };
    let path = fs.fresh_path();
    let mut wcfg = WriteCfg::v(cfg.version);
    if cfg.pages {
        wcfg.data_cache_bytes = Some(0);
    }
    match fio::write_file(fs, &path, &schema, &batches, &wcfg).await {
        Ok(cnt) => {
            if cnt != n as u64 {
                out.fails.push(("write/row-count".into(), format!("finish() reported {cnt} rows, {n} written"), json!(null)));
            }
        }
        Err(e) => {
            out.fails.push(("write/error".into(), format!("writer rejected the input: {e}"), json!(null)));
            fs.delete(&path).await;
            return out;
        }
    }
    let reader = match fio::open(fs, &path).await {
        Ok(r) => r,
        Err(e) => {
            out.fails.push(("open/error".into(), e, json!(null)));
            fs.delete(&path).await;
            return out;
        }
    };
    if reader.num_rows() != n as u64 {
        out.fails.push(("open/num-rows".into(), format!("num_rows() = {}, {n} written", reader.num_rows()), json!(null)));
    }
    for cm in reader.metadata().column_metadatas.iter() {
        for p in &cm.pages {
            let d = lance_file::reader::describe_encoding(p);
            let short: String = d.chars().take(60).collect();
            if !out.layouts.contains(&short) {
                out.layouts.push(short);
            }
        }
    }
    let mut reqs = vec![];
    if windows.is_empty() {
        reqs = subset_reqs(n, None);
    } else {
        for w in windows {
            for r in subset_reqs(n, Some(*w)) {
                if !reqs.contains(&r) {
                    reqs.push(r);
                }
            }
        }
    }
    for req in reqs {
        out.reads += 1;
        let want: Vec<&Val> = req.rows(n).iter().map(|i| &expected[*i]).collect();
        for bs in [1024u32, 1] {
            if bs == 1 && (want.len() < 2 || want.len() > 8) {
                continue;
            }
            match fio::read(&reader, &req, bs, None).await {
                Err(e) => {
                    out.fails.push((format!("{}/error/{}", req.kind(), val::msg_class(&e)), format!("read {:?} batch_size {bs}: {e}", req), req.to_json()));
                    break;
                }
                Ok(got) => {
                    if bs == 1 && got.iter().any(|b| b.num_rows() > 1) {
                        out.fails.push((format!("{}/batch-size", req.kind()), format!("read {:?} batch_size 1 returned a batch of more than one row", req), req.to_json()));
                    }
                    match val::batches_rows(&got) {
                        Err(e) => {
                            out.fails.push((format!("{}/malformed", req.kind()), format!("read {:?}: returned arrays are malformed: {e}", req), req.to_json()));
                            break;
                        }
                        Ok(rows) => {
                            if rows.len() != want.len() {
                                out.fails.push((
                                    format!("{}/row-count", req.kind()),
                                    format!("read {:?} batch_size {bs}: {} rows returned, {} requested; got {}", req, rows.len(), want.len(), val::rows_short(&rows)),
                                    req.to_json(),
                                ));
                                break;
                            } else if let Some(i) = (0..rows.len()).find(|i| &rows[*i] != want[*i]) {
                                out.fails.push((
                                    format!("{}/value/{}", req.kind(), val::diff_path(&rows[i], want[i])),
                                    format!("read {:?} batch_size {bs}: row {i} of the result is {} but row {} of the input is {}", req, rows[i].short(), req.rows(n)[i], want[i].short()),
                                    req.to_json(),
                                ));
                                break;
                            }
                        }
                    }
                }
            }
        }
    }
    drop(reader);
    fs.delete(&path).await;
    out
}


/// classification over every leaf column of the test table: the `c` path (the whole stack) and the `k`
/// sibling below every struct layer (a non-null int32 leaf under the stack prefix ending at that struct)
pub fn table_cause(stack: &[Layer], rows: &[V], cfg: &FileCfg) -> Option<&'static str> {
    fn cut(v: &V, depth: usize, at: usize) -> V {
        // the value seen by the `k` leaf below the struct at layer `at - 1`
        if depth == at {
            return if matches!(v, V::Null | V::NullG) { V::Null } else { V::Leaf };
        }
        match v {
            V::List(xs) => V::List(xs.iter().map(|x| cut(x, depth + 1, at)).collect()),
            V::Struct(c) => V::Struct(Box::new(cut(c, depth + 1, at))),
            other => other.clone(),
        }
    }
    let sh = crate::c27::FileShape { split: cfg.split, pages: cfg.pages, fullzip: cfg.structural == "fullzip", sliced: false };
    if let Some(c) = crate::c27::file_cause(stack, rows, sh) {
        return Some(c);
    }
    for (i, l) in stack.iter().enumerate() {
        if *l == Layer::Struct {
            // k sits below struct i: its own slot is always valid -> cut at depth i + 1 and mark valid
            let krows: Vec<V> = rows
                .iter()
                .map(|r| {
                    fn k_of(v: &V, depth: usize, at: usize) -> V {
                        match v {
                            V::Null | V::NullG => V::Null,
                            V::Struct(c) if depth == at => {
                                let _ = c;
                                V::Struct(Box::new(V::Leaf))
                            }
                            V::List(xs) => V::List(xs.iter().map(|x| k_of(x, depth + 1, at)).collect()),
                            V::Struct(c) => V::Struct(Box::new(k_of(c, depth + 1, at))),
                            other => other.clone(),
                        }
                    }
                    k_of(r, 0, i)
                })
                .collect();
            if let Some(c) = crate::c27::file_cause(&stack[..=i], &krows, sh) {
                return Some(c);
            }
        }
    }
    let _ = cut;
    None
}

fn case_json(stack: &[Layer], rows: &[V], cfg: &FileCfg, req: &Value) -> Value {
    json!({"kind":"repdef_file","stack":stack_name(stack),"rows":rows.iter().map(|r| r.to_json()).collect::<Vec<_>>(),"cfg":cfg.to_json(),"req":req})
}

fn record(stack: &[Layer], rows: &[V], cfg: &FileCfg, fo: FileOutcome, cov: &mut Cov, viol: &mut Vec<Violation>) {
    let nontrivial = rows.len() >= 2;
    for _ in 0..fo.reads.max(1) {
        cov.evaluations += 1;
    }
    if nontrivial {
        cov.nontrivial.insert(vcore::hash64(format!("{}{:?}{:?}", stack_name(stack), rows, cfg).as_bytes()));
    }
    for l in &fo.layouts {
        cov.outcome(&format!("file/layout/{l}"));
    }
    if fo.fails.is_empty() {
        cov.outcome("file/ok");
    }
    let tiled: Vec<V> = (0..cfg.tile.max(1)).flat_map(|_| rows.iter().cloned()).collect();
    let cause = table_cause(stack, &tiled, cfg);
    for (k, d, req) in fo.fails {
        cov.outcome(&format!("file/fail/{}", cause.unwrap_or("unclassified")));
        // k = "<request kind>/<failure kind>/<detail>": part of the description; the key is the root-cause
        // class of the file's shape, or (unclassified) the configuration + symptom
        let symptom = k.splitn(2, '/').nth(1).unwrap_or(&k).to_string();
        let batching = if cfg.tile > 1 { "tiled" } else if cfg.pages { "two-pages" } else if cfg.split > 0 { "two-batches" } else { "one-batch" };
        let key = match cause {
            Some(c) => c.to_string(),
            None => format!("file/unclassified/{}/{}/{}/{batching}/{symptom}", cfg.version, cfg.structural, cfg.leaf),
        };
        let d = format!("[{k}] {d}");
        viol.push(Violation::new(
            "rows-to-items",
            &key,
            format!("stack {} rows {} cfg {}: {d}", stack_name(stack), Value::Array(rows.iter().map(|r| r.to_json()).collect()), cfg.to_json()),
            case_json(stack, rows, cfg, &req),
        ));
    }
}

pub fn replay(_ctx: &Ctx, case: &Value, cov: &mut Cov, viol: &mut Vec<Violation>) {
    let stack = stack_from_name(case["stack"].as_str().unwrap_or("")).unwrap_or_else(|| vcore::machinery_error("bad stack"));
    let rows: Vec<V> = case["rows"]
        .as_array()
        .and_then(|a| a.iter().map(V::from_json).collect::<Option<Vec<_>>>())
        .unwrap_or_else(|| vcore::machinery_error("bad rows"));
    let cfg = FileCfg::from_json(&case["cfg"]).unwrap_or_else(|| vcore::machinery_error("bad cfg"));
    let windows: Vec<(usize, usize)> = if cfg.tile > 1 { tile_windows(rows.len() * cfg.tile) } else { vec![] };
    let fo = vcore::catch(|| {
        vstore::block_on(async {
            let fs = Fs::new();
            check_file(&fs, &stack, &rows, &cfg, &windows).await
        })
    });
    match fo {
        Ok(fo) => record(&stack, &rows, &cfg, fo, cov, viol),
        Err(p) => viol.push(Violation::new(
            "rows-to-items",
            &match table_cause(&stack, &rows, &cfg) {
                Some(c) => c.to_string(),
                None => format!("file/unclassified/{}/{}/{}/replay/panic/{}", cfg.version, cfg.structural, cfg.leaf, val::msg_class(&p)),
            },
            format!("panic: {p}"),
            case.clone(),
        )),
    }
}

fn tile_windows(n: usize) -> Vec<(usize, usize)> {
    // 4-row windows at the start, around powers of two up to n and at the end
    let mut w = vec![(0usize, 4usize.min(n))];
    let mut p = 256;
    while p + 2 < n {
        w.push((p - 2, 4));
        p *= 2;
    }
    if n > 4 {
        w.push((n - 4, 4));
    }
    w
}

struct Item {
    stack: Vec<Layer>,
    alphabet: usize,
    n: usize,
    first: Vec<usize>,
}

pub fn run(ctx: &Ctx, cov: &mut Cov, viol: &mut Vec<Violation>) -> Value {
    let cap: usize = ctx.tier.pick(200, 6000);
    let stacks: Vec<Vec<Layer>> = crate::c27::all_stacks(3).into_iter().filter(|s| !s.contains(&Layer::Fsl)).collect();
    let mut cfgs = vec![];
    for version in ctx.tier.pick(vec!["2.1"], vec!["2.1", "2.2"]) {
        for structural in ["miniblock", "fullzip"] {
            for leaf in ["int32", "utf8"] {
                cfgs.push(FileCfg { version, structural, leaf, large_lists: false, split: 0, tile: 1, pages: false });
            }
        }
    }
    // deviations from the base configuration, one at a time (only used when they differ: split needs >= 2 rows)
    cfgs.push(FileCfg { version: "2.1", structural: "miniblock", leaf: "int32", large_lists: false, split: 1, tile: 1, pages: false });
    cfgs.push(FileCfg { version: "2.1", structural: "miniblock", leaf: "int32", large_lists: false, split: 1, tile: 1, pages: true });
    cfgs.push(FileCfg { version: "2.1", structural: "fullzip", leaf: "utf8", large_lists: false, split: 1, tile: 1, pages: true });
    if !ctx.quick() {
        cfgs.push(FileCfg { version: "2.1", structural: "default", leaf: "int32", large_lists: false, split: 0, tile: 1, pages: false });
        cfgs.push(FileCfg { version: "2.1", structural: "miniblock", leaf: "int32", large_lists: true, split: 0, tile: 1, pages: false });
        cfgs.push(FileCfg { version: "2.1", structural: "fullzip", leaf: "utf8", large_lists: false, split: 1, tile: 1, pages: false });
        cfgs.push(FileCfg { version: "2.1", structural: "fullzip", leaf: "int32", large_lists: false, split: 2, tile: 1, pages: true });
    }
    let mut scope = vec![];
    let mut items: Vec<Item> = vec![];
    for st in &stacks {
        let mut used = vec![];
        for max_list in [2usize, 1] {
            let vals = values(st, true, max_list);
            for n in (1..=4usize).rev() {
                let c = vals.len().checked_pow(n as u32).unwrap_or(usize::MAX);
                if c > cap {
                    continue;
                }
                // a max_list=1 scope is only useful when it reaches more rows than the max_list=2 scope
                if max_list == 1 && used.iter().any(|(_, un): &(usize, usize)| *un >= n) {
                    continue;
                }
                used.push((max_list, n));
                let idx: Vec<usize> = (0..vals.len()).collect();
                for ch in vcore::smallx::chunks(&idx, 8) {
                    items.push(Item { stack: st.clone(), alphabet: max_list, n, first: ch });
                }
                scope.push(json!({"stack":stack_name(st),"max_list_len":max_list,"rows":n,"row_tuples":c}));
                break;
            }
        }
        // fall back: a stack whose single-row alphabet already exceeds the cap is explored with n=1
        if used.is_empty() {
            let vals = values(st, true, 1);
            let idx: Vec<usize> = (0..vals.len()).collect();
            for ch in vcore::smallx::chunks(&idx, 8) {
                items.push(Item { stack: st.clone(), alphabet: 1, n: 1, first: ch });
            }
            scope.push(json!({"stack":stack_name(st),"max_list_len":1,"rows":1,"row_tuples":vals.len()}));
        }
    }
    let deadline = ctx.opts.get("deadline").and_then(|d| d.parse().ok()).unwrap_or(ctx.tier.pick(30.0, 700.0));
    let capped = std::sync::atomic::AtomicBool::new(false);
    let ctx_start = ctx.start;
    let res = vcore::par_map(items, ctx.workers, |_, it| {
        let mut cov = Cov::new();
        let mut viol: Vec<Violation> = vec![];
        let vals = values(&it.stack, true, it.alphabet);
        let mut dims = vec![vals.len(); it.n];
        dims[0] = it.first.len();
        vstore::block_on(async {
            let fs = Fs::new();
            let mut tuples: Vec<Vec<usize>> = vec![];
            vcore::smallx::product(&dims, |ix| {
                tuples.push(ix.to_vec());
                true
            });
            for ix in tuples {
                if ctx_start.elapsed().as_secs_f64() > deadline {
                    capped.store(true, std::sync::atomic::Ordering::SeqCst);
                    break;
                }
                let rows: Vec<V> = ix.iter().enumerate().map(|(k, i)| if k == 0 { vals[it.first[*i]].clone() } else { vals[*i].clone() }).collect();
                for cfg in &cfgs {
                    if cfg.split >= rows.len() && cfg.split > 0 {
                        continue;
                    }
                    use futures::FutureExt;
                    match std::panic::AssertUnwindSafe(check_file(&fs, &it.stack, &rows, cfg, &[])).catch_unwind().await {
                        Ok(fo) => record(&it.stack, &rows, cfg, fo, &mut cov, &mut viol),
                        Err(p) => {
                            cov.outcome("file/panic");
                            let key = match table_cause(&it.stack, &rows, cfg) {
                                Some(c) => c.to_string(),
                                None => format!("file/unclassified/{}/{}/{}/{}/panic/{}", cfg.version, cfg.structural, cfg.leaf, if cfg.pages { "two-pages" } else if cfg.split > 0 { "two-batches" } else { "one-batch" }, val::msg_class(&vcore::panic_message(&p))),
                            };
                            viol.push(Violation::new(
                                "rows-to-items",
                                &key,
                                format!("rows {}: panic: {}", Value::Array(rows.iter().map(|r| r.to_json()).collect()), vcore::panic_message(&p)),
                                case_json(&it.stack, &rows, cfg, &json!(null)),
                            ));
                        }
                    }
                }
            }
        });
        (cov, viol)
    });
    for (c, v) in res {
        cov.merge(c);
        viol.extend(v);
    }
    eprintln!("[c27] file enumeration done at {:.1}s", ctx.elapsed_s());
    // tiled family: a 4-row pattern repeated to ~5000 rows so that pages hold several mini-block
    // chunks / a long repetition index; subsets of 4-row windows at chunk-size-like positions
    let mut tiled_files = 0u64;
    {
        let mut jobs = vec![];
        for st in &stacks {
            let vals = values(st, true, 1);
            // patterns: 4 rows cycling through the alphabet starting at each position
            let starts: Vec<usize> = if ctx.quick() { vec![0] } else { (0..vals.len().min(6)).collect() };
            for s0 in starts {
                let rows: Vec<V> = (0..4).map(|k| vals[(s0 + k * 2 + k / 2) % vals.len()].clone()).collect();
                for structural in ["miniblock", "fullzip"] {
                    for leaf in ctx.tier.pick(vec!["int32"], vec!["int32", "utf8"]) {
                        jobs.push((st.clone(), rows.clone(), FileCfg { version: "2.1", structural, leaf, large_lists: false, split: 0, tile: 1300, pages: false }));
                    }
                }
            }
        }
        tiled_files = jobs.len() as u64;
        let tiled_deadline = deadline + ctx.tier.pick(8.0, 120.0);
        let res = vcore::par_map(jobs, ctx.workers, |_, (st, rows, cfg)| {
            let mut cov = Cov::new();
            let mut viol = vec![];
            if ctx_start.elapsed().as_secs_f64() > tiled_deadline {
                capped.store(true, std::sync::atomic::Ordering::SeqCst);
                return (cov, viol);
            }
            let windows = tile_windows(rows.len() * cfg.tile);
            let fo = vcore::catch(|| {
                vstore::block_on(async {
                    let fs = Fs::new();
                    check_file(&fs, &st, &rows, &cfg, &windows).await
                })
            });
            match fo {
                Ok(fo) => record(&st, &rows, &cfg, fo, &mut cov, &mut viol),
                Err(p) => viol.push(Violation::new(
                    "rows-to-items",
                    &match table_cause(&st, &(0..cfg.tile).flat_map(|_| rows.iter().cloned()).collect::<Vec<V>>(), &cfg) {
                        Some(c) => c.to_string(),
                        None => format!("file/unclassified/{}/{}/{}/tiled/panic/{}", cfg.version, cfg.structural, cfg.leaf, val::msg_class(&p)),
                    },
                    format!("stack {} rows {}: panic: {p}", stack_name(&st), Value::Array(rows.iter().map(|r| r.to_json()).collect())),
                    case_json(&st, &rows, &cfg, &json!(null)),
                )),
            }
            (cov, viol)
        });
        for (c, v) in res {
            cov.merge(c);
            viol.extend(v);
        }
    }
    // long-list family: rows spanning several mini-block chunks (random access through all-preamble chunks)
    let long_scope = crate::longlist::run(ctx, &["2.1", "2.2"], cov, viol);
    eprintln!("[c27] long-list family done at {:.1}s", ctx.elapsed_s());
    cov.sample(case_json(
        &[Layer::List, Layer::Struct],
        &[V::List(vec![V::Struct(Box::new(V::Null)), V::Null]), V::Null, V::List(vec![])],
        &FileCfg { version: "2.1", structural: "fullzip", leaf: "utf8", large_lists: false, split: 0, tile: 1, pages: false },
        &json!({"indices":[0,2]}),
    ));
    json!({"long_list_family": long_scope, "per_stack": scope, "configs": cfgs.iter().map(|c| c.to_json()).collect::<Vec<_>>(), "tiled_files": tiled_files,
           "reads_per_file": "full + every non-empty row subset as indices and as ranges (batch sizes 1024 and 1)",
           "capped": capped.load(std::sync::atomic::Ordering::SeqCst)})
}
