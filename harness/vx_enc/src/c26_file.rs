//! C26 – codecs that the compression traits do not expose on their own (packed struct, constant,
//! FSL value encoding, dictionary pages, parameterised general / RLE / BSS wrapping) are pinned
//! through the narrowest public seam: field metadata on a one-column 2.1 / 2.2 file.

use crate::fio::{self, Fs, Req, WriteCfg};
use crate::val;
use arrow_array::{
    ArrayRef, FixedSizeListArray, Float32Array, Float64Array, Int32Array, Int64Array, RecordBatch, StringArray, StructArray,
};
use arrow_buffer::NullBuffer;
use arrow_schema::{DataType, Field, Fields, Schema};
use serde_json::{json, Value};
use std::collections::HashMap;
use std::sync::Arc;
use vcore::{Cov, Ctx, Violation};

const SHAPES: [&str; 10] = [
    "packed_fixed", "packed_var", "fsl_items_null", "fsl_all_items_null", "fsl_plain", "dict_utf8", "general_int", "general_utf8", "rle_int", "bss_float",
];

fn meta(pairs: &[(&str, &str)]) -> HashMap<String, String> {
    pairs.iter().map(|(k, v)| (k.to_string(), v.to_string())).collect()
}

/// (field, array) for one shape
fn build(shape: &str, n: usize, structural: &str, param: &str) -> (Field, ArrayRef) {
    let ints = |mul: i32| -> Int32Array { Int32Array::from((0..n as i32).map(|i| if i % 7 == 3 { None } else { Some(i.wrapping_mul(mul)) }).collect::<Vec<_>>()) };
    let mut m: Vec<(&str, &str)> = vec![];
    if structural != "default" {
        m.push((lance_encoding::constants::STRUCTURAL_ENCODING_META_KEY, structural));
    }
    match shape {
        "packed_fixed" | "packed_var" => {
            let a: ArrayRef = Arc::new(Int32Array::from((0..n as i32).collect::<Vec<_>>()));
            let b: ArrayRef = Arc::new(Int64Array::from((0..n as i64).map(|i| i * 1_000_003).collect::<Vec<_>>()));
            let mut fields = vec![Field::new("a", DataType::Int32, false), Field::new("b", DataType::Int64, false)];
            let mut cols = vec![a, b];
            if shape == "packed_var" {
                fields.push(Field::new("s", DataType::Utf8, false));
                cols.push(Arc::new(StringArray::from((0..n).map(|i| format!("v{}", "x".repeat(i % 5))).collect::<Vec<_>>())));
            }
            let fields = Fields::from(fields);
            let arr = StructArray::new(fields.clone(), cols, None);
            m.push((lance_encoding::constants::PACKED_STRUCT_META_KEY, "true"));
            (Field::new("x", DataType::Struct(fields), false).with_metadata(meta(&m)), Arc::new(arr))
        }
        "fsl_items_null" | "fsl_all_items_null" | "fsl_plain" => {
            let items: Int32Array = match shape {
                "fsl_items_null" => Int32Array::from((0..2 * n as i32).map(|i| if i % 3 == 1 { None } else { Some(i) }).collect::<Vec<_>>()),
                "fsl_all_items_null" => Int32Array::from(vec![None::<i32>; 2 * n]),
                _ => Int32Array::from((0..2 * n as i32).collect::<Vec<_>>()),
            };
            let f = Arc::new(Field::new("item", DataType::Int32, true));
            let nulls = if shape == "fsl_plain" { None } else { Some(NullBuffer::from((0..n).map(|i| i % 5 != 4).collect::<Vec<_>>())) };
            let arr = FixedSizeListArray::new(f.clone(), 2, Arc::new(items), nulls);
            (Field::new("x", DataType::FixedSizeList(f, 2), true).with_metadata(meta(&m)), Arc::new(arr))
        }
        "dict_utf8" => {
            let arr = StringArray::from((0..n).map(|i| if i % 11 == 5 { None } else { Some(format!("category-{}", i % 4)) }).collect::<Vec<_>>());
            (Field::new("x", DataType::Utf8, true).with_metadata(meta(&m)), Arc::new(arr))
        }
        "general_int" => {
            m.push((lance_encoding::constants::COMPRESSION_META_KEY, param));
            (Field::new("x", DataType::Int32, true).with_metadata(meta(&m)), Arc::new(ints(2_654_435)))
        }
        "general_utf8" => {
            m.push((lance_encoding::constants::COMPRESSION_META_KEY, param));
            let arr = StringArray::from((0..n).map(|i| if i % 13 == 2 { None } else { Some(format!("row {} of the table {}", i, "z".repeat(i % 9))) }).collect::<Vec<_>>());
            (Field::new("x", DataType::Utf8, true).with_metadata(meta(&m)), Arc::new(arr))
        }
        "rle_int" => {
            m.push((lance_encoding::constants::RLE_THRESHOLD_META_KEY, param));
            let arr = Int64Array::from((0..n as i64).map(|i| Some((i / 300) * 17)).collect::<Vec<_>>());
            (Field::new("x", DataType::Int64, true).with_metadata(meta(&m)), Arc::new(arr))
        }
        "bss_float" => {
            m.push((lance_encoding::constants::BSS_META_KEY, param));
            m.push((lance_encoding::constants::COMPRESSION_META_KEY, "lz4"));
            if n % 2 == 0 {
                let arr = Float32Array::from((0..n).map(|i| Some(1.0f32 + (i as f32) * 0.001)).collect::<Vec<_>>());
                (Field::new("x", DataType::Float32, true).with_metadata(meta(&m)), Arc::new(arr))
            } else {
                let arr = Float64Array::from((0..n).map(|i| if i % 17 == 0 { Some(f64::NAN) } else { Some(-0.0f64 + (i as f64) * 1e-9) }).collect::<Vec<_>>());
                (Field::new("x", DataType::Float64, true).with_metadata(meta(&m)), Arc::new(arr))
            }
        }
        _ => unreachable!(),
    }
}

fn params_of(shape: &str) -> Vec<&'static str> {
    match shape {
        "general_int" | "general_utf8" => vec!["lz4", "zstd", "none"],
        "rle_int" => vec!["1.0", "0.0"],
        "bss_float" => vec!["on", "off", "auto"],
        _ => vec![""],
    }
}

async fn check(fs: &Fs, shape: &str, n: usize, structural: &str, param: &str, version: &'static str) -> (Vec<(String, String)>, Vec<String>) {
    let mut fails = vec![];
    let mut layouts = vec![];
    let (field, arr) = build(shape, n, structural, param);
    let schema = Arc::new(Schema::new(vec![field]));
    let batch = RecordBatch::try_new(schema.clone(), vec![arr]).expect("well-formed batch");
    let expected = val::batch_rows(&batch).unwrap_or_else(|e| vcore::machinery_error(&e));
    let path = fs.fresh_path();
    if let Err(e) = fio::write_file(fs, &path, &schema, &[batch], &WriteCfg::v(version)).await {
        // a writer that refuses a configuration is recorded, not judged
        layouts.push(format!("refused: {}", e.chars().filter(|c| !c.is_ascii_digit()).take(90).collect::<String>()));
        fs.delete(&path).await;
        return (fails, layouts);
    }
    let reader = match fio::open(fs, &path).await {
        Ok(r) => r,
        Err(e) => {
            fails.push(("open/error".into(), e));
            return (fails, layouts);
        }
    };
    for cm in reader.metadata().column_metadatas.iter() {
        for p in &cm.pages {
            let d = lance_file::reader::describe_encoding(p);
            for tag in ["PackedStruct", "VariablePackedStruct", "Constant", "FixedSizeList", "Dictionary", "dictionary: Some", "General", "Rle", "ByteStreamSplit", "Fsst", "InlineBitpacking", "FullZipLayout", "MiniBlockLayout", "AllNullLayout"] {
                if d.contains(tag) && !layouts.contains(&tag.to_string()) {
                    layouts.push(tag.to_string());
                }
            }
        }
    }
    let mut reqs = vec![Req::Full];
    if n >= 3 {
        reqs.push(Req::Range(0, 1));
        reqs.push(Req::Range(n - 1, n));
        reqs.push(Req::Ranges(vec![(0, 1), (n as u64 / 2, n as u64 / 2 + 2)]));
        reqs.push(Req::Indices(vec![0, (n / 2) as u32, (n - 1) as u32]));
    }
    for req in reqs {
        let want: Vec<&val::Val> = req.rows(n).iter().map(|i| &expected[*i]).collect();
        match fio::read(&reader, &req, 1024, None).await {
            Err(e) => fails.push((format!("{}/error/{}", req.kind(), val::msg_class(&e)), format!("read {req:?}: {e}"))),
            Ok(got) => match val::batches_rows(&got) {
                Err(e) => fails.push((format!("{}/malformed", req.kind()), e)),
                Ok(rows) => {
                    if rows.len() != want.len() {
                        fails.push((format!("{}/row-count", req.kind()), format!("read {req:?}: {} rows back, {} requested", rows.len(), want.len())));
                    } else if let Some(i) = (0..rows.len()).find(|i| &rows[*i] != want[*i]) {
                        fails.push((
                            format!("{}/value/{}", req.kind(), val::diff_path(&rows[i], want[i])),
                            format!("read {req:?}: row {i} is {} but the input row {} is {}", rows[i].short(), req.rows(n)[i], want[i].short()),
                        ));
                    }
                }
            },
        }
    }
    drop(reader);
    fs.delete(&path).await;
    (fails, layouts)
}

fn case_json(shape: &str, n: usize, structural: &str, param: &str, version: &str) -> Value {
    json!({"kind":"codec_file","shape":shape,"n":n,"structural":structural,"param":param,"version":version})
}

fn run_case(shape: &'static str, n: usize, structural: &'static str, param: &'static str, version: &'static str, cov: &mut Cov, viol: &mut Vec<Violation>) {
    let case = case_json(shape, n, structural, param, version);
    let r = vcore::catch(|| {
        vstore::block_on(async {
            let fs = Fs::new();
            check(&fs, shape, n, structural, param, version).await
        })
    });
    cov.eval(Some(vcore::hash64(case.to_string().as_bytes())));
    match r {
        Ok((fails, layouts)) => {
            for l in &layouts {
                cov.outcome(&format!("file/{shape}/{l}"));
                // codec tags for the vacuity guard of c26::run
                if l == "PackedStruct" || l == "VariablePackedStruct" {
                    cov.outcome("file-codec/packedstruct");
                }
                if l == "Constant" {
                    cov.outcome("file-codec/constant");
                }
                if l.to_lowercase().contains("dictionary") {
                    cov.outcome("file-codec/dictionary-page");
                }
            }
            if fails.is_empty() {
                cov.outcome("file/ok");
            }
            for (k, d) in fails {
                cov.outcome("file/FAIL");
                let key = if shape == "fsl_items_null" && structural == "fullzip" {
                    "fullzip/fsl-with-null-items-unreadable".to_string()
                } else {
                    format!("codec-file/unclassified/{version}/{shape}/{structural}/{}{k}", if param.is_empty() { String::new() } else { format!("{param}/") })
                };
                viol.push(Violation::new("codec-file-roundtrip", &key, format!("{case}: [{k}] {d}"), case.clone()));
            }
        }
        Err(p) => {
            cov.outcome("file/PANIC");
            let key = if shape == "fsl_all_items_null" {
                "fsl/all-items-null-cannot-be-written".to_string()
            } else {
                format!("codec-file/unclassified/{version}/{shape}/{structural}/panic/{}", val::msg_class(&p))
            };
            viol.push(Violation::new("codec-file-roundtrip", &key, format!("{case}: panic: {p}"), case));
        }
    }
}

fn pick<'a>(v: &Value, key: &str, opts: &[&'static str]) -> Option<&'static str> {
    let s = v[key].as_str()?;
    opts.iter().find(|o| **o == s).copied()
}

pub fn replay(case: &Value, cov: &mut Cov, viol: &mut Vec<Violation>) {
    let shape = pick(case, "shape", &SHAPES).unwrap_or_else(|| vcore::machinery_error("bad shape"));
    let structural = pick(case, "structural", &["default", "miniblock", "fullzip"]).unwrap_or_else(|| vcore::machinery_error("bad structural"));
    let param = pick(case, "param", &["", "lz4", "zstd", "none", "1.0", "0.0", "on", "off", "auto"]).unwrap_or_else(|| vcore::machinery_error("bad param"));
    let version = pick(case, "version", &["2.1", "2.2"]).unwrap_or_else(|| vcore::machinery_error("bad version"));
    let n = case["n"].as_u64().unwrap_or(1) as usize;
    run_case(shape, n, structural, param, version, cov, viol);
}

pub fn run(ctx: &Ctx, cov: &mut Cov, viol: &mut Vec<Violation>) -> Value {
    let ns: Vec<usize> = ctx.tier.pick(vec![1, 3, 1025, 5000], vec![1, 2, 3, 100, 1024, 1025, 4097, 5000, 20_000]);
    let mut jobs = vec![];
    for version in ["2.1", "2.2"] {
        for shape in SHAPES {
            for structural in ["default", "miniblock", "fullzip"] {
                for param in params_of(shape) {
                    for n in &ns {
                        jobs.push((shape, *n, structural, param, version));
                    }
                }
            }
        }
    }
    let total = jobs.len();
    let res = vcore::par_map(jobs, ctx.workers, |_, (shape, n, structural, param, version)| {
        let mut cov = Cov::new();
        let mut viol = vec![];
        run_case(shape, n, structural, param, version, &mut cov, &mut viol);
        (cov, viol)
    });
    for (c, v) in res {
        cov.merge(c);
        viol.extend(v);
    }
    json!({"files": total, "shapes": SHAPES, "n": ns, "structural": ["default","miniblock","fullzip"], "versions": ["2.1","2.2"],
           "reads": "full, first row, last row, two ranges, three indices"})
}
