//! Lance file writer / reader driver over an in-memory object store (shared by C25, C26, C27).

use arrow_array::{RecordBatch, UInt32Array};
use arrow_schema::Schema as ArrowSchema;
use futures::TryStreamExt;
use lance_core::cache::LanceCache;
use lance_core::datatypes::Schema as LanceSchema;
use lance_encoding::decoder::{DecoderPlugins, FilterExpression};
use lance_encoding::version::LanceFileVersion;
use lance_file::reader::{FileReader, FileReaderOptions, ReaderProjection};
use lance_file::writer::{FileWriter, FileWriterOptions};
use lance_io::object_store::ObjectStore;
use lance_io::scheduler::{ScanScheduler, SchedulerConfig};
use lance_io::utils::CachedFileSize;
use lance_io::ReadBatchParams;
use object_store::path::Path;
use std::sync::Arc;

pub fn version_of(name: &str) -> LanceFileVersion {
    match name {
        "2.0" => LanceFileVersion::V2_0,
        "2.1" => LanceFileVersion::V2_1,
        "2.2" => LanceFileVersion::V2_2,
        "0.1" => LanceFileVersion::Legacy,
        other => vcore::machinery_error(&format!("unknown file version {other}")),
    }
}

#[derive(Clone, Debug)]
pub struct WriteCfg {
    pub version: &'static str,
    pub max_page_bytes: Option<u64>,
    pub data_cache_bytes: Option<u64>,
}

impl WriteCfg {
    pub fn v(version: &'static str) -> Self {
        Self { version, max_page_bytes: None, data_cache_bytes: None }
    }
}

/// One in-memory store + scan scheduler (create inside `vstore::block_on`, the scheduler spawns its
/// I/O loop on the current runtime).
pub struct Fs {
    pub store: Arc<ObjectStore>,
    pub scheduler: Arc<ScanScheduler>,
    counter: std::cell::Cell<u64>,
}

impl Fs {
    pub fn new() -> Self {
        let store = Arc::new(ObjectStore::memory());
        let scheduler = ScanScheduler::new(store.clone(), SchedulerConfig::default_for_testing());
        Self { store, scheduler, counter: std::cell::Cell::new(0) }
    }
    pub fn fresh_path(&self) -> Path {
        let n = self.counter.get();
        self.counter.set(n + 1);
        Path::from(format!("f{n}.lance"))
    }
    pub async fn delete(&self, p: &Path) {
        let _ = self.store.delete(p).await;
    }
}

/// Write `batches` (all with `schema`) as one file. Returns the row count reported by `finish`.
pub async fn write_file(fs: &Fs, path: &Path, schema: &ArrowSchema, batches: &[RecordBatch], cfg: &WriteCfg) -> Result<u64, String> {
    let lance_schema = LanceSchema::try_from(schema).map_err(|e| format!("schema: {e}"))?;
    let writer = fs.store.create(path).await.map_err(|e| format!("create: {e}"))?;
    let opts = FileWriterOptions {
        format_version: Some(version_of(cfg.version)),
        max_page_bytes: cfg.max_page_bytes,
        data_cache_bytes: cfg.data_cache_bytes,
        ..Default::default()
    };
    let mut w = FileWriter::try_new(writer, lance_schema, opts).map_err(|e| format!("writer: {e}"))?;
    for b in batches {
        w.write_batch(b).await.map_err(|e| format!("write_batch: {e}"))?;
    }
    w.finish().await.map_err(|e| format!("finish: {e}"))
}

pub async fn open(fs: &Fs, path: &Path) -> Result<FileReader, String> {
    let fsched = fs
        .scheduler
        .open_file(path, &CachedFileSize::unknown())
        .await
        .map_err(|e| format!("open_file: {e}"))?;
    FileReader::try_open(fsched, None, Arc::<DecoderPlugins>::default(), &LanceCache::no_cache(), FileReaderOptions::default())
        .await
        .map_err(|e| format!("try_open: {e}"))
}

/// A read request in replayable form.
#[derive(Clone, Debug, PartialEq, Eq)]
pub enum Req {
    Full,
    Range(usize, usize),
    Ranges(Vec<(u64, u64)>),
    Indices(Vec<u32>),
}

impl Req {
    pub fn params(&self) -> ReadBatchParams {
        match self {
            Req::Full => ReadBatchParams::RangeFull,
            Req::Range(a, b) => ReadBatchParams::Range(*a..*b),
            Req::Ranges(r) => ReadBatchParams::Ranges(r.iter().map(|(a, b)| *a..*b).collect::<Vec<_>>().into()),
            Req::Indices(i) => ReadBatchParams::Indices(UInt32Array::from(i.clone())),
        }
    }
    /// the row numbers the request selects, in order
    pub fn rows(&self, n: usize) -> Vec<usize> {
        match self {
            Req::Full => (0..n).collect(),
            Req::Range(a, b) => (*a..*b).collect(),
            Req::Ranges(r) => r.iter().flat_map(|(a, b)| (*a as usize)..(*b as usize)).collect(),
            Req::Indices(i) => i.iter().map(|x| *x as usize).collect(),
        }
    }
    pub fn kind(&self) -> &'static str {
        match self {
            Req::Full => "full",
            Req::Range(..) => "range",
            Req::Ranges(..) => "ranges",
            Req::Indices(..) => "indices",
        }
    }
    pub fn to_json(&self) -> serde_json::Value {
        match self {
            Req::Full => serde_json::json!({"full":true}),
            Req::Range(a, b) => serde_json::json!({"range":[a,b]}),
            Req::Ranges(r) => serde_json::json!({"ranges":r}),
            Req::Indices(i) => serde_json::json!({"indices":i}),
        }
    }
    pub fn from_json(v: &serde_json::Value) -> Option<Self> {
        if v.get("full").is_some() {
            return Some(Req::Full);
        }
        if let Some(r) = v.get("range") {
            return Some(Req::Range(r[0].as_u64()? as usize, r[1].as_u64()? as usize));
        }
        if let Some(r) = v.get("ranges") {
            return Some(Req::Ranges(
                r.as_array()?.iter().map(|x| Some((x[0].as_u64()?, x[1].as_u64()?))).collect::<Option<Vec<_>>>()?,
            ));
        }
        if let Some(r) = v.get("indices") {
            return Some(Req::Indices(r.as_array()?.iter().map(|x| x.as_u64().map(|y| y as u32)).collect::<Option<Vec<_>>>()?));
        }
        None
    }
}

pub async fn read(reader: &FileReader, req: &Req, batch_size: u32, projection: Option<ReaderProjection>) -> Result<Vec<RecordBatch>, String> {
    let stream = match projection {
        Some(p) => reader.read_stream_projected(req.params(), batch_size, 2, p, FilterExpression::no_filter()),
        None => reader.read_stream(req.params(), batch_size, 2, FilterExpression::no_filter()),
    }
    .map_err(|e| format!("read_stream: {e}"))?;
    stream.try_collect::<Vec<_>>().await.map_err(|e| format!("stream: {e}"))
}
