//! vx_sets: checks over lance-core / lance-table set, sequence, naming, flag and schema algebra code.
mod c21;
mod c21_expr;
mod c33;
mod c34;
mod c37;
mod c37_ds;
mod c43;

use vcore::{machinery_error, Ctx};

fn main() {
    let ctx = Ctx::from_args();
    vcore::quiet_panics();
    let out = match ctx.id.as_str() {
        "C21" => c21::run(&ctx),
        "C33" => c33::run(&ctx),
        "C34" => c34::run(&ctx),
        "C37" => c37::run(&ctx),
        "C43" => c43::run(&ctx),
        other => machinery_error(&format!("vx_sets does not implement {other}")),
    };
    vcore::finish(&ctx, out);
}
