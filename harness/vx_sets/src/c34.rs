//! C34 – row id sequences and the row id index are faithful (K5, exhaustive small scope).
//!
//! Subject = a `RowIdSequence` built by `extend`ing one sequence per chunk (`From<&[u64]>`), model =
//! the concatenated `Vec<u64>`. Subjects: (S1) every duplicate-free list of length <= L over
//! {0,1,2,3,5,8,u64::MAX-1,u64::MAX}; (S2) one chunk per segment encoding (Range, RangeWithHoles,
//! RangeWithBitmap, SortedArray u16/u32/u64, Array); (S3) every ordered selection of 2..=3 chunks of a
//! pool with one chunk per encoding. Operations, each against the same operation on the list:
//! iter / rev / len / is_empty / get(every i) / serde / RowIdTreeMap::from, every slice, delete(every
//! subset of (probe) ids + an absent id, ascending and descending), mask(every subset of (probe)
//! positions), select(every sorted index list <= 3, out-of-bounds included), rechunk_sequences(every
//! composition of n, plus wrong totals), mask_to_offset_ranges(every allow / block list over probe
//! ids), select_row_ids(every ReadBatchParams shape), U64Segment position / contains / range /
//! with_new_high. (I) `RowIdIndex`: every ordered selection of 1..=3 fragments of a pool (contiguous,
//! interleaved, unsorted, sparse, multi-segment, empty) x deletion vectors: get(id) for every present,
//! deleted, neighbouring and absent id.

use lance_core::utils::address::RowAddress;
use lance_core::utils::deletion::DeletionVector;
use lance_core::utils::mask::{RowIdMask, RowIdTreeMap};
use lance_io::ReadBatchParams;
use lance_table::rowids::segment::U64Segment;
use lance_table::rowids::{
    read_row_ids, rechunk_sequences, select_row_ids, write_row_ids, FragmentRowIdIndex, RowIdIndex,
    RowIdSequence,
};
use serde::{Deserialize, Serialize};
use serde_json::{json, Value};
use std::collections::{BTreeMap, BTreeSet};
use std::sync::Arc;
use vcore::{Cov, Ctx, Outcome, Violation};

const MAXID: u64 = u64::MAX;

#[derive(Clone, Debug, Serialize, Deserialize, PartialEq)]
enum Params {
    Indices(Vec<u32>),
    Range(usize, usize),
    Ranges(Vec<(u64, u64)>),
    Full,
    To(usize),
    From(usize),
}

#[derive(Clone, Debug, Serialize, Deserialize, PartialEq)]
enum Op {
    Observe,
    Slice { o: usize, l: usize },
    Delete { ids: Vec<u64> },
    Mask { pos: Vec<u32> },
    Select { idx: Vec<usize> },
    /// `merged`: pass the subject as one sequence, otherwise one sequence per chunk
    Rechunk { sizes: Vec<u64>, allow: bool, merged: bool },
    OffsetRanges { allow: Option<Vec<u64>>, block: Option<Vec<u64>> },
    SelectRowIds { p: Params },
    Segment,
    NewHigh { val: u64 },
}

impl Op {
    fn name(&self) -> &'static str {
        match self {
            Op::Observe => "observe",
            Op::Slice { .. } => "slice",
            Op::Delete { .. } => "delete",
            Op::Mask { .. } => "mask",
            Op::Select { .. } => "select",
            Op::Rechunk { .. } => "rechunk",
            Op::OffsetRanges { .. } => "mask_to_offset_ranges",
            Op::SelectRowIds { .. } => "select_row_ids",
            Op::Segment => "segment",
            Op::NewHigh { .. } => "with_new_high",
        }
    }
}

type Fail = (String, String); // (class, detail)

const W16: u64 = 1 << 16;
const W32: u64 = 1 << 32;

/// ids to look up: every id (or, for long sequences, the ids at the probe positions) with its
/// neighbours and its aliases one / two offset-widths away (x ± 2^16, x ± 2^17, x ± 2^32)
fn lookup_probes(chunks: &[Vec<u64>], model: &[u64]) -> BTreeSet<u64> {
    let base: Vec<u64> = if model.len() <= 1000 { model.to_vec() } else { probe_positions(chunks).into_iter().map(|i| model[i]).collect() };
    let mut probes: BTreeSet<u64> = BTreeSet::new();
    for m in base {
        probes.insert(m);
        for d in [1, W16, 2 * W16, W32] {
            if let Some(x) = m.checked_add(d) {
                probes.insert(x);
            }
            if let Some(x) = m.checked_sub(d) {
                probes.insert(x);
            }
        }
    }
    probes
}

/// positions at which `get` is compared: all for short sequences, probe positions otherwise
fn get_positions(chunks: &[Vec<u64>], n: usize) -> Vec<usize> {
    if n <= 1000 {
        (0..n + 2).collect()
    } else {
        let mut v = probe_positions(chunks);
        v.push(n);
        v.push(n + 1);
        v
    }
}

fn seg_kind(chunk: &[u64]) -> &'static str {
    match vcore::catch(|| U64Segment::from_slice(chunk)) {
        Err(_) => "Unbuildable",
        Ok(U64Segment::Range(r)) => if r.is_empty() { "Empty" } else { "Range" },
        Ok(U64Segment::RangeWithHoles { .. }) => "RangeWithHoles",
        Ok(U64Segment::RangeWithBitmap { .. }) => "RangeWithBitmap",
        Ok(U64Segment::SortedArray(_)) => "SortedArray",
        Ok(U64Segment::Array(_)) => "Array",
    }
}

fn build(chunks: &[Vec<u64>]) -> RowIdSequence {
    let mut s = RowIdSequence::new();
    for c in chunks {
        s.extend(RowIdSequence::from(c.as_slice()));
    }
    s
}

fn tree(ids: &[u64]) -> RowIdTreeMap {
    let mut t = RowIdTreeMap::new();
    for i in ids {
        t.insert(*i);
    }
    t
}

fn group(offsets: impl Iterator<Item = u64>) -> Vec<std::ops::Range<u64>> {
    let mut out: Vec<std::ops::Range<u64>> = vec![];
    for o in offsets {
        match out.last_mut() {
            Some(r) if r.end == o => r.end = o + 1,
            _ => out.push(o..o + 1),
        }
    }
    out
}

fn short(v: &[u64]) -> String {
    if v.len() <= 12 { format!("{v:?}") } else { format!("[{} ids: {:?}..{:?}]", v.len(), &v[..4], &v[v.len() - 3..]) }
}

/// Execute one op on the subject; Err((class, detail)) when the implementation disagrees with the list.
fn run_op(chunks: &[Vec<u64>], op: &Op) -> Result<(), Fail> {
    let model: Vec<u64> = chunks.iter().flatten().copied().collect();
    let n = model.len();
    let r = vcore::catch(|| -> Result<(), Fail> {
        thread_local! {
            static LAST: std::cell::RefCell<Option<(u64, RowIdSequence)>> = const { std::cell::RefCell::new(None) };
        }
        // long subjects: build (and compare with the model) once per subject and thread, then clone
        let fp = if n > 1000 { Some(vcore::hash64(format!("{:?}{:?}", chunks.iter().map(|c| (c.len(), c.first().copied(), c.last().copied(), c.get(11).copied(), c.get(c.len() / 2).copied())).collect::<Vec<_>>(), n).as_bytes())) } else { None };
        let cached = fp.and_then(|f| LAST.with(|l| l.borrow().as_ref().filter(|(k, _)| *k == f).map(|(_, s)| s.clone())));
        let seq = match cached {
            Some(s) => s,
            None => {
                let seq = build(chunks);
                let got: Vec<u64> = seq.iter().collect();
                if got != model {
                    let first = got.iter().zip(model.iter()).position(|(a, b)| a != b).unwrap_or(got.len().min(model.len()));
                    return Err(("build-wrong-ids".into(), format!("built from {} iterates as {} (first difference at position {first}: expected {:?}, got {:?}; {} vs {} ids)", short(&model), short(&got), model.get(first), got.get(first), model.len(), got.len())));
                }
                if let Some(f) = fp {
                    LAST.with(|l| *l.borrow_mut() = Some((f, seq.clone())));
                }
                seq
            }
        };
        match op {
            Op::Observe => {
                if seq.len() != n as u64 {
                    return Err(("len".into(), format!("len() = {} for {n} ids", seq.len())));
                }
                let mut back: Vec<u64> = seq.iter().rev().collect();
                back.reverse();
                if back != model {
                    return Err(("rev-iter".into(), format!("reverse iteration gives {}", short(&back))));
                }
                for i in get_positions(chunks, n) {
                    let want = model.get(i).copied();
                    if seq.get(i) != want {
                        return Err(("get".into(), format!("get({i}) = {:?}, expected {want:?}", seq.get(i))));
                    }
                }
                let bytes = write_row_ids(&seq);
                match read_row_ids(&bytes) {
                    Ok(b) => {
                        if b.iter().collect::<Vec<_>>() != model || b != seq {
                            return Err(("serde-differs".into(), format!("read(write(seq)) = {b:?}")));
                        }
                    }
                    Err(e) => return Err(("serde-error".into(), e.to_string())),
                }
                let t = RowIdTreeMap::from(&seq);
                let probes = lookup_probes(chunks, &model);
                let idset: std::collections::HashSet<u64> = model.iter().copied().collect();
                for p in probes {
                    if t.contains(p) != idset.contains(&p) {
                        return Err(("treemap-membership".into(), format!("RowIdTreeMap::from(seq).contains({p}) = {}", t.contains(p))));
                    }
                }
                if t.len() != Some(n as u64) {
                    return Err(("treemap-len".into(), format!("RowIdTreeMap::from(seq).len() = {:?}", t.len())));
                }
                if seq.is_empty() != (n == 0) {
                    return Err(("is_empty-disagrees-with-len".into(), format!("is_empty() = {} with {n} ids", seq.is_empty())));
                }
            }
            Op::Slice { o, l } => {
                let got: Vec<u64> = seq.slice(*o, *l).iter().collect();
                if got != model[*o..*o + *l] {
                    return Err(("wrong-ids".into(), format!("slice({o},{l}) = {}", short(&got))));
                }
            }
            Op::Delete { ids } => {
                let mut s = seq.clone();
                s.delete(ids.iter().copied());
                let idset: std::collections::HashSet<u64> = ids.iter().copied().collect();
                let want: Vec<u64> = model.iter().copied().filter(|x| !idset.contains(x)).collect();
                let got: Vec<u64> = s.iter().collect();
                if got != want {
                    return Err(("wrong-ids".into(), format!("after delete({ids:?}) = {}, expected {}", short(&got), short(&want))));
                }
                if s.len() != want.len() as u64 {
                    return Err(("len-after".into(), format!("len() = {} after delete, {} ids left", s.len(), want.len())));
                }
            }
            Op::Mask { pos } => {
                let mut s = seq.clone();
                if let Err(e) = s.mask(pos.iter().copied()) {
                    return Err(("error".into(), e.to_string()));
                }
                let posset: std::collections::HashSet<u32> = pos.iter().copied().collect();
                let want: Vec<u64> = model.iter().enumerate().filter(|(i, _)| !posset.contains(&(*i as u32))).map(|(_, x)| *x).collect();
                let got: Vec<u64> = s.iter().collect();
                if got != want {
                    return Err(("wrong-ids".into(), format!("after mask({pos:?}) = {}, expected {}", short(&got), short(&want))));
                }
                if s.len() != want.len() as u64 {
                    return Err(("len-after".into(), format!("len() = {} after mask, {} ids left", s.len(), want.len())));
                }
                if s.is_empty() != want.is_empty() {
                    return Err(("is_empty-after".into(), format!("is_empty() = {} with {} ids left", s.is_empty(), want.len())));
                }
            }
            Op::Select { idx } => {
                let got: Vec<u64> = seq.select(idx.iter().copied()).collect();
                let want: Vec<u64> = idx.iter().filter_map(|i| model.get(*i).copied()).collect();
                if got != want {
                    return Err(("wrong-ids".into(), format!("select({idx:?}) = {got:?}, expected {want:?}")));
                }
            }
            Op::Rechunk { sizes, allow, merged } => {
                let seqs: Vec<RowIdSequence> = if *merged { vec![seq.clone()] } else { chunks.iter().map(|c| RowIdSequence::from(c.as_slice())).collect() };
                let total: u64 = sizes.iter().sum();
                let res = rechunk_sequences(seqs, sizes.iter().copied(), *allow);
                let expect_ok = total == n as u64 || (*allow && total > n as u64);
                match res {
                    Err(e) => {
                        if expect_ok {
                            return Err(("unexpected-error".into(), format!("rechunk({sizes:?}, allow_incomplete={allow}) over {n} ids: {e}")));
                        }
                    }
                    Ok(out) => {
                        if !expect_ok {
                            let c = if total < n as u64 { "drops-ids-silently" } else { "incomplete-accepted" };
                            return Err((c.into(), format!("rechunk({sizes:?}, allow_incomplete={allow}) over {n} ids returned Ok")));
                        }
                        if out.len() != sizes.len() {
                            return Err(("chunk-count".into(), format!("{} chunks for {} sizes", out.len(), sizes.len())));
                        }
                        let mut off = 0usize;
                        for (c, sz) in out.iter().zip(sizes.iter()) {
                            let want: Vec<u64> = model[off.min(n)..(off + *sz as usize).min(n)].to_vec();
                            let got: Vec<u64> = c.iter().collect();
                            if got != want {
                                return Err(("wrong-ids".into(), format!("rechunk({sizes:?}) chunk at {off} = {}, expected {}", short(&got), short(&want))));
                            }
                            if c.len() != want.len() as u64 {
                                return Err(("chunk-len".into(), format!("chunk len() = {}, holds {}", c.len(), want.len())));
                            }
                            off += *sz as usize;
                        }
                    }
                }
            }
            Op::OffsetRanges { allow, block } => {
                let mask = RowIdMask { allow_list: allow.as_ref().map(|a| tree(a)), block_list: block.as_ref().map(|b| tree(b)) };
                let got = seq.mask_to_offset_ranges(&mask);
                let aset: Option<std::collections::HashSet<u64>> = allow.as_ref().map(|a| a.iter().copied().collect());
                let bset: Option<std::collections::HashSet<u64>> = block.as_ref().map(|b| b.iter().copied().collect());
                let sel = |x: u64| aset.as_ref().map(|a| a.contains(&x)).unwrap_or(true) && !bset.as_ref().map(|b| b.contains(&x)).unwrap_or(false);
                let want = group(model.iter().enumerate().filter(|(_, x)| sel(**x)).map(|(i, _)| i as u64));
                // adjacent ranges need not be coalesced (one group per segment): compare the offsets
                let flat = |rs: &[std::ops::Range<u64>]| -> Vec<u64> { rs.iter().flat_map(|r| r.clone()).collect() };
                if got.iter().any(|r| r.start >= r.end) {
                    return Err(("empty-or-inverted-range".into(), format!("mask_to_offset_ranges(allow={allow:?}, block={block:?}) = {got:?}")));
                }
                if flat(&got) != flat(&want) {
                    return Err(("wrong-offsets".into(), format!("mask_to_offset_ranges(allow={allow:?}, block={block:?}) = {got:?}, expected {want:?}")));
                }
            }
            Op::SelectRowIds { p } => {
                let (params, want): (ReadBatchParams, Option<Vec<u64>>) = match p {
                    Params::Indices(ix) => (ReadBatchParams::Indices(arrow_array::UInt32Array::from(ix.clone())),
                        ix.iter().map(|i| model.get(*i as usize).copied()).collect()),
                    Params::Range(a, b) => (ReadBatchParams::Range(*a..*b), if *b <= n && a <= b { Some(model[*a..*b].to_vec()) } else { None }),
                    Params::Ranges(rs) => (ReadBatchParams::Ranges(rs.iter().map(|(a, b)| *a..*b).collect::<Vec<_>>().into()),
                        if rs.iter().all(|(a, b)| *b as usize <= n && a <= b) { Some(rs.iter().flat_map(|(a, b)| model[*a as usize..*b as usize].to_vec()).collect()) } else { None }),
                    Params::Full => (ReadBatchParams::RangeFull, Some(model.clone())),
                    Params::To(t) => (ReadBatchParams::RangeTo(..*t), if *t <= n { Some(model[..*t].to_vec()) } else { None }),
                    Params::From(f) => (ReadBatchParams::RangeFrom(*f..), if *f <= n { Some(model[*f..].to_vec()) } else { None }),
                };
                match (select_row_ids(&seq, &params), want) {
                    (Ok(g), Some(w)) => {
                        if g != w {
                            return Err(("wrong-ids".into(), format!("select_row_ids({p:?}) = {}, expected {}", short(&g), short(&w))));
                        }
                    }
                    (Err(_), None) => {}
                    (Ok(g), None) => return Err(("out-of-bounds-accepted".into(), format!("select_row_ids({p:?}) over {n} ids = {}", short(&g)))),
                    (Err(e), Some(_)) => return Err(("unexpected-error".into(), format!("select_row_ids({p:?}) over {n} ids: {e}"))),
                }
            }
            Op::Segment => {
                // segment-level observers on the single chunk
                let seg = U64Segment::from_slice(&model);
                if seg.len() != n || seg.is_empty() != (n == 0) {
                    return Err(("len".into(), format!("segment len {} / is_empty {} for {n} ids", seg.len(), seg.is_empty())));
                }
                let want_range = model.iter().min().map(|mi| *mi..=*model.iter().max().unwrap());
                if seg.range() != want_range {
                    return Err(("range".into(), format!("range() = {:?}, expected {want_range:?}", seg.range())));
                }
                let probes = lookup_probes(chunks, &model);
                let posmap: std::collections::HashMap<u64, usize> = model.iter().enumerate().map(|(i, x)| (*x, i)).collect();
                for p in probes {
                    let want = posmap.get(&p).copied();
                    if seg.position(p) != want {
                        return Err(("position".into(), format!("position({p}) = {:?}, expected {want:?}", seg.position(p))));
                    }
                    if seg.contains(p) != want.is_some() {
                        return Err(("contains".into(), format!("contains({p}) = {}", seg.contains(p))));
                    }
                }
                for i in get_positions(chunks, n) {
                    if seg.get(i) != model.get(i).copied() {
                        return Err(("get".into(), format!("segment get({i}) = {:?}", seg.get(i))));
                    }
                }
            }
            Op::NewHigh { val } => {
                let seg = U64Segment::from_slice(&model);
                let max = model.iter().max().copied();
                let expect_ok = max.map(|m| *val > m).unwrap_or(true);
                match seg.with_new_high(*val) {
                    Ok(s2) => {
                        if !expect_ok {
                            return Err(("not-higher-accepted".into(), format!("with_new_high({val}) accepted, max is {max:?}")));
                        }
                        let mut want = model.clone();
                        want.push(*val);
                        let got: Vec<u64> = s2.iter().collect();
                        if got != want {
                            return Err(("wrong-ids".into(), format!("with_new_high({val}) = {}, expected {}", short(&got), short(&want))));
                        }
                        if s2.len() != want.len() || s2.position(*val) != Some(n) {
                            return Err(("len-or-position".into(), format!("after with_new_high({val}): len {} position {:?}", s2.len(), s2.position(*val))));
                        }
                    }
                    Err(e) => {
                        if expect_ok {
                            return Err(("unexpected-error".into(), format!("with_new_high({val}): {e}")));
                        }
                    }
                }
            }
        }
        Ok(())
    });
    match r {
        Ok(x) => x,
        Err(p) => {
            let class = if p.contains("attempt to add with overflow") {
                "panic-add-overflow"
            } else if p.contains("attempt to multiply with overflow") {
                "panic-mul-overflow"
            } else if p.contains("attempt to subtract with overflow") {
                "panic-sub-overflow"
            } else if p.contains("unwrap()") {
                "panic-unwrap"
            } else if p.contains("out of range") || p.contains("out of bounds") {
                "panic-index-out-of-bounds"
            } else {
                "panic-other"
            };
            Err((class.into(), p))
        }
    }
}

/// classification key for a failing (subject, op): op / failure class / the structural feature of the
/// subject that the failure class depends on (falls back to the segment encodings of the chunks)
fn key_of(chunks: &[Vec<u64>], op: &Op, class: &str) -> String {
    let model: Vec<u64> = chunks.iter().flatten().copied().collect();
    let n = model.len();
    let has_max = model.contains(&MAXID);
    let top_fragment = model.iter().any(|x| x >> 32 == u32::MAX as u64);
    let span = model.iter().max().zip(model.iter().min()).map(|(a, b)| a - b).unwrap_or(0);
    // ids at the very top of u64: the half-open Range<u64> representation cannot hold u64::MAX, the
    // size estimates overflow for sorted spans >= 2^62, RowIdTreeMap::insert_range overflows in the
    // last fragment (2^64-2^32..) -- whatever operation triggers the (re-)encoding
    if class == "panic-add-overflow" && (has_max || matches!(op, Op::NewHigh { val } if *val == MAXID)) {
        return "seq/encode/panic-add-overflow/id-u64-max".to_string();
    }
    if class == "panic-mul-overflow" && span >= 1u64 << 62 {
        return "seq/encode/panic-mul-overflow/id-span>=2^62".to_string();
    }
    if class == "panic-add-overflow" && top_fragment && matches!(op, Op::Observe | Op::OffsetRanges { .. }) {
        return "seq/treemap-insert_range/panic-add-overflow/id>=2^64-2^32".to_string();
    }
    let kinds: Vec<&str> = chunks.iter().map(|c| seg_kind(c)).collect();
    let shape = kinds.join("+");
    let extra = match op {
        Op::SelectRowIds { p } => match p {
            Params::Indices(_) => "/Indices",
            Params::Range(..) => "/Range",
            Params::Ranges(_) => "/Ranges",
            Params::Full => "/RangeFull",
            Params::To(_) => "/RangeTo",
            Params::From(_) => "/RangeFrom",
        },
        Op::Rechunk { merged, .. } => if *merged { "/one-sequence" } else { "/sequence-per-chunk" },
        _ => "",
    };
    let feature: String = match (op, class) {
        (Op::OffsetRanges { .. }, "panic-unwrap" | "wrong-offsets")
            if chunks.iter().enumerate().any(|(i, c)| seg_kind(c) == "RangeWithBitmap" && chunks[..i].iter().any(|p| !p.is_empty())) =>
            "bitmap-segment-after-other-ids".into(),
        (Op::Rechunk { .. }, "unexpected-error") if chunks.last().map(|c| c.is_empty()).unwrap_or(false) && chunks.len() > 1 => "trailing-empty-segment".into(),
        (Op::Rechunk { .. }, "unexpected-error") if n == 0 => "only-empty-segments".into(),
        (Op::SelectRowIds { p: Params::From(f) }, "panic-sub-overflow") if *f > n => "start-beyond-len".into(),
        (Op::Observe, "treemap-membership")
            if chunks.iter().enumerate().any(|(i, c)| {
                matches!(seg_kind(c), "RangeWithBitmap" | "RangeWithHoles")
                    && chunks.iter().enumerate().any(|(j, o)| j != i && o.iter().any(|x| c.iter().min().unwrap() < x && x < c.iter().max().unwrap()))
            }) => "holey-segment-spans-ids-of-another-segment".into(),
        (Op::Observe, "is_empty-disagrees-with-len") if n == 0 => "only-empty-segments".into(),
        (Op::Delete { .. } | Op::Mask { .. }, "is_empty-after") => "only-empty-segments-left".into(),
        _ => shape,
    };
    format!("seq/{}{extra}/{class}/{feature}", op.name())
}

// ------------------------------------------------------------------------------------------------
// enumeration of subjects and ops

fn f1_lists(max_len: usize) -> Vec<Vec<u64>> {
    let a = [0u64, 1, 2, 3, 5, 8, MAXID - 1, MAXID];
    let mut out: Vec<Vec<u64>> = vec![vec![]];
    let mut level: Vec<Vec<u64>> = vec![vec![]];
    for _ in 0..max_len {
        let mut next = vec![];
        for l in &level {
            for x in a {
                if !l.contains(&x) {
                    let mut l2 = l.clone();
                    l2.push(x);
                    next.push(l2);
                }
            }
        }
        out.extend(next.iter().cloned());
        level = next;
    }
    out
}

/// one (or more) chunk per segment encoding
fn encoding_chunks() -> Vec<(&'static str, Vec<u64>)> {
    let holes = |base: u64, n: u64, hs: &[u64]| -> Vec<u64> { (base..base + n).filter(|x| !hs.contains(&(x - base))).collect() };
    vec![
        ("range", vec![100, 101, 102, 103]),
        ("holes1", holes(200, 40, &[17])),
        ("holes2", holes(300, 70, &[1, 38])),
        ("bitmap", vec![400, 402, 403, 407]),
        ("sorted-u16", vec![1000, 2000, 3000, 60000]),
        ("sorted-u32", vec![100_000, 100_010, 5_000_000]),
        ("sorted-u64", vec![1 << 33, (1 << 40) + 7, (1 << 52) + 1]),
        ("array", vec![502, 500, 501]),
        ("array-u64", vec![(1 << 41) + 3, 600, 1 << 34]),
        ("single", vec![700]),
        ("empty", vec![]),
    ]
}

/// width-boundary family (a): nearly contiguous ranges spanning more than 2^16 (resp. 2 * 2^16) ids
/// behind one or two holes near the start (the encoder chooses RangeWithHoles / RangeWithBitmap)
fn width_range_chunks() -> Vec<Vec<u64>> {
    let mut out = vec![];
    for base in [0u64, 1000] {
        for (holes, len) in [(vec![10u64], W16 + 300), (vec![10, 20], 2 * W16 + 300), (vec![1, 65_000], W16 + 66_000)] {
            out.push((base..base + len).filter(|x| !holes.contains(&(x - base))).collect());
        }
    }
    out
}

/// width-boundary family (b): short sorted / unsorted arrays whose values straddle an offset width
/// (2^16, 2^32) relative to the first value
fn width_array_chunks() -> Vec<Vec<u64>> {
    let mut out = vec![];
    for base in [0u64, 1000] {
        for w in [W16, W32] {
            for last in [w - 1, w, w + 5] {
                out.push(vec![base, base + 5, base + last]);
                out.push(vec![base + 5, base + last, base]);
            }
            out.push(vec![base, base + 5, base + w - 1, base + w, base + w + 5, base + 2 * w + 5]);
        }
    }
    out
}

fn probe_positions(chunks: &[Vec<u64>]) -> Vec<usize> {
    let n: usize = chunks.iter().map(|c| c.len()).sum();
    if n <= 6 {
        return (0..n).collect();
    }
    let mut p: BTreeSet<usize> = [0, 1, n / 2, n - 2, n - 1].into_iter().collect();
    let mut off = 0;
    for c in chunks {
        if c.is_empty() {
            continue;
        }
        p.insert(off);
        p.insert(off + c.len() - 1);
        if c.len() > 20 {
            // around a hole of the long encodings
            p.insert(off + 16);
            p.insert(off + 17);
        }
        if c.len() > 60_000 {
            // width-boundary family: the ids around the first holes and the ids one and two
            // offset-widths (2^16) behind every hole
            let mut holes = vec![];
            for w in c.windows(2).take(70_000) {
                if w[1] > w[0] + 1 && holes.len() < 2 {
                    holes.push(w[0] + 1);
                }
            }
            for h in holes {
                for x in [h - 1, h + 1, h + W16 - 1, h + W16, h + W16 + 1, h + 2 * W16, h + 2 * W16 + 1] {
                    if let Ok(i) = c.binary_search(&x) {
                        p.insert(off + i);
                    }
                }
            }
        }
        off += c.len();
    }
    p.into_iter().filter(|x| *x < n).collect()
}

fn subsets_of<T: Clone>(items: &[T], max_size: usize) -> Vec<Vec<T>> {
    let n = items.len();
    let mut out = vec![];
    if n <= 16 {
        for m in 0u32..(1 << n) {
            if (m.count_ones() as usize) <= max_size {
                out.push((0..n).filter(|i| m & (1 << i) != 0).map(|i| items[i].clone()).collect());
            }
        }
    } else {
        out.push(vec![]);
        for i in 0..n {
            out.push(vec![items[i].clone()]);
            if max_size >= 2 {
                for j in i + 1..n {
                    out.push(vec![items[i].clone(), items[j].clone()]);
                }
            }
        }
    }
    out
}

fn compositions(n: usize) -> Vec<Vec<u64>> {
    // every way to write n as an ordered sum of positive parts
    if n == 0 {
        return vec![vec![]];
    }
    let mut out = vec![];
    for m in 0u32..(1 << (n - 1)) {
        let mut parts = vec![];
        let mut cur = 1u64;
        for i in 0..n - 1 {
            if m & (1 << i) != 0 {
                parts.push(cur);
                cur = 1;
            } else {
                cur += 1;
            }
        }
        parts.push(cur);
        out.push(parts);
    }
    out
}

/// reduced op list for the long width-boundary subjects: every op at every probe position / id
/// (ids around the holes and one / two offset-widths behind them), no subsets
fn big_ops(chunks: &[Vec<u64>], model: &[u64], pp: &[usize]) -> Vec<Op> {
    let n = model.len();
    let mut ops = vec![Op::Observe];
    if chunks.len() == 1 {
        ops.push(Op::Segment);
        let m = *model.iter().max().unwrap();
        ops.push(Op::NewHigh { val: m + 1 });
        ops.push(Op::NewHigh { val: m + 3 });
        ops.push(Op::NewHigh { val: m });
    }
    let absent = 99_999_999u64;
    ops.push(Op::Slice { o: 0, l: n });
    ops.push(Op::Delete { ids: vec![absent] });
    ops.push(Op::Mask { pos: (0..n as u32).collect() });
    ops.push(Op::Mask { pos: (1..n as u32).collect() });
    ops.push(Op::Select { idx: vec![] });
    ops.push(Op::OffsetRanges { allow: None, block: None });
    ops.push(Op::OffsetRanges { allow: Some(model.to_vec()), block: None });
    ops.push(Op::SelectRowIds { p: Params::Full });
    for (k, i) in pp.iter().enumerate() {
        let id = model[*i];
        ops.push(Op::Slice { o: *i, l: (n - i).min(5) });
        ops.push(Op::Slice { o: i.saturating_sub(2), l: (n - i.saturating_sub(2)).min(5) });
        ops.push(Op::Delete { ids: vec![id] });
        ops.push(Op::Mask { pos: vec![*i as u32] });
        ops.push(Op::Select { idx: vec![*i] });
        ops.push(Op::OffsetRanges { allow: Some(vec![id]), block: None });
        ops.push(Op::OffsetRanges { allow: None, block: Some(vec![id]) });
        ops.push(Op::SelectRowIds { p: Params::Indices(vec![*i as u32]) });
        ops.push(Op::SelectRowIds { p: Params::Range(*i, (*i + 3).min(n)) });
        ops.push(Op::SelectRowIds { p: Params::Ranges(vec![(*i as u64, (*i as u64 + 2).min(n as u64))]) });
        if k % 3 == 0 {
            ops.push(Op::Slice { o: *i, l: n - i });
            ops.push(Op::SelectRowIds { p: Params::To(*i) });
            ops.push(Op::SelectRowIds { p: Params::From(*i) });
            if *i > 0 {
                for allow in [false, true] {
                    ops.push(Op::Rechunk { sizes: vec![*i as u64, (n - i) as u64], allow, merged: true });
                    if chunks.len() > 1 {
                        ops.push(Op::Rechunk { sizes: vec![*i as u64, (n - i) as u64], allow, merged: false });
                    }
                }
            }
        }
        if let Some(j) = pp.get(k + 1) {
            ops.push(Op::Delete { ids: vec![model[*j], id] });
            ops.push(Op::Mask { pos: vec![*i as u32, *j as u32] });
            ops.push(Op::Select { idx: vec![*i, *j] });
        }
    }
    ops.push(Op::Rechunk { sizes: vec![n as u64], allow: false, merged: true });
    ops.push(Op::Rechunk { sizes: vec![n as u64 + 1], allow: false, merged: true });
    ops
}

fn ops_for(chunks: &[Vec<u64>], thorough: bool) -> Vec<Op> {
    let model: Vec<u64> = chunks.iter().flatten().copied().collect();
    let n = model.len();
    let pp = probe_positions(chunks);
    let small = n <= 6;
    // long (width-boundary) subjects: single probe ids / positions only, every op rebuilds 65k+ ids
    let big = n > 1000;
    let sub_max = if small { 6 } else if big { 1 } else if thorough { 3 } else { 2 };
    if big {
        return big_ops(chunks, &model, &pp);
    }
    let mut ops = vec![Op::Observe];
    if chunks.len() == 1 {
        ops.push(Op::Segment);
        if let Some(m) = model.iter().max() {
            for d in [1u64, 2, 5, 300] {
                if let Some(v) = m.checked_add(d) {
                    ops.push(Op::NewHigh { val: v });
                }
            }
            ops.push(Op::NewHigh { val: *m });
            if *m > 0 {
                ops.push(Op::NewHigh { val: m - 1 });
            }
        } else {
            ops.push(Op::NewHigh { val: 0 });
            ops.push(Op::NewHigh { val: 9 });
        }
    }
    // slices
    if small {
        for o in 0..=n {
            for l in 0..=n - o {
                ops.push(Op::Slice { o, l });
            }
        }
    } else {
        let mut cuts: BTreeSet<usize> = pp.iter().copied().collect();
        cuts.insert(n);
        let cuts: Vec<usize> = cuts.into_iter().collect();
        for (i, o) in cuts.iter().enumerate() {
            for e in &cuts[i..] {
                ops.push(Op::Slice { o: *o, l: e - o });
            }
            if *o + 1 <= n {
                ops.push(Op::Slice { o: *o, l: 1 });
            }
        }
    }
    // delete / mask
    let absent = [4u64, 99_999, MAXID - 7].into_iter().find(|x| !model.contains(x)).unwrap();
    let probe_ids: Vec<u64> = pp.iter().map(|i| model[*i]).collect();
    for s in subsets_of(&probe_ids, sub_max) {
        let mut desc = s.clone();
        desc.reverse();
        let mut with_absent = s.clone();
        with_absent.insert(s.len() / 2, absent);
        if s.len() >= 2 {
            ops.push(Op::Delete { ids: desc });
        }
        if s.len() <= 2 {
            ops.push(Op::Delete { ids: with_absent });
        }
        ops.push(Op::Delete { ids: s });
    }
    let pp32: Vec<u32> = pp.iter().map(|p| *p as u32).collect();
    for s in subsets_of(&pp32, sub_max) {
        if !s.is_empty() {
            ops.push(Op::Mask { pos: s });
        }
    }
    if !small {
        // everything / everything but one
        ops.push(Op::Mask { pos: (0..n as u32).collect() });
        ops.push(Op::Mask { pos: (1..n as u32).collect() });
        ops.push(Op::Mask { pos: (0..n as u32 - 1).collect() });
        ops.push(Op::Delete { ids: model.clone() });
    }
    // select: non-decreasing index lists of length <= 3 over probe positions + out of bounds
    let mut sel: Vec<usize> = pp.clone();
    sel.push(n);
    sel.push(n + 3);
    if sel.len() > 9 {
        sel = sel.iter().copied().step_by(2).chain([n]).collect();
        sel.sort();
        sel.dedup();
    }
    ops.push(Op::Select { idx: vec![] });
    for (i, a) in sel.iter().enumerate() {
        ops.push(Op::Select { idx: vec![*a] });
        for (j, b) in sel.iter().enumerate().skip(i) {
            ops.push(Op::Select { idx: vec![*a, *b] });
            for c in sel.iter().skip(j) {
                ops.push(Op::Select { idx: vec![*a, *b, *c] });
            }
        }
    }
    // rechunk
    let mut sizes: Vec<Vec<u64>> = if small { compositions(n) } else {
        let mut v = vec![vec![n as u64]];
        for k in &pp {
            if *k > 0 {
                v.push(vec![*k as u64, (n - *k) as u64]);
            }
        }
        v.push(vec![1, 1, n as u64 - 2]);
        v.push(vec![n as u64 - 2, 1, 1]);
        v
    };
    // zeros, wrong totals
    sizes.push(vec![0, n as u64]);
    sizes.push(vec![n as u64, 0]);
    sizes.push(vec![n as u64 + 1]);
    sizes.push(vec![n as u64, 2]);
    if n > 0 {
        sizes.push(vec![n as u64 - 1]);
        sizes.push(vec![1, 0, n as u64 - 1]);
    }
    sizes.push(vec![]);
    for s in sizes {
        for allow in [false, true] {
            ops.push(Op::Rechunk { sizes: s.clone(), allow, merged: true });
            if chunks.len() > 1 {
                ops.push(Op::Rechunk { sizes: s.clone(), allow, merged: false });
            }
        }
    }
    // mask_to_offset_ranges
    let mut mids = probe_ids.clone();
    mids.push(absent);
    let msub = subsets_of(&mids, if small { 7 } else if big { 1 } else { 2 });
    for s in &msub {
        ops.push(Op::OffsetRanges { allow: Some(s.clone()), block: None });
        ops.push(Op::OffsetRanges { allow: None, block: Some(s.clone()) });
    }
    ops.push(Op::OffsetRanges { allow: None, block: None });
    ops.push(Op::OffsetRanges { allow: Some(model.clone()), block: None });
    ops.push(Op::OffsetRanges { allow: None, block: Some(model.clone()) });
    for s in msub.iter().filter(|s| s.len() <= 1) {
        ops.push(Op::OffsetRanges { allow: Some(model.clone()), block: Some(s.clone()) });
        if let Some(x) = s.first() {
            ops.push(Op::OffsetRanges { allow: Some(probe_ids.clone()), block: Some(vec![*x]) });
        }
    }
    // select_row_ids
    ops.push(Op::SelectRowIds { p: Params::Full });
    let mut cuts: Vec<usize> = if small { (0..=n + 1).collect() } else if big { pp.iter().copied().step_by(2).chain([n, n + 1]).collect() } else { pp.iter().copied().chain([n, n + 1]).collect() };
    cuts.dedup();
    for a in &cuts {
        ops.push(Op::SelectRowIds { p: Params::To(*a) });
        ops.push(Op::SelectRowIds { p: Params::From(*a) });
        ops.push(Op::SelectRowIds { p: Params::Indices(vec![*a as u32]) });
        for b in &cuts {
            if a <= b {
                ops.push(Op::SelectRowIds { p: Params::Range(*a, *b) });
                ops.push(Op::SelectRowIds { p: Params::Ranges(vec![(*a as u64, *b as u64)]) });
                if *b <= n {
                    ops.push(Op::SelectRowIds { p: Params::Ranges(vec![(*a as u64, *b as u64), (0, *a as u64)]) });
                }
            }
            ops.push(Op::SelectRowIds { p: Params::Indices(vec![*b as u32, *a as u32]) });
        }
    }
    ops.push(Op::SelectRowIds { p: Params::Indices(vec![]) });
    ops.push(Op::SelectRowIds { p: Params::Ranges(vec![]) });
    ops
}

fn subjects(ctx: &Ctx) -> Vec<Vec<Vec<u64>>> {
    let mut subs: Vec<Vec<Vec<u64>>> = vec![];
    for l in f1_lists(ctx.tier.pick(4, 5)) {
        subs.push(vec![l]);
    }
    let enc = encoding_chunks();
    for (_, c) in &enc {
        subs.push(vec![c.clone()]);
    }
    // a contiguous continuation (extend merges ranges) and a reversed continuation
    let mut pool: Vec<Vec<u64>> = enc.iter().map(|(_, c)| c.clone()).collect();
    pool.push(vec![104, 105]);
    pool.push(vec![98, 99]);
    let np = pool.len();
    for a in 0..np {
        for b in 0..np {
            if a == b {
                continue;
            }
            subs.push(vec![pool[a].clone(), pool[b].clone()]);
            for c in 0..np {
                if c == a || c == b {
                    continue;
                }
                // three-chunk subjects: all in thorough; in quick only over one chunk per encoding
                // family (range, holes1, bitmap, sorted-u16, array, empty, contiguous continuation)
                let quick_pool = [0usize, 1, 3, 4, 7, 10, 11];
                if ctx.quick() && [a, b, c].iter().any(|i| !quick_pool.contains(i)) {
                    continue;
                }
                subs.push(vec![pool[a].clone(), pool[b].clone(), pool[c].clone()]);
            }
        }
    }
    // width-boundary families
    for c in width_array_chunks() {
        subs.push(vec![c.clone()]);
        subs.push(vec![vec![7_000_000, 7_000_001], c.clone()]);
    }
    for c in width_range_chunks() {
        subs.push(vec![c.clone()]);
        subs.push(vec![vec![7_000_000, 7_000_001, 7_000_002], c.clone()]);
        subs.push(vec![c, vec![7_000_002, 7_000_000, 7_000_001]]);
    }
    // short multi-chunk subjects over the small alphabet (every split of every short list)
    for l in f1_lists(ctx.tier.pick(3, 4)) {
        for cut in 1..l.len() {
            subs.push(vec![l[..cut].to_vec(), l[cut..].to_vec()]);
            for cut2 in cut + 1..l.len() {
                subs.push(vec![l[..cut].to_vec(), l[cut..cut2].to_vec(), l[cut2..].to_vec()]);
            }
        }
    }
    subs
}

// ------------------------------------------------------------------------------------------------
// (I) RowIdIndex

fn index_pool() -> Vec<(&'static str, Vec<Vec<u64>>)> {
    vec![
        ("range", vec![vec![0, 1, 2, 3]]),
        ("even", vec![vec![4, 6, 8]]),
        ("odd", vec![vec![5, 7, 9]]),
        ("unsorted", vec![vec![20, 10, 15]]),
        ("sparse", vec![vec![100, 3000, 70000]]),
        ("two-seg", vec![vec![30, 31], vec![40, 42]]),
        ("inside", vec![vec![11, 12]]),
        ("empty", vec![vec![]]),
        ("big", vec![vec![1 << 40, (1 << 40) + 1]]),
    ]
}

/// case: {"frags":[{"id":u32,"chunks":[[..]],"deleted":[offsets]}]}
fn check_index(case: &Value) -> Vec<Violation> {
    let mut out = vec![];
    let frags = case["frags"].as_array().unwrap();
    let mut model: BTreeMap<u64, (u32, u32)> = BTreeMap::new();
    let mut deleted_ids: BTreeSet<u64> = BTreeSet::new();
    let mut fis = vec![];
    let mut shape = vec![];
    for f in frags {
        let id = f["id"].as_u64().unwrap() as u32;
        let chunks: Vec<Vec<u64>> = f["chunks"].as_array().unwrap().iter().map(|c| c.as_array().unwrap().iter().map(|x| x.as_u64().unwrap()).collect()).collect();
        let del: Vec<u32> = f["deleted"].as_array().unwrap().iter().map(|x| x.as_u64().unwrap() as u32).collect();
        shape.push(f["name"].as_str().unwrap_or("?").to_string() + if del.is_empty() { "" } else { "-del" });
        for (off, rid) in chunks.iter().flatten().enumerate() {
            if del.contains(&(off as u32)) {
                deleted_ids.insert(*rid);
            } else {
                model.insert(*rid, (id, off as u32));
            }
        }
        let dv = if del.is_empty() {
            DeletionVector::NoDeletions
        } else if del.len() % 2 == 1 {
            DeletionVector::Set(del.iter().copied().collect())
        } else {
            DeletionVector::Bitmap(del.iter().copied().collect())
        };
        fis.push((id, chunks, dv));
    }
    let _ = shape;
    // structural feature: do the id ranges of two (segments of) fragments overlap?
    let mut ranges: Vec<(u64, u64)> = vec![];
    for (_, chunks, _) in &fis {
        let mut off = 0u32;
        for c in chunks {
            let live: Vec<u64> = c.iter().enumerate().filter(|(i, _)| model.values().any(|_| true) && !deleted_ids.contains(&c[*i])).map(|(_, x)| *x).collect();
            off += c.len() as u32;
            if let (Some(a), Some(b)) = (live.iter().min(), live.iter().max()) {
                ranges.push((*a, *b));
            }
        }
        let _ = off;
    }
    let overlap = ranges.iter().enumerate().any(|(i, a)| ranges.iter().enumerate().any(|(j, b)| i < j && a.0 <= b.1 && b.0 <= a.1));
    let key_shape = if overlap { "overlapping-id-ranges" } else { "disjoint-id-ranges" };
    let r = vcore::catch(|| {
        let fi: Vec<FragmentRowIdIndex> = fis.iter().map(|(id, chunks, dv)| FragmentRowIdIndex {
            fragment_id: *id,
            row_id_sequence: Arc::new(build(chunks)),
            deletion_vector: Arc::new(dv.clone()),
        }).collect();
        RowIdIndex::new(&fi).map(|ix| {
            let mut probes: BTreeSet<u64> = if model.len() <= 1000 {
                model.keys().copied().chain(deleted_ids.iter().copied()).collect()
            } else {
                // long fragments: the ends, the ids around the first holes and one / two
                // offset-widths behind them, the deleted ids
                let keys: Vec<u64> = model.keys().copied().collect();
                let mut c: BTreeSet<u64> = keys.iter().take(3).chain(keys.iter().rev().take(3)).copied().collect();
                c.extend(deleted_ids.iter().copied());
                for w in keys.windows(2).filter(|w| w[1] > w[0] + 1).take(4) {
                    let h = w[0] + 1;
                    c.extend([h - 1, h, h + 1, h + W16 - 1, h + W16, h + W16 + 1, h + 2 * W16, h + 2 * W16 + 1]);
                }
                c
            };
            for p in probes.clone() {
                probes.insert(p.wrapping_add(1));
                probes.insert(p.wrapping_sub(1));
                if model.len() <= 1000 {
                    for d in [W16, 2 * W16, W32] {
                        probes.insert(p.wrapping_add(d));
                        probes.insert(p.wrapping_sub(d));
                    }
                }
            }
            probes.insert(0);
            probes.insert(MAXID);
            let mut bad = vec![];
            for p in probes {
                let got = ix.get(p).map(|a: RowAddress| (a.fragment_id(), a.row_offset()));
                let want = model.get(&p).copied();
                if got != want {
                    bad.push((p, got, want));
                }
            }
            bad
        })
    });
    match r {
        Err(p) => {
            let class = if p.contains("Wrong range for") { "debug-assert-wrong-range" } else { "panic-other" };
            out.push(Violation::new("rowid-index", &format!("index/new/{class}/{key_shape}"), format!("RowIdIndex::new panicked: {}", p.chars().take(400).collect::<String>()), case.clone()))
        }
        Ok(Err(e)) => out.push(Violation::new("rowid-index", &format!("index/new/error/{key_shape}"), format!("RowIdIndex::new failed: {e}"), case.clone())),
        Ok(Ok(bad)) => {
            if let Some((p, got, want)) = bad.first() {
                let class = match (got, want) {
                    (Some(_), None) => if deleted_ids.contains(p) { "deleted-id-resolves" } else { "absent-id-resolves" },
                    (None, Some(_)) => "present-id-missing",
                    _ => "wrong-address",
                };
                out.push(Violation::new("rowid-index", &format!("index/get/{class}/{key_shape}"),
                    format!("get({p}) = {got:?}, expected {want:?} ({} ids disagree)", bad.len()), case.clone()));
            }
        }
    }
    out
}

/// RowIdIndex over the width-boundary chunks: alone and behind a small fragment, without deletions
/// and with the row one offset-width behind the first hole deleted
fn width_index_cases() -> Vec<Value> {
    let mut out = vec![];
    let mut chunks = width_range_chunks();
    chunks.extend(width_array_chunks().into_iter().step_by(3));
    for c in chunks {
        let hole = c.windows(2).find(|w| w[1] > w[0] + 1).map(|w| w[0] + 1);
        let del_pos: Vec<u32> = hole.and_then(|h| c.iter().position(|x| *x == h + W16 + 1)).map(|p| vec![p as u32]).unwrap_or_default();
        for dels in [vec![], del_pos.clone()] {
            out.push(json!({"kind":"index","frags":[{"id":3,"name":"width","chunks":[c],"deleted":dels}]}));
            out.push(json!({"kind":"index","frags":[{"id":0,"name":"range","chunks":[[7_000_000u64,7_000_001u64]],"deleted":[]},{"id":70000,"name":"width","chunks":[c],"deleted":dels}]}));
        }
    }
    out
}

fn index_cases(ctx: &Ctx) -> Vec<Value> {
    let pool = index_pool();
    let frag_ids = [3u32, 0, 70000];
    let np = pool.len();
    let mut sels: Vec<Vec<usize>> = vec![];
    for a in 0..np {
        sels.push(vec![a]);
        for b in 0..np {
            if b == a { continue; }
            sels.push(vec![a, b]);
            for c in 0..np {
                if c == a || c == b { continue; }
                sels.push(vec![a, b, c]);
            }
        }
    }
    let mut out = vec![];
    for sel in sels {
        // deletion vectors per fragment
        let dvs: Vec<Vec<Vec<u32>>> = sel.iter().map(|i| {
            let n: usize = pool[*i].1.iter().map(|c| c.len()).sum();
            let all: Vec<u32> = (0..n as u32).collect();
            if sel.len() <= 2 || !ctx.quick() {
                subsets_of(&all, n)
            } else {
                let mut v = vec![vec![]];
                if n > 0 {
                    v.push(vec![0]);
                    v.push(vec![n as u32 - 1]);
                    v.push(all.clone());
                }
                v.sort();
                v.dedup();
                v
            }
        }).collect();
        let dims: Vec<usize> = dvs.iter().map(|d| d.len()).collect();
        vcore::smallx::product(&dims, |ix| {
            let frags: Vec<Value> = sel.iter().enumerate().map(|(k, i)| json!({
                "id": frag_ids[k], "name": pool[*i].0, "chunks": pool[*i].1, "deleted": dvs[k][ix[k]],
            })).collect();
            out.push(json!({"kind":"index","frags":frags}));
            true
        });
    }
    out
}

// ------------------------------------------------------------------------------------------------

/// Width-boundary family for spans beyond 2^32 without materialising ids: take the encoded holes of a
/// small RangeWithHoles segment (u16- resp. u32-encoded) and widen the segment's range; lookups are
/// compared with arithmetic on (range, holes).
fn wide_segment_checks(cov: &mut Cov, viol: &mut Vec<Violation>) {
    for base in [0u64, 1000] {
        for (holes_rel, build_len, label) in [(vec![10u64], 40u64, "u16-holes"), (vec![10, 20], 64, "u16-holes"), (vec![10, 70_000], 70_100, "u32-holes")] {
            let ids: Vec<u64> = (base..base + build_len).filter(|x| !holes_rel.contains(&(x - base))).collect();
            let holes_abs: Vec<u64> = holes_rel.iter().map(|h| base + h).collect();
            let U64Segment::RangeWithHoles { holes, .. } = U64Segment::from_slice(&ids) else {
                cov.outcome("wide-segment/encoder-chose-other-encoding");
                continue;
            };
            for span in [W16 + 500, 3 * W16, W32 + 70_500, 3 * W32] {
                if span < build_len {
                    continue;
                }
                let case = json!({"kind":"wide_segment","base":base,"holes":holes_rel,"span":span});
                cov.eval(Some(vcore::hash64(case.to_string().as_bytes())));
                let seg = U64Segment::RangeWithHoles { range: base..base + span, holes: holes.clone() };
                let span_class = if span > W32 { "span>2^32" } else { "span>2^16" };
                let contains = |x: u64| x >= base && x < base + span && !holes_abs.contains(&x);
                let position = |x: u64| if contains(x) { Some((x - base) as usize - holes_abs.iter().filter(|h| **h < x).count()) } else { None };
                let mut probes: BTreeSet<u64> = [base, base + span - 1, base + span, base + span / 2].into_iter().collect();
                for h in &holes_abs {
                    for d in [0, W16, 2 * W16, W32, 2 * W32] {
                        for e in [0i64, -1, 1] {
                            if let Some(x) = (h + d).checked_add_signed(e) {
                                probes.insert(x);
                            }
                        }
                    }
                }
                let r = vcore::catch(|| {
                    let mut bad: Vec<(String, String)> = vec![];
                    if seg.len() as u64 != span - holes_abs.len() as u64 {
                        bad.push(("len".into(), format!("len() = {}, expected {}", seg.len(), span - holes_abs.len() as u64)));
                    }
                    if seg.range() != Some(base..=base + span - 1) {
                        bad.push(("range".into(), format!("range() = {:?}", seg.range())));
                    }
                    for p in &probes {
                        if seg.contains(*p) != contains(*p) {
                            bad.push(("contains".into(), format!("contains({p}) = {}, expected {}", seg.contains(*p), contains(*p))));
                        }
                        if seg.position(*p) != position(*p) {
                            bad.push(("position".into(), format!("position({p}) = {:?}, expected {:?}", seg.position(*p), position(*p))));
                        }
                        if let Some(i) = position(*p) {
                            if i <= 200_000 && seg.get(i) != Some(*p) {
                                bad.push(("get".into(), format!("get({i}) = {:?}, expected {p}", seg.get(i))));
                            }
                        }
                    }
                    bad
                });
                match r {
                    Err(p) => viol.push(Violation::new("seq-wide-segment", &format!("seq/wide-segment/panic/{label}/{span_class}"), format!("RangeWithHoles {base}..{} holes {holes_abs:?}: {p}", base + span), case)),
                    Ok(bad) => {
                        cov.outcome(if bad.is_empty() { "wide-segment/ok" } else { "wide-segment/FAIL" });
                        for (c, d) in bad.into_iter().take(3) {
                            viol.push(Violation::new("seq-wide-segment", &format!("seq/wide-segment/{c}/{label}/{span_class}"), format!("RangeWithHoles {base}..{} holes {holes_abs:?}: {d}", base + span), case.clone()));
                        }
                    }
                }
            }
        }
    }
}

fn violation(chunks: &[Vec<u64>], op: &Op, class: &str, detail: &str) -> Violation {
    let key = key_of(chunks, op, class);
    Violation::new(
        &format!("seq-{}", op.name()),
        &key,
        format!("{} on chunks {:?}: {}", op.name(), chunks.iter().map(|c| short(c)).collect::<Vec<_>>(), detail.chars().take(300).collect::<String>()),
        json!({"kind":"seq_op","chunks":chunks,"op":serde_json::to_value(op).unwrap()}),
    )
}

fn check_case(case: &Value) -> Vec<Violation> {
    match case["kind"].as_str().unwrap_or("") {
        "seq_op" => {
            let chunks: Vec<Vec<u64>> = serde_json::from_value(case["chunks"].clone()).unwrap_or_else(|e| vcore::machinery_error(&format!("bad chunks: {e}")));
            let op: Op = serde_json::from_value(case["op"].clone()).unwrap_or_else(|e| vcore::machinery_error(&format!("bad op: {e}")));
            match run_op(&chunks, &op) {
                Ok(()) => vec![],
                Err((class, detail)) => vec![violation(&chunks, &op, &class, &detail)],
            }
        }
        "index" => check_index(case),
        "wide_segment" => {
            let mut cov = Cov::new();
            let mut v = vec![];
            wide_segment_checks(&mut cov, &mut v);
            v.retain(|x| &x.case == case);
            v
        }
        other => vcore::machinery_error(&format!("C34 replay: unknown case kind {other:?}")),
    }
}

pub fn run(ctx: &Ctx) -> Outcome {
    let mut out = Outcome::new("exploration");
    if let Some(art) = ctx.replay_case() {
        out.violations = check_case(&art["case"]);
        out.set("replayed", true);
        return out;
    }
    let thorough = !ctx.quick();
    let wall_cap = ctx.tier.pick(40.0, 780.0);
    let subs = subjects(ctx);
    let n_subjects = subs.len();
    let start = std::time::Instant::now();
    let capped = std::sync::atomic::AtomicU64::new(0);
    let (long_subs, short_subs): (Vec<_>, Vec<_>) = subs.iter().cloned().partition(|s| s.iter().map(|c| c.len()).sum::<usize>() > 1000);
    let mut chunks_of_work: Vec<Vec<Vec<Vec<u64>>>> = long_subs.into_iter().map(|s| vec![s]).collect();
    chunks_of_work.extend(vcore::smallx::chunks(&short_subs, ctx.workers * 16));
    let results = vcore::par_map(chunks_of_work, ctx.workers, |_, slice| {
        let mut cov = Cov::new();
        let mut viol: BTreeMap<String, (Violation, u64)> = BTreeMap::new();
        for chunks in slice {
            if start.elapsed().as_secs_f64() > wall_cap {
                capped.fetch_add(1, std::sync::atomic::Ordering::SeqCst);
                continue;
            }
            let kinds: Vec<&str> = chunks.iter().map(|c| seg_kind(c)).collect();
            let n: usize = chunks.iter().map(|c| c.len()).sum();
            for op in ops_for(&chunks, thorough) {
                // non-trivial: the op touches a sequence with >= 2 ids (or >= 2 segments)
                let nt = n >= 2;
                cov.eval(if nt { Some(vcore::hash64(format!("{chunks:?}{op:?}").as_bytes())) } else { None });
                match run_op(&chunks, &op) {
                    Ok(()) => cov.outcome(&format!("{}/ok", op.name())),
                    Err((class, detail)) => {
                        let v = violation(&chunks, &op, &class, &detail);
                        cov.outcome(&format!("FAIL {}", v.key));
                        let size = |v: &Violation| v.case["chunks"].as_array().map(|a| a.iter().map(|c| c.as_array().map(|x| x.len()).unwrap_or(0) + 1).sum::<usize>()).unwrap_or(0);
                        let e = viol.entry(v.key.clone()).or_insert((v.clone(), 0));
                        if size(&v) < size(&e.0) {
                            e.0 = v;
                        }
                        e.1 += 1;
                    }
                }
            }
            cov.outcome(&format!("subject/{}", kinds.join("+")));
        }
        (cov, viol)
    });
    let mut cov = Cov::new();
    let mut viol: BTreeMap<String, (Violation, u64)> = BTreeMap::new();
    for (c, v) in results {
        cov.merge(c);
        for (k, (vi, n)) in v {
            let size = |v: &Violation| v.case["chunks"].as_array().map(|a| a.iter().map(|c| c.as_array().map(|x| x.len()).unwrap_or(0) + 1).sum::<usize>()).unwrap_or(0);
            let e = viol.entry(k).or_insert((vi.clone(), 0));
            if size(&vi) < size(&e.0) {
                e.0 = vi; // keep the smallest artefact per key
            }
            e.1 += n;
        }
    }
    // fold the per-encoding subject counters into one line
    let enc_seen: BTreeSet<String> = cov.outcomes.keys().filter(|k| k.starts_with("subject/")).flat_map(|k| k[8..].split('+').map(|s| s.to_string()).collect::<Vec<_>>()).collect();
    cov.outcomes.retain(|k, _| !k.starts_with("subject/"));
    out.set("phase_seconds_sequences", (start.elapsed().as_secs_f64() * 10.0).round() / 10.0);
    // (I) index
    let t_index = std::time::Instant::now();
    let capped_index = std::sync::atomic::AtomicU64::new(0);
    let mut icases = width_index_cases();
    icases.extend(index_cases(ctx));
    let n_index = icases.len();
    let iresults = vcore::par_map(vcore::smallx::chunks(&icases, ctx.workers * 8), ctx.workers, |_, slice| {
        let mut cov = Cov::new();
        let mut v = vec![];
        for c in slice {
            let nt = c["frags"].as_array().unwrap().len() >= 2 || c["frags"][0]["deleted"].as_array().map(|d| !d.is_empty()).unwrap_or(false);
            cov.eval(if nt { Some(vcore::hash64(c.to_string().as_bytes())) } else { None });
            if start.elapsed().as_secs_f64() > wall_cap + 15.0 {
                capped_index.fetch_add(1, std::sync::atomic::Ordering::SeqCst);
                continue;
            }
            let r = check_index(&c);
            cov.outcome(if r.is_empty() { "index/ok" } else { "index/FAIL" });
            v.extend(r);
        }
        (cov, v)
    });
    let mut violations: Vec<Violation> = viol.into_values().map(|(v, _)| v).collect();
    wide_segment_checks(&mut cov, &mut violations);
    for (c, v) in iresults {
        cov.merge(c);
        violations.extend(v);
    }
    out.set("phase_seconds_index", (t_index.elapsed().as_secs_f64() * 10.0).round() / 10.0);
    let capped_index = capped_index.load(std::sync::atomic::Ordering::SeqCst);
    let capped = capped.load(std::sync::atomic::Ordering::SeqCst) + capped_index;
    cov.sample(json!({"kind":"seq_op","chunks":[[3,0,8],[5]],"op":{"Delete":{"ids":[8,5]}}}));
    cov.sample(json!({"kind":"seq_op","chunks":[[100,101,102,103],[502,500,501]],"op":{"Rechunk":{"sizes":[5,2],"allow":false,"merged":false}}}));
    cov.sample(icases[icases.len() / 2].clone());
    cov.fill(&mut out,
        &format!("odometer over {n_subjects} subjects (all duplicate-free lists of length <= {} over {{0,1,2,3,5,8,u64::MAX-1,u64::MAX}}; one chunk per segment encoding; width-boundary families: ranges of 2^16+300 .. 2*2^16+300 ids behind 1-2 holes and short arrays straddling 2^16 / 2^32 from their first value, alone and next to another chunk, plus RangeWithHoles segments widened beyond 2^16 / 2^32 checked by arithmetic; all ordered 2- and 3-chunk selections of the encoding pool; all 2-/3-way splits of the short lists) x all ops (every slice / id subset / position subset / sorted index list <= 3 / composition / allow-block list / ReadBatchParams shape; on sequences longer than 6 ids over probe positions = chunk boundaries, ends, middle, hole neighbours, subsets of size <= {}); {n_index} RowIdIndex configurations (1..=3 fragments of a 9-entry pool x deletion vectors). non-trivial = sequence with >= 2 ids / index with >= 2 fragments or a deletion",
            ctx.tier.pick(4, 5), if thorough { 3 } else { 2 }),
        capped == 0);
    out.set("subjects", n_subjects as u64);
    out.set("index_configurations", n_index as u64);
    out.set("segment_encodings_reached", json!(enc_seen));
    if capped > 0 {
        out.set("cap_hit", format!("wall cap {wall_cap}s: {} sequence subjects and {capped_index} index configurations skipped", capped - capped_index));
    }
    out.assume("mask positions / select indices are given in ascending order, rechunk inputs are the subject's own chunks (documented preconditions); ids are unique within a subject");
    out.assume("with_new_high is only called with values <= max+300 (a far value materialises the gap)");
    out.violations = violations;
    out
}
