//! C37 – feature flags and storage version strings (K5, pure part).
//!
//! (a) every flag word `low | hi` with `low` over the 6 known + 4 first unknown bits (all 1024) and
//!     `hi` ∈ {0} ∪ {one bit of 10..=63}: `can_read_dataset` / `can_write_dataset` == "no bit outside
//!     the known set"; the known set is cross-checked with the table in `docs/.../versioning.md`.
//! (b) `apply_feature_flags` on every manifest content shape (0..=2 fragments x {no deletion file,
//!     array, bitmap} x {no row ids, inline, external}, config / table metadata / base paths empty or
//!     not, both switches, stale previous flags): flags == the documented function of the contents,
//!     and survive the protobuf round trip of the manifest.
//! (c) `LanceFileVersion`: every variant, every (major, minor) in 0..=4², every documented name and
//!     alias (plus case variants and near misses): parse / display / resolve / to_numbers /
//!     try_from_major_minor agree with each other and with `docs/src/format/file/versioning.md`.
//! (d) `Fragment::try_infer_version` / `DataStorageFormat`: every assignment of file versions to
//!     <=3 data files in <=2 fragments; a manifest without `data_format` infers it from the files.
//!
//! The dataset-level oracle (flags of every committed version reflect the table contents, forged
//! manifests refused on open/write) needs the `lance` crate and is outside this binary.

use lance_core::datatypes::Schema;
use lance_encoding::version::LanceFileVersion as V;
use lance_table::feature_flags as ff;
use lance_table::format::{
    pb, BasePath, DataFile, DataStorageFormat, DeletionFile, DeletionFileType, ExternalFile, Fragment,
    Manifest, RowIdMeta,
};
use serde_json::{json, Value};
use std::collections::HashMap;
use std::sync::Arc;
use vcore::{Cov, Ctx, Outcome, Violation};

const KNOWN: u64 = ff::FLAG_DELETION_FILES
    | ff::FLAG_STABLE_ROW_IDS
    | ff::FLAG_USE_V2_FORMAT_DEPRECATED
    | ff::FLAG_TABLE_CONFIG
    | ff::FLAG_BASE_PATHS
    | ff::FLAG_DISABLE_TRANSACTION_FILE;

// ------------------------------------------------------------------------------------------------
// documentation tables (parsed at run time from /repo/docs)

#[derive(Debug, Clone)]
struct DocFlag {
    bit: u64,
    name: String,
    reader: bool,
    writer: bool,
}

fn repo_dir() -> String {
    std::env::var("VERIF_REPO").unwrap_or_else(|_| "/repo".to_string())
}

fn md_rows(path: &str) -> Vec<Vec<String>> {
    let txt = std::fs::read_to_string(path)
        .unwrap_or_else(|e| vcore::machinery_error(&format!("cannot read {path}: {e}")));
    txt.lines()
        .filter(|l| l.trim_start().starts_with('|'))
        .map(|l| {
            l.trim()
                .trim_matches('|')
                .split('|')
                .map(|c| c.trim().trim_matches('`').to_string())
                .collect::<Vec<_>>()
        })
        .collect()
}

fn doc_flags() -> Vec<DocFlag> {
    let p = format!("{}/docs/src/format/table/versioning.md", repo_dir());
    let mut v = vec![];
    for r in md_rows(&p) {
        if r.len() >= 4 {
            if let Ok(bit) = r[0].parse::<u64>() {
                v.push(DocFlag {
                    bit,
                    name: r[1].clone(),
                    reader: r[2].eq_ignore_ascii_case("yes"),
                    writer: r[3].eq_ignore_ascii_case("yes"),
                });
            }
        }
    }
    if v.len() < 3 {
        vcore::machinery_error("could not parse the feature flag table of versioning.md");
    }
    v
}

/// (name, description) rows of the file-format version table
fn doc_versions() -> Vec<(String, String)> {
    let p = format!("{}/docs/src/format/file/versioning.md", repo_dir());
    let mut v = vec![];
    for r in md_rows(&p) {
        if r.len() >= 4 && r[0] != "Version" && !r[0].starts_with('-') {
            v.push((r[0].clone(), r[3].clone()));
        }
    }
    if v.len() < 4 {
        vcore::machinery_error("could not parse the version table of file/versioning.md");
    }
    v
}

/// (reader-required mask, writer-required mask) from the documentation table
fn required_masks() -> (u64, u64) {
    static M: std::sync::OnceLock<(u64, u64)> = std::sync::OnceLock::new();
    *M.get_or_init(|| {
        let mut r = 0u64;
        let mut w = ff::FLAG_DISABLE_TRANSACTION_FILE;
        for d in doc_flags() {
            if d.reader { r |= d.bit; }
            if d.writer { w |= d.bit; }
        }
        (r, w)
    })
}

// ------------------------------------------------------------------------------------------------
// (a) flag words

fn check_word(w: u64) -> Vec<Violation> {
    let mut out = vec![];
    let want = w & !KNOWN == 0;
    let case = json!({"kind":"flag_word","word":w});
    let lowest_unknown = if want { 64 } else { (w & !KNOWN).trailing_zeros() };
    let mixed = if w & KNOWN != 0 { "with-known-bits" } else { "only-unknown-bits" };
    match vcore::catch(|| (ff::can_read_dataset(w), ff::can_write_dataset(w), ff::has_deprecated_v2_feature_flag(w))) {
        Err(p) => out.push(Violation::new("flags-word", "flags/word/panic", format!("flag word {w:#x}: panic {p}"), case)),
        Ok((r, wr, dep)) => {
            if r != want {
                let key = if want { "flags/can_read/rejects-known-word".to_string() } else { format!("flags/can_read/accepts-unknown-bit/{mixed}") };
                out.push(Violation::new("flags-word", &key,
                    format!("can_read_dataset({w:#x}) = {r}; lowest unknown bit {lowest_unknown}"), case.clone()));
            }
            if wr != want {
                let key = if want { "flags/can_write/rejects-known-word".to_string() } else { format!("flags/can_write/accepts-unknown-bit/{mixed}") };
                out.push(Violation::new("flags-word", &key,
                    format!("can_write_dataset({w:#x}) = {wr}; lowest unknown bit {lowest_unknown}"), case.clone()));
            }
            if dep != (w & 4 != 0) {
                out.push(Violation::new("flags-word", "flags/deprecated-v2-bit",
                    format!("has_deprecated_v2_feature_flag({w:#x}) = {dep}"), case));
            }
        }
    }
    out
}

fn flag_words(cov: &mut Cov, viol: &mut Vec<Violation>, low_bits: u32) {
    let mut his = vec![0u64];
    his.extend((low_bits..64).map(|b| 1u64 << b));
    for hi in his {
        for low in 0u64..(1u64 << low_bits) {
            let w = low | hi;
            let unknown = w & !KNOWN != 0;
            // non-trivial: the word mixes known and unknown bits (must still be refused), or is a
            // non-zero known-only word (must be accepted)
            let nt = (unknown && w & KNOWN != 0) || (!unknown && w != 0);
            cov.eval(if nt { Some(w) } else { None });
            cov.outcome(if unknown { "word-refused-expected" } else { "word-accepted-expected" });
            viol.extend(check_word(w));
        }
    }
    cov.sample(json!({"kind":"flag_word","word": 64u64 | 3}));
}

/// constants vs documentation
fn flags_vs_docs(cov: &mut Cov, viol: &mut Vec<Violation>, notes: &mut Vec<String>) {
    let docs = doc_flags();
    let code: Vec<(u64, &str)> = vec![
        (ff::FLAG_DELETION_FILES, "FLAG_DELETION_FILES"),
        (ff::FLAG_STABLE_ROW_IDS, "FLAG_STABLE_ROW_IDS"),
        (ff::FLAG_USE_V2_FORMAT_DEPRECATED, "FLAG_USE_V2_FORMAT_DEPRECATED"),
        (ff::FLAG_TABLE_CONFIG, "FLAG_TABLE_CONFIG"),
        (ff::FLAG_BASE_PATHS, "FLAG_BASE_PATHS"),
        (ff::FLAG_DISABLE_TRANSACTION_FILE, "FLAG_DISABLE_TRANSACTION_FILE"),
    ];
    for d in &docs {
        cov.eval(Some(vcore::hash64(d.name.as_bytes())));
        match code.iter().find(|(_, n)| *n == d.name) {
            None => viol.push(Violation::new("flags-docs", "flags/docs/flag-not-in-code",
                format!("documented flag {} (bit {}) has no constant", d.name, d.bit), json!({"kind":"doc_flag","name":d.name}))),
            Some((bit, _)) => {
                if *bit != d.bit {
                    viol.push(Violation::new("flags-docs", "flags/docs/bit-value-differs",
                        format!("{}: docs say {}, code says {}", d.name, d.bit, bit), json!({"kind":"doc_flag","name":d.name})));
                }
                if !ff::can_read_dataset(d.bit) || !ff::can_write_dataset(d.bit) {
                    viol.push(Violation::new("flags-docs", "flags/docs/documented-flag-refused",
                        format!("documented flag {} is refused", d.name), json!({"kind":"doc_flag","name":d.name})));
                }
            }
        }
    }
    if !ff::FLAG_UNKNOWN.is_power_of_two() || ff::FLAG_UNKNOWN != KNOWN + 1 {
        viol.push(Violation::new("flags-docs", "flags/unknown-constant-not-first-free-bit",
            format!("FLAG_UNKNOWN = {} but the known constants cover {KNOWN:#b}", ff::FLAG_UNKNOWN), json!({"kind":"flag_unknown"})));
    }
    for (bit, name) in &code {
        if !docs.iter().any(|d| d.name == *name) {
            notes.push(format!("doc discrepancy (not judged): {name} (bit {bit}) is known to the code but absent from docs/src/format/table/versioning.md (docs: 'bit values 32 and above are unknown')"));
        }
    }
}

// ------------------------------------------------------------------------------------------------
// (b) apply_feature_flags

fn test_schema() -> Schema {
    let a = arrow_schema::Schema::new(vec![arrow_schema::Field::new("x", arrow_schema::DataType::Int32, true)]);
    Schema::try_from(&a).unwrap()
}

fn mk_fragment(id: u64, del: usize, rid: usize, files: &[(u32, u32)]) -> Fragment {
    let mut f = Fragment::new(id);
    f.physical_rows = Some(10);
    for (i, (ma, mi)) in files.iter().enumerate() {
        f.files.push(DataFile::new(format!("f{id}_{i}.lance"), vec![0], vec![0], *ma, *mi, None, None));
    }
    f.deletion_file = match del {
        0 => None,
        1 => Some(DeletionFile { read_version: 1, id: 7, file_type: DeletionFileType::Array, num_deleted_rows: Some(1), base_id: None }),
        _ => Some(DeletionFile { read_version: 1, id: 8, file_type: DeletionFileType::Bitmap, num_deleted_rows: Some(2), base_id: None }),
    };
    f.row_id_meta = match rid {
        0 => None,
        1 => Some(RowIdMeta::Inline(vec![1, 2, 3])),
        _ => Some(RowIdMeta::External(ExternalFile { path: "rowids".into(), offset: 0, size: 3 })),
    };
    f
}

/// case: {"frags":[[del,rid],..], "config":b, "tmeta":b, "base":b, "stable":b, "notxn":b, "prev":u64}
fn check_apply(case: &Value) -> Vec<Violation> {
    let mut out = vec![];
    let frags: Vec<(usize, usize)> = case["frags"].as_array().unwrap().iter()
        .map(|p| (p[0].as_u64().unwrap() as usize, p[1].as_u64().unwrap() as usize)).collect();
    let b = |k: &str| case[k].as_bool().unwrap();
    let (config, tmeta, base, stable, notxn) = (b("config"), b("tmeta"), b("base"), b("stable"), b("notxn"));
    let prev = case["prev"].as_u64().unwrap();
    let fragments: Vec<Fragment> = frags.iter().enumerate().map(|(i, (d, r))| mk_fragment(i as u64, *d, *r, &[(2, 0)])).collect();
    let mut base_paths = HashMap::new();
    if base {
        base_paths.insert(1u32, BasePath::new(1, "memory://other".into(), Some("o".into()), false));
    }
    let mut m = Manifest::new(test_schema(), Arc::new(fragments), DataStorageFormat::new(V::V2_0), base_paths);
    if config {
        m.config_mut().insert("k".into(), "v".into());
    }
    if tmeta {
        m.table_metadata_mut().insert("tk".into(), "tv".into());
    }
    m.reader_feature_flags = prev;
    m.writer_feature_flags = prev;
    // model (docs/src/format/table/versioning.md + the constant's comment for bit 32)
    let any_del = frags.iter().any(|f| f.0 != 0);
    let any_rid = frags.iter().any(|f| f.1 != 0);
    let all_rid = frags.iter().all(|f| f.1 != 0);
    let want_rid = any_rid || stable;
    let expect_err = want_rid && !all_rid;
    // which side must know each content bit: the documentation table (bit 32, which the table does
    // not list, is writer-only by the constant's doc comment)
    let (rmask, wmask) = required_masks();
    let mut present = 0u64;
    if any_del { present |= 1; }
    if want_rid { present |= 2; }
    if config { present |= 8; }
    if base { present |= 16; }
    if notxn { present |= 32; }
    let rd = present & rmask;
    let wr = present & wmask;
    let mut v = |key: &str, what: String| out.push(Violation::new("flags-apply", key, what, case.clone()));
    match vcore::catch(|| ff::apply_feature_flags(&mut m, stable, notxn)) {
        Err(p) => v("flags/apply/panic", format!("apply_feature_flags panicked: {p}")),
        Ok(Err(e)) => {
            if !expect_err {
                v("flags/apply/unexpected-error", format!("apply_feature_flags failed: {e}"));
            }
        }
        Ok(Ok(())) => {
            if expect_err {
                v("flags/apply/mixed-row-id-fragments-accepted", "fragments with and without row ids accepted".into());
            } else {
                for (which, got, want) in [("reader", m.reader_feature_flags, rd), ("writer", m.writer_feature_flags, wr)] {
                    if got != want {
                        let diff = got ^ want;
                        let bit = 1u64 << diff.trailing_zeros();
                        let dir = if got & bit != 0 { "spurious" } else { "missing" };
                        v(&format!("flags/apply/{which}/{dir}-bit-{bit}"),
                          format!("{which} flags {got:#b}, contents require {want:#b}"));
                    }
                }
                if !ff::can_read_dataset(m.reader_feature_flags) || !ff::can_write_dataset(m.writer_feature_flags) {
                    v("flags/apply/own-flags-refused", "flags written by apply_feature_flags are refused by can_read/can_write".into());
                }
                // protobuf round trip keeps the flags and what they describe
                let p = pb::Manifest::from(&m);
                match Manifest::try_from(p) {
                    Err(e) => v("flags/apply/pb-roundtrip-error", format!("manifest pb round trip failed: {e}")),
                    Ok(back) => {
                        if back.reader_feature_flags != m.reader_feature_flags
                            || back.writer_feature_flags != m.writer_feature_flags
                            || back.config != m.config
                            || back.table_metadata != m.table_metadata
                            || back.base_paths != m.base_paths
                            || back.fragments != m.fragments
                            || back.data_storage_format != m.data_storage_format
                        {
                            v("flags/apply/pb-roundtrip-differs", "manifest pb round trip changes flags / config / base paths / fragments".into());
                        }
                    }
                }
            }
        }
    }
    out
}

fn apply_cases(max_frags: usize) -> Vec<Value> {
    let mut frag_sets: Vec<Vec<(usize, usize)>> = vec![vec![]];
    let mut level: Vec<Vec<(usize, usize)>> = vec![vec![]];
    for _ in 0..max_frags {
        let mut next = vec![];
        for l in &level {
            for d in 0..3 {
                for r in 0..3 {
                    let mut l2 = l.clone();
                    l2.push((d, r));
                    next.push(l2);
                }
            }
        }
        frag_sets.extend(next.iter().cloned());
        level = next;
    }
    let mut v = vec![];
    for fs in &frag_sets {
        vcore::smallx::product(&[2, 2, 2, 2, 2, 3], |ix| {
            let prev = [0u64, u64::MAX, 64][ix[5]];
            v.push(json!({"kind":"apply_flags","frags":fs.iter().map(|(a,b)| vec![*a,*b]).collect::<Vec<_>>(),
                "config":ix[0]==1,"tmeta":ix[1]==1,"base":ix[2]==1,"stable":ix[3]==1,"notxn":ix[4]==1,
                "prev":prev}));
            true
        });
    }
    v
}

// ------------------------------------------------------------------------------------------------
// (c) LanceFileVersion

fn all_variants() -> Vec<V> {
    vec![V::Legacy, V::V2_0, V::Stable, V::V2_1, V::Next, V::V2_2]
}

fn is_alias(v: V) -> bool {
    matches!(v, V::Stable | V::Next)
}

fn check_version_variant(v: V) -> Vec<Violation> {
    let mut out = vec![];
    let name = format!("{v:?}");
    let case = json!({"kind":"version_variant","variant":name});
    let mut vi = |key: &str, what: String| out.push(Violation::new("version-variant", key, what, case.clone()));
    let shown = v.to_string();
    match shown.parse::<V>() {
        Ok(back) if back == v => {}
        other => vi("version/display-parse-roundtrip", format!("{name} displays as {shown:?} which parses to {other:?}")),
    }
    let r = v.resolve();
    if is_alias(r) {
        vi("version/resolve-yields-alias", format!("{name}.resolve() = {r:?} is still an alias"));
    }
    if r.resolve() != r {
        vi("version/resolve-not-idempotent", format!("{name}.resolve().resolve() != resolve()"));
    }
    if !is_alias(v) && r != v {
        vi("version/resolve-changes-concrete", format!("{name}.resolve() = {r:?}"));
    }
    if v.to_numbers() != r.to_numbers() {
        vi("version/to_numbers-alias-differs", format!("{name}.to_numbers() {:?} != resolve().to_numbers() {:?}", v.to_numbers(), r.to_numbers()));
    }
    let (ma, mi) = v.to_numbers();
    match V::try_from_major_minor(ma, mi) {
        Ok(b) if b == r => {}
        other => vi("version/numbers-roundtrip", format!("{name}.to_numbers() = ({ma},{mi}) converts back to {other:?}, expected {r:?}")),
    }
    // the storage format string written to manifests converts back to the concrete version
    let dsf = DataStorageFormat::new(v);
    match dsf.lance_file_version() {
        Ok(b) if b == r => {}
        other => vi("version/data-storage-format-roundtrip", format!("DataStorageFormat::new({name}).lance_file_version() = {other:?}")),
    }
    if dsf.version != r.to_string() {
        vi("version/data-storage-format-string", format!("DataStorageFormat::new({name}).version = {:?}", dsf.version));
    }
    out
}

fn check_major_minor(ma: u32, mi: u32) -> Vec<Violation> {
    let mut out = vec![];
    let case = json!({"kind":"version_numbers","major":ma,"minor":mi});
    let mut vi = |key: &str, what: String| out.push(Violation::new("version-numbers", key, what, case.clone()));
    let from_num = vcore::catch(|| V::try_from_major_minor(ma, mi));
    let from_str = vcore::catch(|| format!("{ma}.{mi}").parse::<V>());
    match (&from_num, &from_str) {
        (Err(p), _) | (_, Err(p)) => vi("version/numbers/panic", format!("({ma},{mi}): panic {p}")),
        (Ok(n), Ok(s)) => {
            if let Ok(v) = n {
                if is_alias(*v) {
                    vi("version/numbers/yield-alias", format!("try_from_major_minor({ma},{mi}) = {v:?}"));
                }
                let (a, b) = v.to_numbers();
                match V::try_from_major_minor(a, b) {
                    Ok(c) if c == *v => {}
                    other => vi("version/numbers/canonical-roundtrip", format!("({ma},{mi}) -> {v:?} -> ({a},{b}) -> {other:?}")),
                }
            }
            // a "major.minor" string that parses names the same version as the number pair
            if let Ok(sv) = s {
                match n {
                    Ok(nv) if *nv == sv.resolve() => {}
                    other => vi("version/numbers/string-and-pair-disagree",
                        format!("\"{ma}.{mi}\" parses to {sv:?} but try_from_major_minor({ma},{mi}) = {other:?}")),
                }
            }
        }
    }
    out
}

/// every documented name must parse; aliases must resolve to the documented concrete version
fn check_doc_version(name: &str, desc: &str) -> Vec<Violation> {
    let mut out = vec![];
    let case = json!({"kind":"doc_version","name":name,"desc":desc});
    let mut vi = |key: &str, what: String| out.push(Violation::new("version-docs", key, what, case.clone()));
    let token = name.split_whitespace().next().unwrap_or("");
    let unstable_in_docs = name.contains("(unstable)") || desc.to_lowercase().contains("unstable version");
    // all case variants of the token
    let variants = [token.to_string(), token.to_uppercase(), {
        let mut c = token.chars();
        c.next().map(|f| f.to_uppercase().collect::<String>() + c.as_str()).unwrap_or_default()
    }];
    let mut parsed = None;
    for s in &variants {
        match vcore::catch(|| s.parse::<V>()) {
            Ok(Ok(v)) => {
                if let Some(p) = parsed {
                    if p != v {
                        vi("version/docs/case-variants-differ", format!("{s:?} parses to {v:?}, {token:?} to {p:?}"));
                    }
                }
                parsed = Some(v);
            }
            Ok(Err(e)) => vi("version/docs/documented-name-rejected", format!("documented version {s:?} does not parse: {e}")),
            Err(p) => vi("version/docs/parse-panic", format!("parse({s:?}) panicked: {p}")),
        }
    }
    let Some(v) = parsed else { return out };
    // "Alias for 0.1", "... (currently 2.0)"
    let target = desc.strip_prefix("Alias for ").and_then(|rest| {
        if let Some(i) = rest.find("currently ") {
            rest[i + 10..].split(|c: char| !(c.is_ascii_digit() || c == '.')).next().map(|s| s.to_string())
        } else {
            rest.split_whitespace().next().map(|s| s.to_string())
        }
    });
    if let Some(t) = target {
        match t.parse::<V>() {
            Ok(tv) => {
                if v.resolve() != tv.resolve() {
                    vi(&format!("version/docs/alias-{token}-resolves-elsewhere"),
                       format!("docs: {token} is an alias for {t}; code resolves it to {:?}", v.resolve()));
                }
                if v.to_numbers() != tv.to_numbers() {
                    vi(&format!("version/docs/alias-{token}-numbers"), format!("{token}.to_numbers() != {t}.to_numbers()"));
                }
            }
            Err(e) => vi("version/docs/alias-target-unparsable", format!("alias target {t:?} does not parse: {e}")),
        }
    } else if let Some((ma, mi)) = token.split_once('.').and_then(|(a, b)| Some((a.parse::<u32>().ok()?, b.parse::<u32>().ok()?))) {
        match V::try_from_major_minor(ma, mi) {
            Ok(n) if n == v => {}
            other => vi("version/docs/numbered-name-vs-pair", format!("{token} parses to {v:?}, pair gives {other:?}")),
        }
    }
    let _ = unstable_in_docs;
    out
}

fn versions(cov: &mut Cov, viol: &mut Vec<Violation>, notes: &mut Vec<String>) {
    for v in all_variants() {
        cov.eval(Some(vcore::hash64(format!("variant{v:?}").as_bytes())));
        viol.extend(check_version_variant(v));
    }
    let mut ok_pairs = 0;
    for ma in 0..=4u32 {
        for mi in 0..=4u32 {
            let ok = V::try_from_major_minor(ma, mi).is_ok();
            if ok { ok_pairs += 1; }
            cov.eval(if ok { Some(vcore::hash64(format!("pair{ma}.{mi}").as_bytes())) } else { None });
            cov.outcome(if ok { "pair-known" } else { "pair-unknown" });
            viol.extend(check_major_minor(ma, mi));
        }
    }
    // boundary pairs
    for (ma, mi) in [(u32::MAX, 0), (0, u32::MAX), (u32::MAX, u32::MAX), (2, u32::MAX)] {
        cov.eval(None);
        viol.extend(check_major_minor(ma, mi));
    }
    let docs = doc_versions();
    for (name, desc) in &docs {
        cov.eval(Some(vcore::hash64(format!("doc{name}").as_bytes())));
        viol.extend(check_doc_version(name, desc));
    }
    // strings that must not parse (near misses over the token alphabet)
    for s in ["", " ", "2", "2.", ".0", "2.0 ", " 2.0", "2.00", "02.0", "v2.0", "2,0", "2.0.0", "stable2", "latest", "0.2", "1.0", "2.3", "-2.0", "+2.0", "２.０"] {
        cov.eval(None);
        match vcore::catch(|| s.parse::<V>()) {
            Ok(Err(_)) => {}
            Ok(Ok(v)) => viol.push(Violation::new("version-docs", "version/undocumented-string-accepted",
                format!("{s:?} is not a documented version name but parses to {v:?}"), json!({"kind":"version_string","s":s}))),
            Err(p) => viol.push(Violation::new("version-docs", "version/parse-panic", format!("parse({s:?}) panicked: {p}"), json!({"kind":"version_string","s":s}))),
        }
    }
    // informational: code versions the documentation does not list / stability classification
    for v in all_variants() {
        let shown = v.to_string();
        if !docs.iter().any(|(n, _)| n.split_whitespace().next() == Some(shown.as_str())) {
            notes.push(format!("doc discrepancy (not judged): version {shown} ({v:?}) exists in code but not in docs/src/format/file/versioning.md"));
        }
        if v.is_unstable() != v.resolve().is_unstable() {
            notes.push(format!("observation (not judged, outside the property statement): {v:?}.is_unstable() = {} but its resolution {:?}.is_unstable() = {}", v.is_unstable(), v.resolve(), v.resolve().is_unstable()));
        }
    }
    cov.outcome(&format!("known-number-pairs-{ok_pairs}"));
    cov.sample(json!({"kind":"version_numbers","major":0,"minor":3}));
    cov.sample(json!({"kind":"doc_version","name":"next"}));
}

// ------------------------------------------------------------------------------------------------
// (d) file versions of fragments

const FILE_VERS: [(u32, u32); 9] = [(0, 0), (0, 1), (0, 2), (0, 3), (2, 0), (2, 1), (2, 2), (1, 0), (2, 3)];

fn class_of(ma: u32, mi: u32) -> Option<V> {
    // independent statement of the documented classes: 0.0-0.2 legacy, 0.3 = 2.0, 2.1, 2.2
    match (ma, mi) {
        (0, 0..=2) => Some(V::Legacy),
        (0, 3) | (2, 0) => Some(V::V2_0),
        (2, 1) => Some(V::V2_1),
        (2, 2) => Some(V::V2_2),
        _ => None,
    }
}

/// case: {"layout":[[ver idx..],[ver idx..]], "v2flag":bool}
fn check_infer(case: &Value) -> Vec<Violation> {
    let mut out = vec![];
    let layout: Vec<Vec<usize>> = case["layout"].as_array().unwrap().iter()
        .map(|f| f.as_array().unwrap().iter().map(|x| x.as_u64().unwrap() as usize).collect()).collect();
    let v2flag = case["v2flag"].as_bool().unwrap();
    let frags: Vec<Fragment> = layout.iter().enumerate()
        .map(|(i, files)| mk_fragment(i as u64, 0, 0, &files.iter().map(|x| FILE_VERS[*x]).collect::<Vec<_>>())).collect();
    let all: Vec<Option<V>> = layout.iter().flatten().map(|x| class_of(FILE_VERS[*x].0, FILE_VERS[*x].1)).collect();
    let want: Result<Option<V>, ()> = if all.is_empty() {
        Ok(None)
    } else if all.iter().any(|c| c.is_none()) || all.iter().any(|c| *c != all[0]) {
        Err(())
    } else {
        Ok(all[0])
    };
    let mut vi = |key: &str, what: String| out.push(Violation::new("version-infer", key, what, case.clone()));
    match vcore::catch(|| Fragment::try_infer_version(&frags)) {
        Err(p) => vi("version/infer/panic", format!("try_infer_version panicked: {p}")),
        Ok(got) => match (&got, &want) {
            (Ok(g), Ok(w)) if g == w => {}
            (Err(_), Err(())) => {}
            (Ok(g), Err(())) => vi("version/infer/mixed-or-unknown-files-accepted", format!("files {layout:?} inferred as {g:?}")),
            (Err(e), Ok(w)) => vi("version/infer/uniform-files-rejected", format!("files {layout:?} rejected ({e}), expected {w:?}")),
            (Ok(g), Ok(w)) => vi("version/infer/wrong-version", format!("files {layout:?} inferred as {g:?}, expected {w:?}")),
        },
    }
    // a manifest stored without data_format takes the version of its files (or legacy / stable by flag 4)
    if let Ok(w) = want {
        let mut m = Manifest::new(test_schema(), Arc::new(frags), DataStorageFormat::new(V::V2_0), HashMap::new());
        m.writer_feature_flags = if v2flag { 4 } else { 0 };
        let mut p = pb::Manifest::from(&m);
        p.data_format = None;
        let expect = match w {
            Some(v) => v,
            None => if v2flag { V::Stable.resolve() } else { V::Legacy },
        };
        match vcore::catch(|| Manifest::try_from(p)) {
            Err(pn) => vi("version/manifest-infer/panic", format!("Manifest::try_from panicked: {pn}")),
            Ok(Err(e)) => vi("version/manifest-infer/error", format!("manifest without data_format rejected: {e}")),
            Ok(Ok(back)) => match back.data_storage_format.lance_file_version() {
                Ok(v) if v == expect => {}
                other => vi("version/manifest-infer/wrong-version", format!("manifest without data_format -> {other:?}, expected {expect:?}")),
            },
        }
    }
    out
}

fn infer_cases() -> Vec<Value> {
    let n = FILE_VERS.len();
    let mut layouts: Vec<Vec<Vec<usize>>> = vec![vec![], vec![vec![]], vec![vec![], vec![]]];
    for a in 0..n {
        layouts.push(vec![vec![a]]);
        layouts.push(vec![vec![], vec![a]]);
        for b in 0..n {
            layouts.push(vec![vec![a, b]]);
            layouts.push(vec![vec![a], vec![b]]);
            for c in 0..n {
                layouts.push(vec![vec![a, b], vec![c]]);
                layouts.push(vec![vec![a], vec![b, c]]);
                layouts.push(vec![vec![a, b, c]]);
            }
        }
    }
    let mut v = vec![];
    for l in layouts {
        for f in [false, true] {
            v.push(json!({"kind":"infer_version","layout":l,"v2flag":f}));
        }
    }
    v
}

// ------------------------------------------------------------------------------------------------

fn check_case(case: &Value) -> Vec<Violation> {
    match case["kind"].as_str().unwrap_or("") {
        "flag_word" => check_word(case["word"].as_u64().unwrap()),
        "apply_flags" => check_apply(case),
        "version_variant" => {
            let n = case["variant"].as_str().unwrap();
            all_variants().into_iter().filter(|v| format!("{v:?}") == n).flat_map(check_version_variant).collect()
        }
        "version_numbers" => check_major_minor(case["major"].as_u64().unwrap() as u32, case["minor"].as_u64().unwrap() as u32),
        "doc_version" => {
            let n = case["name"].as_str().unwrap();
            doc_versions().iter().filter(|(a, _)| a == n).flat_map(|(a, d)| check_doc_version(a, d)).collect()
        }
        "infer_version" => check_infer(case),
        "forged_manifest" | "flag_history" => {
            let mut cov = Cov::new();
            crate::c37_ds::check_case(case, &mut cov)
        }
        "doc_flag" | "flag_unknown" | "version_string" => {
            let mut cov = Cov::new();
            let mut v = vec![];
            let mut notes = vec![];
            flags_vs_docs(&mut cov, &mut v, &mut notes);
            versions(&mut cov, &mut v, &mut notes);
            v
        }
        other => vcore::machinery_error(&format!("C37 replay: unknown case kind {other:?}")),
    }
}

pub fn run(ctx: &Ctx) -> Outcome {
    let mut out = Outcome::new("exploration");
    if let Some(art) = ctx.replay_case() {
        out.violations = check_case(&art["case"]);
        out.set("replayed", true);
        return out;
    }
    let mut cov = Cov::new();
    let mut viol = vec![];
    let mut notes = vec![];
    let low_bits = ctx.tier.pick(10u32, 13u32);
    let max_frags = ctx.tier.pick(2usize, 3usize);
    flag_words(&mut cov, &mut viol, low_bits);
    flags_vs_docs(&mut cov, &mut viol, &mut notes);
    let cases = apply_cases(max_frags);
    let mut apply_err = 0u64;
    for c in &cases {
        let frs = c["frags"].as_array().unwrap();
        let any_rid = frs.iter().any(|f| f[1] != 0) || c["stable"] == true;
        let all_rid = frs.iter().all(|f| f[1] != 0);
        let nt = !frs.is_empty() && (c["config"] == true || c["base"] == true || frs.iter().any(|f| f[0] != 0) || any_rid);
        if any_rid && !all_rid { apply_err += 1; }
        cov.eval(if nt { Some(vcore::hash64(c.to_string().as_bytes())) } else { None });
        viol.extend(check_apply(c));
    }
    cov.outcomes.insert("apply-mixed-row-id-error-expected".into(), apply_err);
    cov.outcomes.insert("apply-cases".into(), cases.len() as u64);
    cov.sample(cases[cases.len() / 2].clone());
    versions(&mut cov, &mut viol, &mut notes);
    let icases = infer_cases();
    for c in &icases {
        cov.eval(Some(vcore::hash64(c.to_string().as_bytes())));
        viol.extend(check_infer(c));
    }
    cov.outcomes.insert("infer-cases".into(), icases.len() as u64);
    // dataset level: forged manifests with unknown flags, flags / storage versions along histories
    let mut dcases = crate::c37_ds::forged_cases(!ctx.quick());
    dcases.extend(crate::c37_ds::history_cases());
    let n_dcases = dcases.len();
    // the 4000-column fixtures first (longest items)
    dcases.sort_by_key(|c| std::cmp::Reverse(c["columns"].as_u64().unwrap_or(0)));
    let dres = vcore::par_map(dcases, ctx.workers, |_, c| {
        let mut cov = Cov::new();
        cov.eval(Some(vcore::hash64(c.to_string().as_bytes())));
        let v = crate::c37_ds::check_case(&c, &mut cov);
        cov.outcome(if v.is_empty() { "dataset-case/ok" } else { "dataset-case/FAIL" });
        (cov, v)
    });
    for (c, v) in dres {
        cov.merge(c);
        viol.extend(v);
    }
    cov.outcomes.insert("dataset-cases".into(), n_dcases as u64);
    cov.sample(json!({"kind":"forged_manifest","store":"memory","columns":4000,"word":64,"mixed":true,"target":"reader"}));
    cov.sample(icases[icases.len() / 3].clone());
    cov.fill(&mut out,
&format!("odometer over: {}x{} flag words ({low_bits} low bits x {{none, one higher bit}}); {} manifest content shapes (<= {max_frags} fragments x 96 switch combinations) for apply_feature_flags; 6 version variants, 25+4 number pairs, all documented names x 3 case variants, 20 near-miss strings; all layouts of <=3 data files (9 file versions) in <=2 fragments x deprecated-v2 flag. non-trivial = word mixing known and unknown bits or non-zero known word / manifest with fragments and at least one flag-relevant content / known number pair / every file layout; dataset level: forged manifests (unknown reader / writer flag word alone and mixed with the flags of the table) on tables of 3/400/4000 columns in memory and 3/400 columns in a local directory, and 6 flag histories (stable row ids x storage version)", 65 - low_bits, 1u64 << low_bits, cases.len()),
        true);
    out.set("doc_notes", json!(notes));
    out.assume("known flag set = OR of the FLAG_* constants of lance-table, cross-checked against the table in docs/src/format/table/versioning.md; reader/writer requirement per flag taken from that table (bit 32 from the constant's doc comment)");
    out.assume("dataset level: forged manifests are re-encoded copies of the latest manifest stored as the next version (MemStore::write_raw / a file in a real directory); block sizes 64 KiB (memory scheme) and 4 KiB (local) are the ones lance-io infers");
    out.violations = viol;
    out
}
