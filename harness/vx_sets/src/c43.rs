//! C43 – schema and projection algebra (K5).
//!
//! Schemas: every forest with <= F Lance fields and nesting depth <= 3 over field kinds {int32, utf8,
//! struct, list<struct>} (a list<struct> is the list field + its `item` struct field), sibling names =
//! every combination from {"a","b","a.b","`x`","é"} (top level: without "a.b", which `validate`
//! forbids), ids = every permutation / gap assignment from a small id set. Every field gets its own
//! nullability and metadata so that an attribute mix-up is visible.
//!
//! Laws, each against a set model on field ids (ancestors of kept fields are kept; a kept field keeps
//! name / type / nullability / metadata / id / parent):
//!   resolve / field / field_path for every field (quoted, dotted), parse∘format of every name tuple;
//!   project(paths) for every field, every ordered pair of fields and all fields;
//!   project_by_ids for every subset of ids (+ an absent id) x include_all_children;
//!   exclude / intersection with every sub-schema (up-closure of every leaf subset, ids kept or
//!   reset, with foreign extra fields); merge of every pair of sub-schemas (+ a type conflict);
//!   Projection: union_column(s), union/intersect/subtract of every pair of column projections,
//!   union_schema / subtract_schema / predicates, to_bare_schema, row-id flags;
//!   Arrow round trip (attributes; ids are re-assigned by design), protobuf `Fields` /
//!   `FieldsWithMeta` round trips (everything incl. ids).

use arrow_schema::{DataType, Field as AField, Fields as AFields, Schema as ASchema};
use lance_core::datatypes::{format_field_path, parse_field_path, Field, OnMissing, Projection, Schema};
use lance_file::datatypes::{Fields, FieldsWithMeta};
use serde_json::{json, Value};
use std::collections::{BTreeMap, BTreeSet, HashMap};
use std::sync::Arc;
use vcore::{Cov, Ctx, Outcome, Violation};

const NEST: [&str; 5] = ["a", "b", "a.b", "`x`", "é"];
const TOP: [&str; 4] = ["a", "b", "`x`", "é"];

// ------------------------------------------------------------------------------------------------
// model

#[derive(Clone, Debug, PartialEq, Eq, Hash, serde::Serialize, serde::Deserialize)]
enum K {
    I32,
    Utf8,
    Struct,
    /// list<struct<..>>: two Lance fields (list + item struct)
    List,
}

#[derive(Clone, Debug, PartialEq, Eq, Hash, serde::Serialize, serde::Deserialize)]
struct N {
    name: String,
    k: K,
    children: Vec<N>,
}

impl N {
    fn fields(&self) -> usize {
        let own = if self.k == K::List { 2 } else { 1 };
        own + self.children.iter().map(|c| c.fields()).sum::<usize>()
    }
}

/// one Lance field of the flattened (pre-order) model
#[derive(Clone, Debug)]
struct MF {
    id: i32,
    parent: Option<usize>,
    name: String,
    ltype: &'static str,
    nullable: bool,
    meta: String,
    leaf: bool,
    path: Vec<String>,
}

#[derive(Clone, Debug)]
struct Model {
    f: Vec<MF>,
}

impl Model {
    fn idx_of(&self, id: i32) -> Option<usize> {
        self.f.iter().position(|x| x.id == id)
    }
    fn anc(&self, i: usize) -> Vec<usize> {
        let mut v = vec![];
        let mut c = self.f[i].parent;
        while let Some(p) = c {
            v.push(p);
            c = self.f[p].parent;
        }
        v
    }
    fn desc(&self, i: usize) -> Vec<usize> {
        (0..self.f.len()).filter(|j| self.anc(*j).contains(&i)).collect()
    }
    fn up(&self, s: &BTreeSet<usize>) -> BTreeSet<usize> {
        let mut o = s.clone();
        for i in s {
            o.extend(self.anc(*i));
        }
        o
    }
    fn ids(&self, s: &BTreeSet<usize>) -> BTreeSet<i32> {
        s.iter().map(|i| self.f[*i].id).collect()
    }
    fn leaves(&self) -> Vec<usize> {
        (0..self.f.len()).filter(|i| self.f[*i].leaf).collect()
    }
    fn path_str(&self, i: usize) -> String {
        let refs: Vec<&str> = self.f[i].path.iter().map(|s| s.as_str()).collect();
        format_field_path(&refs)
    }
    /// structural feature of a field for classification keys
    fn feature(&self, i: usize) -> String {
        let mut parts: BTreeSet<&str> = BTreeSet::new();
        let mut chain = self.anc(i);
        chain.push(i);
        for j in &chain {
            let n = &self.f[*j].name;
            if n.contains('`') {
                parts.insert("backtick-name");
            } else if n.contains('.') {
                parts.insert("dotted-name");
            } else if !n.is_ascii() {
                parts.insert("unicode-name");
            }
        }
        let anc = self.anc(i);
        if anc.iter().any(|j| self.f[*j].ltype.starts_with("list")) {
            parts.insert("in-list");
        } else if !anc.is_empty() {
            parts.insert("in-struct");
        } else {
            parts.insert("top-level");
        }
        if !self.f[i].leaf {
            parts.insert("nested-field");
        }
        parts.into_iter().collect::<Vec<_>>().join("+")
    }
}

fn arrow_field(n: &N, pos: &mut usize) -> AField {
    let my = *pos;
    *pos += 1;
    let meta = |p: usize| -> HashMap<String, String> { [("m".to_string(), format!("p{p}"))].into_iter().collect() };
    let nullable = |p: usize| p % 2 == 0;
    match n.k {
        K::I32 => AField::new(&n.name, DataType::Int32, nullable(my)).with_metadata(meta(my)),
        K::Utf8 => AField::new(&n.name, DataType::Utf8, nullable(my)).with_metadata(meta(my)),
        K::Struct => {
            let ch: Vec<AField> = n.children.iter().map(|c| arrow_field(c, pos)).collect();
            AField::new(&n.name, DataType::Struct(AFields::from(ch)), nullable(my)).with_metadata(meta(my))
        }
        K::List => {
            let item_pos = *pos;
            *pos += 1;
            let ch: Vec<AField> = n.children.iter().map(|c| arrow_field(c, pos)).collect();
            let item = AField::new("item", DataType::Struct(AFields::from(ch)), nullable(item_pos)).with_metadata(meta(item_pos));
            AField::new(&n.name, DataType::List(Arc::new(item)), nullable(my)).with_metadata(meta(my))
        }
    }
}

fn flatten(n: &N, parent: Option<usize>, path: &[String], out: &mut Vec<MF>) {
    let my = out.len();
    let mut p = path.to_vec();
    p.push(n.name.clone());
    let (ltype, leaf) = match n.k {
        K::I32 => ("int32", true),
        K::Utf8 => ("string", true),
        K::Struct => ("struct", false),
        K::List => ("list.struct", false),
    };
    out.push(MF { id: -1, parent, name: n.name.clone(), ltype, nullable: my % 2 == 0, meta: format!("p{my}"), leaf, path: p.clone() });
    let mut cparent = my;
    let mut cpath = p;
    if n.k == K::List {
        let item = out.len();
        cpath.push("item".into());
        out.push(MF { id: -1, parent: Some(my), name: "item".into(), ltype: "struct", nullable: item % 2 == 0, meta: format!("p{item}"), leaf: false, path: cpath.clone() });
        cparent = item;
    }
    for c in &n.children {
        flatten(c, Some(cparent), &cpath, out);
    }
}

fn set_ids(fields: &mut [Field], parent_id: i32, ids: &[i32], pos: &mut usize) {
    for f in fields.iter_mut() {
        f.id = ids[*pos];
        f.parent_id = parent_id;
        *pos += 1;
        let my = f.id;
        set_ids(&mut f.children, my, ids, pos);
    }
}

/// Build the Lance schema and its model from a forest and an id assignment (pre-order)
fn build(forest: &[N], ids: &[i32]) -> Result<(Schema, Model), String> {
    let mut pos = 0;
    let afields: Vec<AField> = forest.iter().map(|n| arrow_field(n, &mut pos)).collect();
    let arrow = ASchema::new(afields);
    let mut schema = Schema::try_from(&arrow).map_err(|e| e.to_string())?;
    let mut p = 0;
    set_ids(&mut schema.fields, -1, ids, &mut p);
    let mut mf = vec![];
    for n in forest {
        flatten(n, None, &[], &mut mf);
    }
    for (i, f) in mf.iter_mut().enumerate() {
        f.id = ids[i];
    }
    Ok((schema, Model { f: mf }))
}

/// restrict a forest to the fields (pre-order positions) in `keep` (must be ancestor-closed)
fn prune(forest: &[N], keep: &BTreeSet<usize>) -> Vec<N> {
    fn rec(n: &N, pos: &mut usize, keep: &BTreeSet<usize>) -> Option<N> {
        let my = *pos;
        *pos += if n.k == K::List { 2 } else { 1 };
        let ch: Vec<N> = n.children.iter().filter_map(|c| rec(c, pos, keep)).collect();
        if keep.contains(&my) {
            Some(N { name: n.name.clone(), k: n.k.clone(), children: ch })
        } else {
            None
        }
    }
    let mut pos = 0;
    forest.iter().filter_map(|n| rec(n, &mut pos, keep)).collect()
}

// ------------------------------------------------------------------------------------------------
// comparison of a result schema with the model

#[derive(Debug)]
struct RF {
    id: i32,
    parent_id_field: i32,
    structural_parent: i32,
    name: String,
    ltype: String,
    nullable: bool,
    meta: Option<String>,
}

fn flatten_schema(s: &Schema) -> Vec<RF> {
    fn rec(f: &Field, parent: i32, out: &mut Vec<RF>) {
        out.push(RF { id: f.id, parent_id_field: f.parent_id, structural_parent: parent, name: f.name.clone(), ltype: f.logical_type.to_string(), nullable: f.nullable, meta: f.metadata.get("m").cloned() });
        for c in &f.children {
            rec(c, f.id, out);
        }
    }
    let mut out = vec![];
    for f in &s.fields {
        rec(f, -1, &mut out);
    }
    out
}

/// (class, focus model index, detail)
type Fail = (String, Option<usize>, String);

fn compare(m: &Model, result: &Schema, expected: &BTreeSet<usize>) -> Result<(), Fail> {
    let rf = flatten_schema(result);
    let mut seen = BTreeSet::new();
    for r in &rf {
        if !seen.insert(r.id) {
            return Err(("duplicate-field".into(), m.idx_of(r.id), format!("field id {} appears twice", r.id)));
        }
    }
    let want = m.ids(expected);
    if let Some(miss) = want.iter().find(|i| !seen.contains(i)) {
        let ix = m.idx_of(*miss);
        return Err(("drops-field".into(), ix, format!("field {} (id {miss}) missing; result ids {seen:?}, expected {want:?}", ix.map(|i| m.path_str(i)).unwrap_or_default())));
    }
    if let Some(extra) = seen.iter().find(|i| !want.contains(i)) {
        let ix = m.idx_of(*extra);
        return Err(("keeps-extra-field".into(), ix, format!("field {} (id {extra}) should not be there; result ids {seen:?}, expected {want:?}", ix.map(|i| m.path_str(i)).unwrap_or_default())));
    }
    for r in &rf {
        let ix = m.idx_of(r.id).unwrap();
        let o = &m.f[ix];
        let parent_id = o.parent.map(|p| m.f[p].id).unwrap_or(-1);
        let attr = if r.name != o.name {
            Some("name")
        } else if r.ltype != o.ltype {
            Some("type")
        } else if r.nullable != o.nullable {
            Some("nullability")
        } else if r.meta.as_deref() != Some(o.meta.as_str()) {
            Some("metadata")
        } else if r.structural_parent != parent_id {
            Some("position-in-tree")
        } else if r.parent_id_field != parent_id {
            Some("parent_id")
        } else {
            None
        };
        if let Some(a) = attr {
            return Err((format!("attribute-changed-{a}"), Some(ix), format!("field id {} came back as {r:?}, original {o:?}", r.id)));
        }
    }
    Ok(())
}

// ------------------------------------------------------------------------------------------------
// checks on one schema

struct Checker<'a> {
    forest: &'a [N],
    ids: &'a [i32],
    s: Schema,
    m: Model,
    cov: &'a mut Cov,
    viol: &'a mut BTreeMap<String, Violation>,
    /// fields taking part in the current law evaluation (for classification)
    involved: Vec<usize>,
}

impl Checker<'_> {
    fn top_of(&self, i: usize) -> usize {
        self.m.anc(i).last().copied().unwrap_or(i)
    }

    /// op / class / structural cause: the narrowest feature of the involved fields that the failure
    /// class is known to depend on, else the name / nesting feature of the focus field
    fn report(&mut self, op: &str, arg: Value, f: Fail) {
        let (class, focus, detail) = f;
        // the name-based operations look top-level fields up one by one, so the cause is the top-level
        // ancestor of the field that came out wrong (for an outright error: of any requested path)
        let mut inv: Vec<usize> = if class == "error" { self.involved.clone() } else { vec![] };
        inv.extend(focus);
        let top_backtick = inv.iter().any(|i| self.m.f[self.top_of(*i)].name.contains('`'));
        let name_based = matches!(op, "project" | "exclude" | "intersection" | "merge");
        let (op_k, feat): (String, String) = if name_based && top_backtick {
            (op.to_string(), "top-level-backtick-name".into())
        } else if op == "exclude" && class == "drops-field" && focus.map(|i| self.m.f[self.top_of(i)].ltype.starts_with("list")).unwrap_or(false) {
            (op.to_string(), "top-level-list-partially-excluded".into())
        } else if class == "panic-assertion" && op.starts_with("projection") && detail.contains("projection.contains_field_id(self.id)") {
            ("projection-to_bare_schema".to_string(), "parent-id-without-child-ids".into())
        } else {
            (op.to_string(), focus.map(|i| self.m.feature(i)).unwrap_or_else(|| "-".into()))
        };
        let key = format!("schema/{op_k}/{class}/{feat}");
        self.cov.outcome(&format!("FAIL {key}"));
        let case = json!({"kind":"schema_op","forest": serde_json::to_value(self.forest).unwrap(), "ids": self.ids, "op": op, "arg": arg});
        self.viol.entry(key.clone()).or_insert_with(|| Violation::new(&format!("schema-{op}"), &key, format!("{op}({arg}) on {}: {}", describe(self.forest, self.ids), detail.chars().take(400).collect::<String>()), case));
    }

    fn guard<T>(&mut self, op: &str, arg: &Value, f: impl FnOnce(&Schema, &Model) -> Result<T, Fail>) -> Option<T> {
        self.cov.evaluations += 1;
        let r = vcore::catch(|| f(&self.s, &self.m));
        match r {
            Ok(Ok(t)) => {
                self.cov.outcome(&format!("{op}/ok"));
                Some(t)
            }
            Ok(Err(fail)) => {
                self.report(op, arg.clone(), fail);
                None
            }
            Err(p) => {
                let class = if p.contains("assertion failed") { "panic-assertion" } else if p.contains("unwrap") { "panic-unwrap" } else { "panic-other" };
                self.report(op, arg.clone(), (class.into(), None, p));
                None
            }
        }
    }

    fn resolve_all(&mut self) {
        self.involved = vec![];
        for i in 0..self.m.f.len() {
            let path = self.m.path_str(i);
            let arg = json!({"field": i});
            self.guard("resolve", &arg, |s, m| {
                let mut chain = m.anc(i);
                chain.reverse();
                chain.push(i);
                let want: Vec<i32> = chain.iter().map(|j| m.f[*j].id).collect();
                match s.resolve(&path) {
                    None => return Err(("not-found".into(), Some(i), format!("resolve({path:?}) = None"))),
                    Some(fs) => {
                        let got: Vec<i32> = fs.iter().map(|f| f.id).collect();
                        if got != want {
                            return Err(("wrong-field".into(), Some(i), format!("resolve({path:?}) -> ids {got:?}, expected {want:?}")));
                        }
                    }
                }
                match s.field(&path) {
                    Some(f) if f.id == m.f[i].id => {}
                    other => return Err(("field-lookup".into(), Some(i), format!("field({path:?}) = {:?}", other.map(|f| f.id)))),
                }
                match s.field_path(m.f[i].id) {
                    Ok(p) if p == path => {}
                    other => return Err(("field_path".into(), Some(i), format!("field_path({}) = {other:?}, expected {path:?}", m.f[i].id))),
                }
                // unquoted dotted form when no segment needs quoting
                if m.f[i].path.iter().all(|n| !n.contains('.') && !n.contains('`')) {
                    let plain = m.f[i].path.join(".");
                    if s.resolve(&plain).map(|fs| fs.last().unwrap().id) != Some(m.f[i].id) {
                        return Err(("plain-path-not-found".into(), Some(i), format!("resolve({plain:?}) does not hit id {}", m.f[i].id)));
                    }
                }
                // a path one step further than a leaf / to an unknown child does not resolve
                let bogus = format!("{path}.zz");
                if s.resolve(&bogus).is_some() {
                    return Err(("unknown-child-resolves".into(), Some(i), format!("resolve({bogus:?}) is Some")));
                }
                // a field reached by id is the one reached by path
                match s.field_by_id(m.f[i].id) {
                    Some(f) if f.name == m.f[i].name => {}
                    other => return Err(("field_by_id".into(), Some(i), format!("field_by_id({}) = {:?}", m.f[i].id, other.map(|f| &f.name)))),
                }
                Ok(())
            });
        }
    }

    fn project_all(&mut self) {
        let n = self.m.f.len();
        let mut sels: Vec<Vec<usize>> = vec![];
        for i in 0..n {
            sels.push(vec![i]);
            for j in 0..n {
                if i != j {
                    sels.push(vec![i, j]);
                }
            }
        }
        sels.push((0..n).collect());
        for sel in sels {
            let paths: Vec<String> = sel.iter().map(|i| self.m.path_str(*i)).collect();
            let arg = json!({"paths": paths});
            let focus = sel[0];
            self.involved = sel.clone();
            self.guard("project", &arg, |s, m| {
                let mut want = BTreeSet::new();
                for i in &sel {
                    want.insert(*i);
                    want.extend(m.anc(*i));
                    want.extend(m.desc(*i));
                }
                match s.project(&paths) {
                    Err(e) => Err(("error".into(), Some(focus), format!("project({paths:?}) failed: {e}"))),
                    Ok(r) => compare(m, &r, &want),
                }
            });
        }
        let arg = json!({"paths": ["zz"]});
        self.involved = vec![];
        self.guard("project", &arg, |s, _| if s.project(&["zz"]).is_ok() { Err(("unknown-column-accepted".into(), None, "project([\"zz\"]) is Ok".into())) } else { Ok(()) });
    }

    fn project_by_ids_all(&mut self) {
        self.involved = vec![];
        let n = self.m.f.len();
        for mask in 0u32..(1 << (n + 1)) {
            for all_children in [false, true] {
                let mut ids: Vec<i32> = (0..n).filter(|i| mask & (1 << i) != 0).map(|i| self.m.f[i].id).collect();
                if mask & (1 << n) != 0 {
                    ids.push(77);
                }
                let arg = json!({"ids": ids, "include_all_children": all_children});
                self.guard("project_by_ids", &arg, |s, m| {
                    let sel: BTreeSet<usize> = (0..n).filter(|i| mask & (1 << i) != 0).collect();
                    // documented rule: a selected field is kept with its ancestors; its children are
                    // all kept when include_all_children or when none of its descendants was selected
                    let mut want = m.up(&sel);
                    for i in &sel {
                        let d = m.desc(*i);
                        if all_children || !d.iter().any(|x| sel.contains(x)) {
                            want.extend(d);
                        }
                    }
                    if all_children {
                        // closure: children of selected fields, transitively
                        let mut more = want.clone();
                        for i in &sel {
                            more.extend(m.desc(*i));
                        }
                        want = more;
                    }
                    let r = s.project_by_ids(&ids, all_children);
                    compare(m, &r, &want).map_err(|(c, f, d)| (c, f.or(sel.iter().next().copied()), d))
                });
            }
        }
    }

    /// sub-schemas: up-closure of each leaf subset, as (kept positions, Lance schema with same ids, with fresh ids)
    fn subschemas(&self) -> Vec<(BTreeSet<usize>, Schema, Schema)> {
        let leaves = self.m.leaves();
        let mut out = vec![];
        for mask in 0u32..(1 << leaves.len()) {
            let sel: BTreeSet<usize> = leaves.iter().enumerate().filter(|(k, _)| mask & (1 << k) != 0).map(|(_, i)| *i).collect();
            let keep = self.m.up(&sel);
            let pr = prune(self.forest, &keep);
            let kept_ids: Vec<i32> = (0..self.m.f.len()).filter(|i| keep.contains(i)).map(|i| self.m.f[i].id).collect();
            if let Ok((same, _)) = build(&pr, &kept_ids) {
                let fresh: Vec<i32> = (0..kept_ids.len() as i32).map(|x| 100 + x).collect();
                let (other, _) = build(&pr, &fresh).unwrap();
                out.push((keep, same, other));
            }
        }
        out
    }

    fn exclude_intersect_all(&mut self, subs: &[(BTreeSet<usize>, Schema, Schema)]) {
        let leaves: BTreeSet<usize> = self.m.leaves().into_iter().collect();
        for (keep, same, fresh) in subs {
            let other_leaves: BTreeSet<usize> = keep.intersection(&leaves).copied().collect();
            self.involved = (0..self.m.f.len()).collect();
            for (variant, other) in [("same-ids", same), ("fresh-ids", fresh)] {
                let names: Vec<String> = other_leaves.iter().map(|i| self.m.path_str(*i)).collect();
                let arg = json!({"other_leaves": names, "variant": variant});
                let focus_ex = leaves.difference(&other_leaves).next().copied().or(other_leaves.iter().next().copied());
                self.guard("exclude", &arg, |s, m| {
                    let rest: BTreeSet<usize> = leaves.difference(&other_leaves).copied().collect();
                    let want = m.up(&rest);
                    match s.exclude(other) {
                        Err(e) => Err(("error".into(), focus_ex, format!("exclude failed: {e}"))),
                        Ok(r) => compare(m, &r, &want).map_err(|(c, f, d)| (c, f.or(focus_ex), d)),
                    }
                });
                let focus_in = other_leaves.iter().next().copied();
                self.guard("intersection", &arg, |s, m| {
                    let want = m.up(&other_leaves);
                    match s.intersection(other) {
                        Err(e) => Err(("error".into(), focus_in, format!("intersection failed: {e}"))),
                        Ok(r) => compare(m, &r, &want).map_err(|(c, f, d)| (c, f.or(focus_in), d)),
                    }
                });
            }
            // foreign extra top-level field in `other` is ignored by both
            let mut foreign = fresh.clone();
            if foreign.extend(&[AField::new("zz", DataType::Int32, true)]).is_ok() {
                let names: Vec<String> = other_leaves.iter().map(|i| self.m.path_str(*i)).collect();
                let arg = json!({"other_leaves": names, "variant": "foreign-extra-field"});
                let focus = other_leaves.iter().next().copied();
                self.guard("intersection", &arg, |s, m| {
                    let want = m.up(&other_leaves);
                    match s.intersection(&foreign) {
                        Err(e) => Err(("error".into(), focus, format!("intersection failed: {e}"))),
                        Ok(r) => compare(m, &r, &want).map_err(|(c, f, d)| (c, f.or(focus), d)),
                    }
                });
            }
        }
    }

    /// `other` = the whole schema with a foreign child `zz` added to every struct: intersection and
    /// exclude must ignore the foreign children; a leaf whose type differs makes intersection fail
    /// (or drop it), never keep it with the wrong type; merge of conflicting leaf types is an error.
    fn foreign_all(&mut self) {
        fn add_zz(ns: &[N]) -> Vec<N> {
            ns.iter().map(|n| {
                let mut c = add_zz(&n.children);
                if !n.children.is_empty() {
                    c.push(N { name: "zz".into(), k: K::I32, children: vec![] });
                }
                N { name: n.name.clone(), k: n.k.clone(), children: c }
            }).collect()
        }
        fn flip_first_leaf(ns: &[N], done: &mut bool) -> Vec<N> {
            ns.iter().map(|n| {
                if n.children.is_empty() && !*done {
                    *done = true;
                    N { name: n.name.clone(), k: if n.k == K::I32 { K::Utf8 } else { K::I32 }, children: vec![] }
                } else {
                    N { name: n.name.clone(), k: n.k.clone(), children: flip_first_leaf(&n.children, done) }
                }
            }).collect()
        }
        self.involved = (0..self.m.f.len()).collect();
        let n = self.m.f.len();
        let all: BTreeSet<usize> = (0..n).collect();
        let with_zz = add_zz(self.forest);
        let nz: usize = with_zz.iter().map(|x| x.fields()).sum();
        if let Ok((other, _)) = build(&with_zz, &(200..200 + nz as i32).collect::<Vec<_>>()) {
            let arg = json!({"variant": "foreign-nested-children"});
            self.guard("intersection", &arg, |s, m| match s.intersection(&other) {
                Err(e) => Err(("error".into(), Some(0), format!("intersection failed: {e}"))),
                Ok(r) => compare(m, &r, &all).map_err(|(c, f, d)| (c, f.or(Some(0)), d)),
            });
            self.guard("exclude", &arg, |s, m| match s.exclude(&other) {
                Err(e) => Err(("error".into(), Some(0), format!("exclude failed: {e}"))),
                Ok(r) => compare(m, &r, &BTreeSet::new()).map_err(|(c, f, d)| (c, f.or(Some(0)), d)),
            });
        }
        let mut done = false;
        let flipped = flip_first_leaf(self.forest, &mut done);
        if let Ok((other, _)) = build(&flipped, &(300..300 + n as i32).collect::<Vec<_>>()) {
            let first_leaf = self.m.leaves()[0];
            let arg = json!({"variant": "first-leaf-type-differs"});
            self.guard("intersection", &arg, |s, m| match s.intersection(&other) {
                Err(_) => Ok(()),
                Ok(r) => {
                    // accepted: then the conflicting leaf must be absent, never silently kept
                    let ids: BTreeSet<i32> = flatten_schema(&r).iter().map(|f| f.id).collect();
                    if ids.contains(&m.f[first_leaf].id) {
                        Err(("type-conflict-kept".into(), Some(first_leaf), "intersection keeps a leaf whose type differs in the other schema".into()))
                    } else {
                        Ok(())
                    }
                }
            });
            self.guard("merge", &arg, |s, _| match s.merge(&other) {
                Err(_) => Ok(()),
                Ok(_) => Err(("type-conflict-accepted".into(), Some(first_leaf), "merge of schemas whose leaf types conflict returned Ok".into())),
            });
        }
        // project_or_drop ignores unknown columns and otherwise equals project
        for i in 0..n {
            let path = self.m.path_str(i);
            let arg = json!({"paths": ["zz", path], "or_drop": true});
            self.involved = vec![i];
            self.guard("project", &arg, |s, m| {
                let mut want: BTreeSet<usize> = [i].into_iter().collect();
                want.extend(m.anc(i));
                want.extend(m.desc(i));
                match s.project_or_drop(&["zz".to_string(), path.clone(), "zz.a".to_string()]) {
                    Err(e) => Err(("error".into(), Some(i), format!("project_or_drop failed: {e}"))),
                    Ok(r) => compare(m, &r, &want),
                }
            });
        }
    }

    fn merge_all(&mut self, subs: &[(BTreeSet<usize>, Schema, Schema)]) {
        for (ka, a, _) in subs {
            if ka.is_empty() {
                continue;
            }
            for (kb, _, b) in subs {
                let arg = json!({"a": ka, "b": kb});
                self.involved = ka.union(kb).copied().collect();
                let union: BTreeSet<usize> = ka.union(kb).copied().collect();
                let focus = kb.difference(ka).next().copied().or(ka.iter().next().copied());
                self.guard("merge", &arg, |_, m| {
                    match a.merge(b) {
                        Err(e) => Err(("error".into(), focus, format!("merge failed: {e}"))),
                        Ok(mut r) => {
                            // fields of `a` keep id and attributes; fields only in `b` arrive with id -1
                            let rf = flatten_schema(&r);
                            let mut got_paths: BTreeMap<Vec<String>, &RF> = BTreeMap::new();
                            fn paths<'x>(fs: &'x [Field], pre: &[String], out: &mut Vec<(Vec<String>, i32)>) {
                                for f in fs {
                                    let mut p = pre.to_vec();
                                    p.push(f.name.clone());
                                    out.push((p.clone(), f.id));
                                    paths(&f.children, &p, out);
                                }
                            }
                            let mut ps = vec![];
                            paths(&r.fields, &[], &mut ps);
                            let _ = (&rf, &mut got_paths);
                            let want_paths: BTreeSet<Vec<String>> = union.iter().map(|i| m.f[*i].path.clone()).collect();
                            let gp: BTreeSet<Vec<String>> = ps.iter().map(|(p, _)| p.clone()).collect();
                            if gp != want_paths {
                                let miss = want_paths.difference(&gp).next().cloned();
                                let class = if miss.is_some() { "drops-field" } else { "keeps-extra-field" };
                                let f2 = miss.and_then(|p| m.f.iter().position(|x| x.path == p)).or(focus);
                                return Err((class.into(), f2, format!("merged paths {gp:?}, expected {want_paths:?}")));
                            }
                            for (p, id) in &ps {
                                let ix = m.f.iter().position(|x| &x.path == p).unwrap();
                                let want_id = if ka.contains(&ix) { m.f[ix].id } else { -1 };
                                if *id != want_id {
                                    return Err(("wrong-id".into(), Some(ix), format!("merged field {p:?} has id {id}, expected {want_id}")));
                                }
                            }
                            // assigning ids afterwards keeps the old ones and makes all unique
                            r.set_field_id(None);
                            let ids2: Vec<i32> = r.field_ids();
                            let uniq: BTreeSet<i32> = ids2.iter().copied().collect();
                            if uniq.len() != ids2.len() || ids2.iter().any(|i| *i < 0) {
                                return Err(("ids-after-set_field_id".into(), focus, format!("ids after set_field_id: {ids2:?}")));
                            }
                            for i in ka {
                                if !ids2.contains(&m.f[*i].id) {
                                    return Err(("existing-id-lost".into(), Some(*i), format!("id {} of the left schema not kept: {ids2:?}", m.f[*i].id)));
                                }
                            }
                            Ok(())
                        }
                    }
                });
            }
        }
    }

    fn projection_all(&mut self, subs: &[(BTreeSet<usize>, Schema, Schema)]) {
        self.involved = vec![];
        let n = self.m.f.len();
        let base: Arc<Schema> = Arc::new(self.s.clone());
        // column projections
        let mut projs: Vec<(String, BTreeSet<usize>, Projection)> = vec![];
        projs.push(("empty".into(), BTreeSet::new(), Projection::empty(base.clone())));
        let full = self.guard("projection-full", &json!({}), |_, m| {
            let p = Projection::full(base.clone());
            let want: BTreeSet<i32> = m.f.iter().map(|f| f.id).collect();
            let got: BTreeSet<i32> = p.field_ids.iter().copied().collect();
            if got != want {
                return Err(("wrong-ids".into(), None, format!("full() ids {got:?}")));
            }
            Ok(p)
        });
        if let Some(p) = full {
            projs.push(("full".into(), (0..n).collect(), p));
        }
        for i in 0..n {
            let path = self.m.path_str(i);
            let arg = json!({"column": path});
            let b2 = base.clone();
            let r = self.guard("union_column", &arg, |_, m| {
                let mut want: BTreeSet<usize> = [i].into_iter().collect();
                want.extend(m.anc(i));
                want.extend(m.desc(i));
                match Projection::empty(b2).union_column(&path, OnMissing::Error) {
                    Err(e) => Err(("error".into(), Some(i), format!("union_column({path:?}) failed: {e}"))),
                    Ok(p) => {
                        let got: BTreeSet<i32> = p.field_ids.iter().copied().collect();
                        if got != m.ids(&want) {
                            return Err(("wrong-ids".into(), Some(i), format!("union_column({path:?}) ids {got:?}, expected {:?}", m.ids(&want))));
                        }
                        Ok((want, p))
                    }
                }
            });
            if let Some((w, p)) = r {
                projs.push((path, w, p));
            }
        }
        // every projection converts to the schema of its ids (+ ancestors)
        let to_schema = |s: &mut Self, label: &str, want: &BTreeSet<usize>, p: &Projection, opname: &str| {
            let arg = json!({"projection": label});
            let focus = want.iter().next().copied();
            s.guard(opname, &arg, |_, m| {
                let got: BTreeSet<i32> = p.field_ids.iter().copied().collect();
                if got != m.ids(want) {
                    return Err(("wrong-ids".into(), focus, format!("{label}: field_ids {got:?}, expected {:?}", m.ids(want))));
                }
                let bare = p.to_bare_schema();
                compare(m, &bare, &m.up(want)).map_err(|(c, f, d)| (format!("to_bare_schema-{c}"), f.or(focus), d))
            });
        };
        for (label, want, p) in projs.clone().iter() {
            to_schema(self, label, want, p, "projection-to_schema");
        }
        // pairs
        for (la, wa, pa) in projs.clone().iter() {
            for (lb, wb, pb) in projs.clone().iter() {
                let u: BTreeSet<usize> = wa.union(wb).copied().collect();
                let i: BTreeSet<usize> = wa.intersection(wb).copied().collect();
                let d: BTreeSet<usize> = wa.difference(wb).copied().collect();
                to_schema(self, &format!("({la}) union ({lb})"), &u, &pa.clone().union_projection(pb), "projection-union");
                to_schema(self, &format!("({la}) intersect ({lb})"), &i, &pa.clone().intersect(pb), "projection-intersect");
                to_schema(self, &format!("({la}) subtract ({lb})"), &d, &pa.clone().subtract_projection(pb), "projection-subtract");
            }
        }
        // union_schema / subtract_schema with every sub-schema (same ids)
        for (keep, same, _) in subs {
            to_schema(self, &format!("empty union_schema {keep:?}"), keep, &Projection::empty(base.clone()).union_schema(same), "projection-union_schema");
            let rest: BTreeSet<usize> = (0..n).filter(|x| !keep.contains(x)).collect();
            to_schema(self, &format!("full subtract_schema {keep:?}"), &rest, &Projection::full(base.clone()).subtract_schema(same), "projection-subtract_schema");
        }
        // predicates and row-id flags
        let ints: BTreeSet<usize> = (0..n).filter(|i| self.m.f[*i].ltype == "int32").collect();
        to_schema(self, "union_predicate(int32)", &ints, &Projection::empty(base.clone()).union_predicate(|f| f.logical_type.to_string() == "int32"), "projection-union_predicate");
        let non_ints: BTreeSet<usize> = (0..n).filter(|i| !ints.contains(i)).collect();
        to_schema(self, "full subtract_predicate(int32)", &non_ints, &Projection::full(base.clone()).subtract_predicate(|f| f.logical_type.to_string() == "int32"), "projection-subtract_predicate");
        self.guard("projection-row-id", &json!({}), |_, m| {
            let p = Projection::full(base.clone()).with_row_id().with_row_addr();
            let q = Projection::empty(base.clone()).with_row_id();
            let i = p.clone().intersect(&q);
            let d = p.clone().subtract_projection(&q);
            if !(i.with_row_id && !i.with_row_addr && !d.with_row_id && d.with_row_addr) {
                return Err(("flags".into(), None, "row id / row addr flags do not follow intersect / subtract".into()));
            }
            let sch = p.to_schema();
            let names: Vec<&str> = sch.fields.iter().map(|f| f.name.as_str()).collect();
            if names.len() != m.f.iter().filter(|f| f.parent.is_none()).count() + 2 || !names.contains(&"_rowid") || !names.contains(&"_rowaddr") {
                return Err(("to_schema-row-id-columns".into(), None, format!("to_schema fields {names:?}")));
            }
            Ok(())
        });
    }

    fn roundtrips(&mut self) {
        self.involved = vec![];
        self.guard("arrow-roundtrip", &json!({}), |s, m| {
            let a = ASchema::from(s);
            let back = Schema::try_from(&a).map_err(|e| ("error".to_string(), None, e.to_string()))?;
            // ids are re-assigned in pre-order by design: compare everything else positionally
            let rf = flatten_schema(&back);
            if rf.len() != m.f.len() {
                return Err(("field-count".into(), None, format!("{} fields after arrow round trip", rf.len())));
            }
            for (i, (r, o)) in rf.iter().zip(m.f.iter()).enumerate() {
                let attr = if r.name != o.name { Some("name") } else if r.ltype != o.ltype { Some("type") } else if r.nullable != o.nullable { Some("nullability") } else if r.meta.as_deref() != Some(o.meta.as_str()) { Some("metadata") } else if r.id != i as i32 { Some("fresh-id") } else { None };
                if let Some(a) = attr {
                    return Err((format!("attribute-changed-{a}"), Some(i), format!("{r:?} vs {o:?}")));
                }
            }
            Ok(())
        });
        self.guard("pb-roundtrip", &json!({}), |s, m| {
            let all: BTreeSet<usize> = (0..m.f.len()).collect();
            let fields = Fields::from(s);
            let back = Schema::from(&fields);
            compare(m, &back, &all).map_err(|(c, f, d)| (format!("fields-{c}"), f, d))?;
            let mut s2 = s.clone();
            s2.metadata.insert("schema-key".into(), "värde".into());
            let fwm = FieldsWithMeta::from(&s2);
            let back2 = Schema::from(fwm);
            compare(m, &back2, &all).map_err(|(c, f, d)| (format!("fields-with-meta-{c}"), f, d))?;
            if back2.metadata != s2.metadata {
                return Err(("schema-metadata".into(), None, format!("schema metadata {:?}", back2.metadata)));
            }
            if back2 != s2 {
                return Err(("not-equal".into(), None, "FieldsWithMeta round trip is not equal to the original schema".into()));
            }
            Ok(())
        });
    }
}

fn describe(forest: &[N], ids: &[i32]) -> String {
    fn rec(n: &N, out: &mut String) {
        out.push_str(&format!("{:?}", n.name));
        match n.k {
            K::I32 => out.push_str(":i32"),
            K::Utf8 => out.push_str(":utf8"),
            K::Struct | K::List => {
                out.push_str(if n.k == K::List { ":list<struct{" } else { ":struct{" });
                for (i, c) in n.children.iter().enumerate() {
                    if i > 0 {
                        out.push(',');
                    }
                    rec(c, out);
                }
                out.push_str(if n.k == K::List { "}>" } else { "}" });
            }
        }
    }
    let mut s = String::from("schema[");
    for (i, n) in forest.iter().enumerate() {
        if i > 0 {
            s.push(',');
        }
        rec(n, &mut s);
    }
    s.push_str(&format!("] ids(pre-order)={ids:?}"));
    s
}

fn check_schema(forest: &[N], ids: &[i32], cov: &mut Cov, viol: &mut BTreeMap<String, Violation>, only: Option<&str>) {
    let (s, m) = match vcore::catch(|| build(forest, ids)) {
        Ok(Ok(x)) => x,
        Ok(Err(e)) => {
            cov.outcome("schema-rejected");
            let key = "schema/build/rejected".to_string();
            viol.entry(key.clone()).or_insert_with(|| Violation::new("schema-build", &key, format!("{} rejected: {e}", describe(forest, ids)), json!({"kind":"schema_op","forest":serde_json::to_value(forest).unwrap(),"ids":ids,"op":"build","arg":{}})));
            return;
        }
        Err(p) => {
            let key = "schema/build/panic".to_string();
            viol.entry(key.clone()).or_insert_with(|| Violation::new("schema-build", &key, format!("{} panicked: {p}", describe(forest, ids)), json!({"kind":"schema_op","forest":serde_json::to_value(forest).unwrap(),"ids":ids,"op":"build","arg":{}})));
            return;
        }
    };
    let mut c = Checker { forest, ids, s, m, cov, viol, involved: vec![] };
    let want = |name: &str| only.map(|o| o.starts_with(name) || name.starts_with(o)).unwrap_or(true);
    if want("resolve") {
        c.resolve_all();
    }
    if want("project") {
        c.project_all();
        c.project_by_ids_all();
    }
    let subs = c.subschemas();
    if want("exclude") || want("intersection") {
        c.exclude_intersect_all(&subs);
    }
    if want("merge") {
        c.merge_all(&subs);
    }
    if want("exclude") || want("intersection") || want("merge") || want("project") {
        c.foreign_all();
    }
    if want("projection") || want("union_column") {
        c.projection_all(&subs);
    }
    if want("arrow-roundtrip") || want("pb-roundtrip") {
        c.roundtrips();
    }
}

// ------------------------------------------------------------------------------------------------
// enumeration

fn name_combos(pool: &[&str], k: usize) -> Vec<Vec<String>> {
    // combinations (sibling order = pool order)
    let mut out = vec![];
    let n = pool.len();
    for mask in 0u32..(1 << n) {
        if mask.count_ones() as usize == k {
            out.push((0..n).filter(|i| mask & (1 << i) != 0).map(|i| pool[i].to_string()).collect());
        }
    }
    out
}

/// all sibling lists using exactly `budget` Lance fields with remaining depth `depth`
fn sibling_lists(budget: usize, depth: usize, top: bool) -> Vec<Vec<N>> {
    // unnamed shapes first, then names
    fn shapes(budget: usize, depth: usize) -> Vec<Vec<N>> {
        if budget == 0 {
            return vec![vec![]];
        }
        if depth == 0 {
            return vec![];
        }
        let mut out = vec![];
        // first sibling takes `k` fields, the rest take budget-k
        for k in 1..=budget {
            let mut firsts: Vec<N> = vec![];
            if k == 1 {
                firsts.push(N { name: String::new(), k: K::I32, children: vec![] });
                firsts.push(N { name: String::new(), k: K::Utf8, children: vec![] });
            }
            if k >= 2 && depth >= 2 {
                for ch in shapes(k - 1, depth - 1) {
                    if !ch.is_empty() {
                        firsts.push(N { name: String::new(), k: K::Struct, children: ch });
                    }
                }
            }
            if k >= 3 && depth >= 3 {
                for ch in shapes(k - 2, depth - 2) {
                    if !ch.is_empty() {
                        firsts.push(N { name: String::new(), k: K::List, children: ch });
                    }
                }
            }
            for f in &firsts {
                for rest in shapes(budget - k, depth) {
                    let mut v = vec![f.clone()];
                    v.extend(rest);
                    out.push(v);
                }
            }
        }
        out
    }
    fn name_it(sibs: &[N], top: bool) -> Vec<Vec<N>> {
        let pool: &[&str] = if top { &TOP } else { &NEST };
        let mut out = vec![];
        if sibs.len() > pool.len() {
            return out;
        }
        for names in name_combos(pool, sibs.len()) {
            // children of each sibling named independently
            let mut partial: Vec<Vec<N>> = vec![vec![]];
            for (s, nm) in sibs.iter().zip(names.iter()) {
                let child_opts: Vec<Vec<N>> = if s.children.is_empty() { vec![vec![]] } else { name_it(&s.children, false) };
                let mut next = vec![];
                for p in &partial {
                    for co in &child_opts {
                        let mut p2 = p.clone();
                        p2.push(N { name: nm.clone(), k: s.k.clone(), children: co.clone() });
                        next.push(p2);
                    }
                }
                partial = next;
            }
            out.extend(partial);
        }
        out
    }
    let mut out = vec![];
    for sh in shapes(budget, depth) {
        out.extend(name_it(&sh, top));
    }
    out
}

fn id_assignments(n: usize, thorough: bool) -> Vec<Vec<i32>> {
    let mut out: Vec<Vec<i32>> = vec![];
    if n <= 3 || thorough {
        // every injective assignment from {0,1,2,5} (n<=3) / every permutation of 0..n plus gaps
        let pool: Vec<i32> = if n <= 3 { vec![0, 1, 2, 5] } else { (0..n as i32).collect() };
        fn rec(pool: &[i32], n: usize, cur: &mut Vec<i32>, out: &mut Vec<Vec<i32>>) {
            if cur.len() == n {
                out.push(cur.clone());
                return;
            }
            for x in pool {
                if !cur.contains(x) {
                    cur.push(*x);
                    rec(pool, n, cur, out);
                    cur.pop();
                }
            }
        }
        rec(&pool, n, &mut vec![], &mut out);
        if n > 3 {
            out.push((0..n as i32).map(|i| [9, 2, 5, 0, 7, 3][i as usize % 6]).collect());
        }
    } else {
        // quick tier, 4 fields: pre-order ids and a gapped, non-monotonic assignment (parents
        // with larger ids than their children)
        out.push((0..n as i32).collect());
        out.push((0..n).map(|i| [9, 2, 5, 0, 7, 3][i % 6]).collect());
    }
    out
}

fn check_case(case: &Value) -> Vec<Violation> {
    if case["kind"] == "path_tuple" {
        let mut cov = Cov::new();
        let mut v = BTreeMap::new();
        path_tuples(&mut cov, &mut v);
        return v.into_values().collect();
    }
    let forest: Vec<N> = serde_json::from_value(case["forest"].clone()).unwrap_or_else(|e| vcore::machinery_error(&format!("bad forest: {e}")));
    let ids: Vec<i32> = serde_json::from_value(case["ids"].clone()).unwrap_or_else(|e| vcore::machinery_error(&format!("bad ids: {e}")));
    let op = case["op"].as_str().unwrap_or("");
    let mut cov = Cov::new();
    let mut viol = BTreeMap::new();
    check_schema(&forest, &ids, &mut cov, &mut viol, Some(op));
    // only the violations of the replayed op
    viol.into_iter().filter(|(k, _)| k.starts_with(&format!("schema/{op}/"))).map(|(_, v)| v).collect()
}

/// parse(format(names)) == names for every tuple of names up to length 3
fn path_tuples(cov: &mut Cov, viol: &mut BTreeMap<String, Violation>) {
    let alphabet = ["a", "b", "a.b", "`x`", "é", "a`b", ".", "``", " ", "a b"];
    let mut tuples: Vec<Vec<&str>> = vec![];
    for a in alphabet {
        tuples.push(vec![a]);
        for b in alphabet {
            tuples.push(vec![a, b]);
            for c in alphabet {
                tuples.push(vec![a, b, c]);
            }
        }
    }
    for t in tuples {
        cov.eval(Some(vcore::hash64(format!("{t:?}").as_bytes())));
        let formatted = format_field_path(&t);
        let r = vcore::catch(|| parse_field_path(&formatted));
        let ok = matches!(&r, Ok(Ok(v)) if v.iter().map(|s| s.as_str()).collect::<Vec<_>>() == t);
        if !ok {
            let kind = if t.iter().any(|n| n.contains('`')) { "backtick-name" } else if t.iter().any(|n| n.contains('.')) { "dotted-name" } else { "other-name" };
            let key = format!("schema/path-format-parse/roundtrip/{kind}");
            viol.entry(key.clone()).or_insert_with(|| Violation::new("schema-path", &key, format!("parse_field_path(format_field_path({t:?}) = {formatted:?}) = {r:?}"), json!({"kind":"path_tuple","names":t})));
        }
    }
}

pub fn run(ctx: &Ctx) -> Outcome {
    let mut out = Outcome::new("exploration");
    if let Some(art) = ctx.replay_case() {
        out.violations = check_case(&art["case"]);
        out.set("replayed", true);
        return out;
    }
    let thorough = !ctx.quick();
    let max_fields = ctx.tier.pick(4, 5);
    let wall_cap = ctx.tier.pick(40.0, 800.0);
    let mut forests: Vec<Vec<N>> = vec![];
    for b in 1..=max_fields {
        forests.extend(sibling_lists(b, 3, true));
    }
    let n_forests = forests.len();
    let mut by_fields: BTreeMap<usize, u64> = BTreeMap::new();
    // work item = (index of the forest, id assignment)
    let mut items: Vec<(usize, Vec<i32>)> = vec![];
    for (fi, f) in forests.iter().enumerate() {
        let n: usize = f.iter().map(|x| x.fields()).sum();
        *by_fields.entry(n).or_insert(0) += 1;
        // thorough: every permutation up to 4 fields; the 5-field schemas get the quick-tier assignments
        for ids in id_assignments(n, thorough && n <= 4) {
            items.push((fi, ids));
        }
    }
    if ctx.seed != 0 && !items.is_empty() {
        let k = ctx.seed as usize % items.len();
        items.rotate_left(k);
    }
    let n_items = items.len();
    let start = std::time::Instant::now();
    let skipped = std::sync::atomic::AtomicU64::new(0);
    let results = vcore::par_map(vcore::smallx::chunks(&items, ctx.workers * 32), ctx.workers, |_, slice| {
        let mut cov = Cov::new();
        let mut viol = BTreeMap::new();
        for (fi, ids) in slice {
            let forest = &forests[fi];
            if start.elapsed().as_secs_f64() > wall_cap {
                skipped.fetch_add(1, std::sync::atomic::Ordering::SeqCst);
                continue;
            }
            let nested = forest.iter().any(|n| !n.children.is_empty());
            let before = cov.evaluations;
            check_schema(forest, &ids, &mut cov, &mut viol, None);
            if nested || forest.len() >= 2 {
                // non-trivial: schema with a nested field or >= 2 top-level fields
                cov.nontrivial.insert(vcore::hash64(format!("{forest:?}{ids:?}").as_bytes()));
            }
            let _ = before;
        }
        (cov, viol)
    });
    let mut cov = Cov::new();
    let mut viol: BTreeMap<String, Violation> = BTreeMap::new();
    for (c, v) in results {
        cov.merge(c);
        for (k, vi) in v {
            let size = |v: &Violation| v.case["ids"].as_array().map(|a| a.len()).unwrap_or(99);
            match viol.get(&k) {
                Some(old) if size(old) <= size(&vi) => {}
                _ => {
                    viol.insert(k, vi);
                }
            }
        }
    }
    path_tuples(&mut cov, &mut viol);
    let skipped = skipped.load(std::sync::atomic::Ordering::SeqCst);
    if let Some((f, ids)) = items.get(items.len() / 2) {
        cov.sample(json!({"schema": describe(&forests[*f], ids)}));
    }
    if let Some((f, ids)) = items.last() {
        cov.sample(json!({"schema": describe(&forests[*f], ids)}));
    }
    cov.fill(&mut out,
        &format!("odometer over {n_forests} named schema trees (<= {max_fields} Lance fields, depth <= 3, kinds int32/utf8/struct/list<struct>, sibling names = combinations of {{a,b,a.b,`x`,é}}, top level without a.b) x id assignments ({}) = {n_items} schemas; on each: resolve/field/field_path of every field, project of every field / ordered pair / all, project_by_ids of every id subset (+absent id) x flag, exclude and intersection with every leaf-subset sub-schema (same ids, fresh ids, foreign extra field), merge of every pair of sub-schemas, Projection column/union/intersect/subtract for every pair of column projections + schema / predicate forms, Arrow and protobuf round trips; plus parse(format(names)) for 1110 name tuples. evaluations = guarded law evaluations; non-trivial = schema with a nested field or >= 2 top-level fields",
            if thorough { "every injective assignment from {0,1,2,5} (n<=3), every permutation of 0..4 plus a gapped one (n=4), sequential and gapped non-monotonic (n=5)" } else { "every injective assignment from {0,1,2,5} for <=3 fields; sequential and a gapped non-monotonic one for 4" }),
        skipped == 0);
    out.set("schemas", n_items as u64);
    out.set("schema_trees_by_field_count", json!(by_fields));
    if skipped > 0 {
        out.set("cap_hit", format!("wall cap {wall_cap}s: {skipped} of {n_items} schemas not explored"));
    }
    out.assume("set model: a kept field keeps its ancestors; exclude / intersection / merge match fields by name path; result field order is not compared");
    out.assume("project_by_ids(include_all_children=false) follows Field::project_by_ids' documented rule: a selected field without selected descendants is kept with all its children");
    out.violations = viol.into_values().collect();
    out
}
