//! C37 – dataset-level part: forged manifests with unknown feature flags must be refused, the flags
//! of every committed version reflect the table contents, every data file carries the table's
//! storage version.
//!
//! Tables: in-memory (MemStore through `vds::Env`, 64 KiB block size) with 3 / 400 / 4000 int32
//! columns and a real local directory (4 KiB block size) with 3 / 400 columns, so that the manifest is
//! smaller and larger than the store's block on both kinds of store. For every table and every
//! unknown flag word (first unknown low bits, bit 63, alone and mixed with the flags the table
//! already has) a copy of the latest manifest is re-encoded with the word in the reader resp. writer
//! flags and stored as the next version.

use arrow_array::{Int32Array, RecordBatch, RecordBatchIterator};
use arrow_schema::{DataType, Field as AField, Schema as ASchema};
use lance::dataset::transaction::{Operation, Transaction};
use lance::dataset::{CommitBuilder, WriteMode, WriteParams};
use lance::Dataset;
use lance_encoding::version::LanceFileVersion as V;
use lance_table::feature_flags as ff;
use lance_table::format::pb;
use lance_table::io::commit::ManifestNamingScheme;
use prost::Message;
use serde_json::{json, Value};
use std::sync::Arc;
use vcore::{Cov, Violation};
use vds::Env;

const KNOWN: u64 = 63;

fn wide_batch(cols: usize, start: i32, rows: usize) -> RecordBatch {
    let fields: Vec<AField> = (0..cols).map(|i| AField::new(format!("c{i}"), DataType::Int32, true)).collect();
    let schema = Arc::new(ASchema::new(fields));
    let arrays: Vec<Arc<dyn arrow_array::Array>> = (0..cols)
        .map(|c| Arc::new(Int32Array::from((0..rows as i32).map(|r| start + r + c as i32).collect::<Vec<_>>())) as Arc<dyn arrow_array::Array>)
        .collect();
    RecordBatch::try_new(schema, arrays).unwrap()
}

/// where a table lives
#[derive(Clone)]
enum Loc {
    Mem(Env),
    Local(std::path::PathBuf),
}

impl Loc {
    fn name(&self) -> &'static str {
        match self {
            Loc::Mem(_) => "memory",
            Loc::Local(_) => "local",
        }
    }
    fn block(&self) -> usize {
        match self {
            Loc::Mem(_) => 64 * 1024,
            Loc::Local(_) => 4 * 1024,
        }
    }
    fn uri(&self) -> String {
        match self {
            Loc::Mem(_) => vds::URI.to_string(),
            Loc::Local(p) => p.to_string_lossy().to_string(),
        }
    }
    async fn write(&self, batch: RecordBatch, mode: WriteMode) -> lance::Result<Dataset> {
        let mut p = WriteParams { mode, enable_v2_manifest_paths: true, ..Default::default() };
        match self {
            Loc::Mem(env) => {
                p.session = Some(env.fresh_session());
                env.write(&self.uri(), vec![batch], p).await
            }
            Loc::Local(_) => {
                let schema = batch.schema();
                let reader = RecordBatchIterator::new(vec![Ok(batch)], schema);
                Dataset::write(reader, &self.uri(), Some(p)).await
            }
        }
    }
    async fn open(&self) -> lance::Result<Dataset> {
        match self {
            Loc::Mem(env) => env.open(&self.uri()).await,
            Loc::Local(_) => Dataset::open(&self.uri()).await,
        }
    }
    async fn open_version(&self, v: u64) -> lance::Result<Dataset> {
        match self {
            Loc::Mem(env) => env.open_version(&self.uri(), v).await,
            Loc::Local(_) => lance::dataset::builder::DatasetBuilder::from_uri(self.uri()).with_version(v).load().await,
        }
    }
    /// (path, bytes) of every object under `_versions/`
    fn versions_dir(&self) -> Vec<(String, Vec<u8>)> {
        match self {
            Loc::Mem(env) => env.store.paths().into_iter().filter(|p| p.contains("/_versions/"))
                .map(|p| { let d = env.store.read(&p).unwrap().to_vec(); (p, d) }).collect(),
            Loc::Local(p) => {
                let mut v = vec![];
                if let Ok(rd) = std::fs::read_dir(p.join("_versions")) {
                    for e in rd.flatten() {
                        v.push((e.path().to_string_lossy().to_string(), std::fs::read(e.path()).unwrap_or_default()));
                    }
                }
                v.sort();
                v
            }
        }
    }
    fn put(&self, path: &str, data: Vec<u8>) {
        match self {
            Loc::Mem(env) => env.store.write_raw(path, bytes::Bytes::from(data)),
            Loc::Local(_) => std::fs::write(path, data).unwrap(),
        }
    }
    fn remove(&self, path: &str) {
        match self {
            Loc::Mem(env) => { env.store.remove_raw(path); }
            Loc::Local(_) => { let _ = std::fs::remove_file(path); }
        }
    }
}

/// latest attached manifest: (version, path, bytes)
fn latest_manifest(loc: &Loc) -> (u64, String, Vec<u8>) {
    let mut best: Option<(u64, String, Vec<u8>)> = None;
    for (p, d) in loc.versions_dir() {
        let fname = p.rsplit('/').next().unwrap_or("");
        if let Some(s) = ManifestNamingScheme::detect_scheme(fname) {
            if let Some(v) = s.parse_version(fname) {
                if fname.ends_with(".manifest") && best.as_ref().map(|b| v > b.0).unwrap_or(true) {
                    best = Some((v, p, d));
                }
            }
        }
    }
    best.unwrap_or_else(|| vcore::machinery_error("C37: no manifest found in _versions/"))
}

/// Re-encode the manifest message of a manifest file with other flags / version; everything in
/// front of the message (index section, inline transaction) stays where it is.
fn forge(bytes: &[u8], version: u64, reader: Option<u64>, writer: Option<u64>) -> (Vec<u8>, u64, u64) {
    let n = bytes.len();
    let off = u64::from_le_bytes(bytes[n - 16..n - 8].try_into().unwrap()) as usize;
    let len = u32::from_le_bytes(bytes[off..off + 4].try_into().unwrap()) as usize;
    let mut m = pb::Manifest::decode(&bytes[off + 4..off + 4 + len]).unwrap_or_else(|e| vcore::machinery_error(&format!("C37: cannot decode manifest: {e}")));
    let (r0, w0) = (m.reader_feature_flags, m.writer_feature_flags);
    m.version = version;
    if let Some(r) = reader {
        m.reader_feature_flags = r;
    }
    if let Some(w) = writer {
        m.writer_feature_flags = w;
    }
    let msg = m.encode_to_vec();
    let mut out = bytes[..off].to_vec();
    out.extend_from_slice(&(msg.len() as u32).to_le_bytes());
    out.extend_from_slice(&msg);
    out.extend_from_slice(&(off as u64).to_le_bytes());
    out.extend_from_slice(&bytes[n - 8..]);
    (out, r0, w0)
}

fn next_path(latest_path: &str, version: u64) -> String {
    let dir = &latest_path[..latest_path.rfind('/').unwrap()];
    format!("{dir}/{:020}.manifest", u64::MAX - version)
}

async fn scan_sum(ds: &Dataset) -> lance::Result<(usize, i64)> {
    use futures::TryStreamExt;
    let batches: Vec<RecordBatch> = ds.scan().project(&["c0"])?.try_into_stream().await?.try_collect().await?;
    let mut rows = 0;
    let mut sum = 0i64;
    for b in batches {
        let a = b.column(0).as_any().downcast_ref::<Int32Array>().unwrap();
        rows += a.len();
        sum += a.iter().flatten().map(|x| x as i64).sum::<i64>();
    }
    Ok((rows, sum))
}

fn is_not_supported<T>(r: &lance::Result<T>) -> Option<String> {
    match r {
        Ok(_) => Some("accepted".into()),
        Err(lance::Error::NotSupported { .. }) => None,
        Err(e) => Some(format!("other-error:{}", vds::err_class(e))),
    }
}

/// one forged-manifest case; `target` = "reader" | "writer"
pub fn check_forged(loc_name: &str, cols: usize, word: u64, mixed: bool, target: &str, cov: &mut Cov) -> Vec<Violation> {
    let mut out = vec![];
    let case = json!({"kind":"forged_manifest","store":loc_name,"columns":cols,"word":word,"mixed":mixed,"target":target});
    // in-memory fixtures are built once per column count and copied (MemStore snapshot) per case
    static FIXTURES: std::sync::Mutex<Option<std::collections::HashMap<usize, vstore::Snapshot>>> = std::sync::Mutex::new(None);
    let tmp;
    let mut need_build = true;
    let loc = if loc_name == "memory" {
        let g = FIXTURES.lock().unwrap();
        match g.as_ref().and_then(|m| m.get(&cols)) {
            Some(snap) => {
                need_build = false;
                Loc::Mem(Env::from_store(vstore::MemStore::from_snapshot(snap)))
            }
            None => Loc::Mem(Env::new()),
        }
    } else {
        tmp = tempfile::tempdir().unwrap_or_else(|e| vcore::machinery_error(&format!("tempdir: {e}")));
        Loc::Local(tmp.path().join("tbl"))
    };
    let r = vds::run_catch(async {
        let mut fails: Vec<(String, String)> = vec![];
        if need_build {
            // version 1 = create, version 2 = append, version 3 = delete (so that known flags are present)
            loc.write(wide_batch(cols, 0, 4), WriteMode::Create).await?;
            loc.write(wide_batch(cols, 100, 4), WriteMode::Append).await?;
            let mut ds = loc.open().await?;
            ds.delete("c0 = 1").await?;
            if let Loc::Mem(env) = &loc {
                FIXTURES.lock().unwrap().get_or_insert_with(Default::default).insert(cols, env.store.snapshot());
            }
        }
        let (v, path, bytes) = latest_manifest(&loc);
        let size_class = if bytes.len() > loc.block() { "manifest>block" } else { "manifest<=block" };
        cov.outcome(&format!("forged/{}/{size_class}", loc.name()));
        let before = scan_sum(&loc.open().await?).await?;
        let (_, r0, w0) = forge(&bytes, v + 1, None, None);
        let flags = |orig: u64| if mixed { orig | word } else { word };
        let (forged, _, _) = if target == "reader" { forge(&bytes, v + 1, Some(flags(r0)), None) } else { forge(&bytes, v + 1, None, Some(flags(w0))) };
        let new_path = next_path(&path, v + 1);
        let handle_before = loc.open().await?;
        loc.put(&new_path, forged);
        let listing = |loc: &Loc| -> Vec<(String, usize)> { loc.versions_dir().into_iter().map(|(p, d)| (p, d.len())).collect() };
        if target == "reader" {
            for (call, res) in [
                ("open-latest", loc.open().await.map(|_| ())),
                ("open-version", loc.open_version(v + 1).await.map(|_| ())),
                ("checkout_version", handle_before.checkout_version(v + 1).await.map(|_| ())),
                ("checkout_latest", { let mut h = handle_before.clone(); h.checkout_latest().await }),
            ] {
                if let Some(what) = is_not_supported(&res) {
                    fails.push((format!("flags/dataset/unknown-reader-flag/{call}/{what}/{size_class}"), format!("{call} of a version whose reader flags are {:#x}: {res:?}", flags(r0))));
                }
            }
            // the previous version stays readable
            match loc.open_version(v).await {
                Ok(d) => {
                    if scan_sum(&d).await? != before {
                        fails.push(("flags/dataset/previous-version-changed".into(), "scan of the previous version differs".into()));
                    }
                }
                Err(e) => fails.push(("flags/dataset/previous-version-unreadable".into(), e.to_string())),
            }
        } else {
            // readable (reader flags are fine) and unchanged
            match loc.open().await {
                Err(e) => fails.push((format!("flags/dataset/unknown-writer-flag/open-refused/{size_class}"), e.to_string())),
                Ok(d) => {
                    if d.version().version != v + 1 || scan_sum(&d).await? != before {
                        fails.push(("flags/dataset/unknown-writer-flag/read-differs".into(), format!("version {} read back differently", d.version().version)));
                    }
                }
            }
            let dir0 = listing(&loc);
            let mut ops: Vec<(&str, lance::Result<()>)> = vec![];
            ops.push(("append", loc.write(wide_batch(cols, 200, 2), WriteMode::Append).await.map(|_| ())));
            if let Ok(mut d) = loc.open().await {
                ops.push(("delete", d.delete("c0 = 2").await));
            }
            if let Ok(mut d) = loc.open().await {
                ops.push(("update_config", d.update_config([("k", "v")]).await.map(|_| ())));
            }
            for (op, res) in ops {
                if let Some(what) = is_not_supported(&res) {
                    fails.push((format!("flags/dataset/unknown-writer-flag/{op}/{what}"), format!("{op} on a table whose writer flags are {:#x}: {res:?}", flags(w0))));
                }
            }
            // nothing may have been committed
            let dir1 = listing(&loc);
            if dir1 != dir0 {
                let newf: Vec<&String> = dir1.iter().filter(|e| !dir0.contains(e)).map(|e| &e.0).collect();
                fails.push(("flags/dataset/unknown-writer-flag/table-changed".into(), format!("_versions/ changed after the refused writes: new {newf:?}")));
            }
        }
        loc.remove(&new_path);
        Ok::<_, lance::Error>(fails)
    });
    match r {
        Err(p) => out.push(Violation::new("flags-dataset", "flags/dataset/panic", format!("panic: {p}"), case)),
        Ok(Err(e)) => vcore::machinery_error(&format!("C37 dataset fixture failed ({case}): {e}")),
        Ok(Ok(fails)) => {
            for (k, w) in fails {
                out.push(Violation::new("flags-dataset", &k, w.chars().take(400).collect::<String>(), case.clone()));
            }
        }
    }
    out
}

/// model of the flags from the manifest contents (bit 32 cannot be derived from contents)
fn content_flags(m: &lance_table::format::Manifest) -> (u64, u64) {
    let del = m.fragments.iter().any(|f| f.deletion_file.is_some());
    let rid = m.fragments.iter().any(|f| f.row_id_meta.is_some());
    let mut rd = 0;
    let mut wr = 0;
    if del { rd |= 1; wr |= 1; }
    if rid { rd |= 2; wr |= 2; }
    if !m.config.is_empty() { wr |= 8; }
    if !m.base_paths.is_empty() { rd |= 16; wr |= 16; }
    (rd, wr)
}

/// one history: {"stable":bool,"storage":"2.0"|"2.1"|"legacy"}
pub fn check_history(stable: bool, storage: &str, cov: &mut Cov) -> Vec<Violation> {
    let mut out = vec![];
    let case = json!({"kind":"flag_history","stable":stable,"storage":storage});
    let sv: V = storage.parse().unwrap();
    let env = Env::new();
    let r = vds::run_catch(async {
        let mut fails: Vec<(String, String)> = vec![];
        let o = vds::TableOpts { stable_row_ids: stable, storage_version: Some(sv), v2_manifest_paths: true };
        let mut ds = match vds::create_base(&env, vds::URI, &[0..4, 4..8], &o).await {
            Ok(d) => d,
            Err(e) => {
                cov.outcome(&format!("history/{storage}/create-refused"));
                if sv == V::Legacy {
                    return Ok(fails); // the legacy format is documented as no longer writable
                }
                fails.push((format!("flags/history/create-refused/{storage}"), e.to_string()));
                return Ok(fails);
            }
        };
        let mut steps: Vec<&str> = vec!["create+append"];
        let mut check = |ds: &Dataset, step: &str, deleted_rows: usize, fails: &mut Vec<(String, String)>| {
            let m = ds.manifest();
            let (rd, wr) = content_flags(m);
            let got_w = m.writer_feature_flags & !ff::FLAG_DISABLE_TRANSACTION_FILE;
            if m.reader_feature_flags != rd || got_w != wr {
                let diff = (m.reader_feature_flags ^ rd) | (got_w ^ wr);
                fails.push((format!("flags/history/flags-differ-from-contents/bit-{}", 1u64 << diff.trailing_zeros()),
                    format!("after {step}: reader {:#b} writer {:#b}, contents require {rd:#b} / {wr:#b}", m.reader_feature_flags, m.writer_feature_flags)));
            }
            if deleted_rows > 0 && m.reader_feature_flags & 1 == 0 {
                fails.push(("flags/history/deleted-rows-without-deletion-flag".into(), format!("after {step}: {deleted_rows} deleted rows, reader flags {:#b}", m.reader_feature_flags)));
            }
            if stable && (m.reader_feature_flags & 2 == 0 || m.writer_feature_flags & 2 == 0) {
                fails.push(("flags/history/stable-row-ids-without-flag".into(), format!("after {step}: flags {:#b}/{:#b}", m.reader_feature_flags, m.writer_feature_flags)));
            }
            if !stable && m.reader_feature_flags & 2 != 0 {
                fails.push(("flags/history/row-id-flag-without-stable-row-ids".into(), format!("after {step}")));
            }
            if m.reader_feature_flags & !KNOWN != 0 || m.writer_feature_flags & !KNOWN != 0 {
                fails.push(("flags/history/own-unknown-flag".into(), format!("after {step}")));
            }
            // storage version of the table and of every data file
            match m.data_storage_format.lance_file_version() {
                Ok(tv) => {
                    if tv != sv.resolve() {
                        fails.push(("flags/history/table-storage-version".into(), format!("after {step}: table says {tv}, created as {sv}")));
                    }
                    for f in m.fragments.iter() {
                        for df in &f.files {
                            match V::try_from_major_minor(df.file_major_version, df.file_minor_version) {
                                Ok(fv) if fv == tv => {}
                                other => fails.push(("flags/history/data-file-version-differs".into(), format!("after {step}: file {} has version {other:?}, table {tv}", df.path))),
                            }
                        }
                    }
                }
                Err(e) => fails.push(("flags/history/table-storage-version-unparsable".into(), e.to_string())),
            }
        };
        check(&ds, "create+append", 0, &mut fails);
        ds.delete("uid = 1").await?;
        steps.push("delete-row");
        check(&ds, "delete-row", ds.count_deleted_rows().await?, &mut fails);
        ds = env.write(vds::URI, vec![vds::base_batch(&vds::default_rows(8..10))], { let mut p = env.write_params(WriteMode::Append); p.data_storage_version = Some(sv); p }).await?;
        check(&ds, "append", ds.count_deleted_rows().await?, &mut fails);
        ds.update_config([("k", "v")]).await?;
        check(&ds, "update_config", ds.count_deleted_rows().await?, &mut fails);
        ds.delete("uid >= 4 AND uid < 8").await?;
        check(&ds, "delete-fragment", ds.count_deleted_rows().await?, &mut fails);
        // a commit that adds a data file of another storage version must be refused
        let other = if sv.resolve() == V::V2_0 { V::V2_1 } else { V::V2_0 };
        let env2 = Env::new();
        let o2 = vds::TableOpts { stable_row_ids: stable, storage_version: Some(other), v2_manifest_paths: true };
        if let Ok(ds2) = vds::create_base(&env2, vds::URI, &[20..24], &o2).await {
            let frags: Vec<lance_table::format::Fragment> = ds2.manifest().fragments.iter().cloned().collect();
            let before_v = ds.version().version;
            let txn = Transaction::new(before_v, Operation::Append { fragments: frags }, None);
            let res = CommitBuilder::new(Arc::new(ds.clone())).execute(txn).await;
            match res {
                Err(_) => cov.outcome("history/foreign-version-file-refused"),
                Ok(d) => fails.push((format!("flags/history/foreign-version-data-file-accepted/{storage}+{other}"),
                    format!("Append of a {other} data file to a {storage} table committed version {}", d.version().version))),
            }
            let latest = env.open(vds::URI).await?;
            if latest.version().version != before_v && fails.iter().all(|f| !f.0.contains("foreign-version")) {
                fails.push(("flags/history/refused-commit-changed-table".into(), format!("latest version moved from {before_v} to {}", latest.version().version)));
            }
        }
        cov.outcome(&format!("history/{storage}/stable={stable}/steps={}", steps.len() + 3));
        Ok::<_, lance::Error>(fails)
    });
    match r {
        Err(p) => out.push(Violation::new("flags-history", "flags/history/panic", format!("panic: {p}"), case)),
        Ok(Err(e)) => out.push(Violation::new("flags-history", "flags/history/step-failed", format!("a history step failed: {e}"), case)),
        Ok(Ok(fails)) => {
            for (k, w) in fails {
                out.push(Violation::new("flags-history", &k, w.chars().take(400).collect::<String>(), case.clone()));
            }
        }
    }
    out
}

pub fn forged_cases(thorough: bool) -> Vec<Value> {
    let mut v = vec![];
    let words: Vec<u64> = if thorough { vec![64, 128, 256, 1 << 31, 1 << 32, 1 << 62, 1 << 63] } else { vec![64, 128, 1 << 63] };
    for (store, cols) in [("memory", 3usize), ("memory", 400), ("memory", 4000), ("local", 3), ("local", 400)] {
        for w in &words {
            for mixed in [false, true] {
                for target in ["reader", "writer"] {
                    v.push(json!({"kind":"forged_manifest","store":store,"columns":cols,"word":w,"mixed":mixed,"target":target}));
                }
            }
        }
    }
    v
}

pub fn history_cases() -> Vec<Value> {
    let mut v = vec![];
    for stable in [false, true] {
        for storage in ["2.0", "2.1", "legacy"] {
            v.push(json!({"kind":"flag_history","stable":stable,"storage":storage}));
        }
    }
    v
}

pub fn check_case(c: &Value, cov: &mut Cov) -> Vec<Violation> {
    match c["kind"].as_str().unwrap_or("") {
        "forged_manifest" => check_forged(c["store"].as_str().unwrap(), c["columns"].as_u64().unwrap() as usize, c["word"].as_u64().unwrap(), c["mixed"].as_bool().unwrap(), c["target"].as_str().unwrap(), cov),
        "flag_history" => check_history(c["stable"].as_bool().unwrap(), c["storage"].as_str().unwrap(), cov),
        other => vcore::machinery_error(&format!("C37 dataset replay: unknown case kind {other:?}")),
    }
}
