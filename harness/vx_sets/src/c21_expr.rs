//! C21 (c): `ScalarIndexExpr::evaluate` keeps each answer's guarantee.
//!
//! A stub `ScalarIndexLoader` hands out stub indices whose `search` returns a pre-set
//! `SearchResult`. A leaf is (kind, truth set T within U, reported set R consistent with the kind:
//! Exact R = T, AtMost R >= T, AtLeast R <= T). Every expression tree with operator depth <= 2 and
//! <= 3 leaves is evaluated by the real code; the result must keep the guarantee of the kind it
//! reports with respect to the composed truth set (ordinary two-valued set semantics over U).

use async_trait::async_trait;
use deepsize::DeepSizeOf;
use lance_core::utils::mask::RowIdTreeMap;
use lance_core::Result;
use lance_index::metrics::{MetricsCollector, NoOpMetricsCollector};
use lance_index::scalar::expression::{IndexExprResult, ScalarIndexExpr, ScalarIndexLoader, ScalarIndexSearch};
use lance_index::scalar::{AnyQuery, SargableQuery, ScalarIndex, SearchResult};
use lance_index::{Index, IndexType};
use serde_json::json;
use std::sync::Arc;
use vcore::{Cov, Ctx, Violation};

#[derive(Clone, Copy, Debug, PartialEq, Eq)]
enum Kind {
    Exact,
    AtMost,
    AtLeast,
}

#[derive(Clone, Copy, Debug)]
struct Leaf {
    kind: Kind,
    truth: u32,
    reported: u32,
}

#[derive(Debug, DeepSizeOf)]
struct StubIndex {
    kind: u8,
    reported: u32,
}

fn to_map(bits: u32) -> RowIdTreeMap {
    let mut t = RowIdTreeMap::new();
    for i in 0..8 {
        if bits & (1 << i) != 0 {
            t.insert(i as u64);
        }
    }
    t
}

#[async_trait]
impl Index for StubIndex {
    fn as_any(&self) -> &dyn std::any::Any {
        self
    }
    fn as_index(self: Arc<Self>) -> Arc<dyn Index> {
        self
    }
    fn as_vector_index(self: Arc<Self>) -> Result<Arc<dyn lance_index::vector::VectorIndex>> {
        unimplemented!()
    }
    fn statistics(&self) -> Result<serde_json::Value> {
        Ok(json!({}))
    }
    async fn prewarm(&self) -> Result<()> {
        Ok(())
    }
    fn index_type(&self) -> IndexType {
        IndexType::BTree
    }
    async fn calculate_included_frags(&self) -> Result<roaring::RoaringBitmap> {
        Ok(roaring::RoaringBitmap::new())
    }
}

#[async_trait]
impl ScalarIndex for StubIndex {
    async fn search(&self, _q: &dyn AnyQuery, _m: &dyn MetricsCollector) -> Result<SearchResult> {
        let m = to_map(self.reported);
        Ok(match self.kind {
            0 => SearchResult::Exact(m),
            1 => SearchResult::AtMost(m),
            _ => SearchResult::AtLeast(m),
        })
    }
    fn can_remap(&self) -> bool {
        false
    }
    async fn remap(
        &self,
        _mapping: &std::collections::HashMap<u64, Option<u64>>,
        _dest: &dyn lance_index::scalar::IndexStore,
    ) -> Result<lance_index::scalar::CreatedIndex> {
        unimplemented!()
    }
    async fn update(
        &self,
        _new_data: datafusion_execution_stream::SendableRecordBatchStream,
        _dest: &dyn lance_index::scalar::IndexStore,
    ) -> Result<lance_index::scalar::CreatedIndex> {
        unimplemented!()
    }
    fn update_criteria(&self) -> lance_index::scalar::UpdateCriteria {
        unimplemented!()
    }
    fn derive_index_params(&self) -> Result<lance_index::scalar::ScalarIndexParams> {
        unimplemented!()
    }
}

mod datafusion_execution_stream {
    pub use datafusion::physical_plan::SendableRecordBatchStream;
}

struct StubLoader {
    leaves: Vec<Leaf>,
}

#[async_trait]
impl ScalarIndexLoader for StubLoader {
    async fn load_index(&self, _column: &str, index_name: &str, _m: &dyn MetricsCollector) -> Result<Arc<dyn ScalarIndex>> {
        let i: usize = index_name[1..].parse().unwrap();
        let l = self.leaves[i];
        Ok(Arc::new(StubIndex {
            kind: match l.kind {
                Kind::Exact => 0,
                Kind::AtMost => 1,
                Kind::AtLeast => 2,
            },
            reported: l.reported,
        }))
    }
}

/// expression shapes over leaf slots 0..3
#[derive(Clone, Debug)]
enum Sh {
    L(usize),
    Not(Box<Sh>),
    And(Box<Sh>, Box<Sh>),
    Or(Box<Sh>, Box<Sh>),
}

impl Sh {
    fn leaves(&self) -> usize {
        match self {
            Sh::L(i) => i + 1,
            Sh::Not(x) => x.leaves(),
            Sh::And(a, b) | Sh::Or(a, b) => a.leaves().max(b.leaves()),
        }
    }
    fn expr(&self) -> ScalarIndexExpr {
        match self {
            Sh::L(i) => ScalarIndexExpr::Query(ScalarIndexSearch {
                column: "c".into(),
                index_name: format!("i{i}"),
                query: Arc::new(SargableQuery::IsNull()),
                needs_recheck: false,
            }),
            Sh::Not(x) => ScalarIndexExpr::Not(Box::new(x.expr())),
            Sh::And(a, b) => ScalarIndexExpr::And(Box::new(a.expr()), Box::new(b.expr())),
            Sh::Or(a, b) => ScalarIndexExpr::Or(Box::new(a.expr()), Box::new(b.expr())),
        }
    }
    fn truth(&self, leaves: &[Leaf], universe: u32) -> u32 {
        match self {
            Sh::L(i) => leaves[*i].truth,
            Sh::Not(x) => universe & !x.truth(leaves, universe),
            Sh::And(a, b) => a.truth(leaves, universe) & b.truth(leaves, universe),
            Sh::Or(a, b) => a.truth(leaves, universe) | b.truth(leaves, universe),
        }
    }
    fn text(&self) -> String {
        match self {
            Sh::L(i) => format!("L{i}"),
            Sh::Not(x) => format!("NOT({})", x.text()),
            Sh::And(a, b) => format!("AND({},{})", a.text(), b.text()),
            Sh::Or(a, b) => format!("OR({},{})", a.text(), b.text()),
        }
    }
    fn has_not_over_binary(&self) -> bool {
        match self {
            Sh::L(_) => false,
            Sh::Not(x) => matches!(**x, Sh::And(_, _) | Sh::Or(_, _)) || x.has_not_over_binary(),
            Sh::And(a, b) | Sh::Or(a, b) => a.has_not_over_binary() || b.has_not_over_binary(),
        }
    }
}

fn shapes() -> Vec<Sh> {
    use Sh::*;
    let l = |i| L(i);
    let not = |x: Sh| Not(Box::new(x));
    let bin = |and: bool, a: Sh, b: Sh| if and { And(Box::new(a), Box::new(b)) } else { Or(Box::new(a), Box::new(b)) };
    let mut v = vec![l(0), not(l(0)), not(not(l(0)))];
    for op in [true, false] {
        v.push(bin(op, l(0), l(1)));
        v.push(not(bin(op, l(0), l(1))));
        v.push(bin(op, not(l(0)), l(1)));
        v.push(bin(op, l(0), not(l(1))));
        v.push(bin(op, not(l(0)), not(l(1))));
        for op2 in [true, false] {
            v.push(bin(op, bin(op2, l(0), l(1)), l(2)));
            v.push(bin(op, l(0), bin(op2, l(1), l(2))));
            v.push(bin(op, bin(op2, l(0), l(1)), not(l(2))));
            v.push(bin(op, not(l(0)), bin(op2, l(1), l(2))));
        }
    }
    v
}

fn leaf_options(nbits: u32) -> Vec<Leaf> {
    let n = 1u32 << nbits;
    let mut v = vec![];
    for t in 0..n {
        v.push(Leaf { kind: Kind::Exact, truth: t, reported: t });
    }
    for t in 0..n {
        for r in 0..n {
            if r & t == t {
                v.push(Leaf { kind: Kind::AtMost, truth: t, reported: r });
            }
            if r & t == r {
                v.push(Leaf { kind: Kind::AtLeast, truth: t, reported: r });
            }
        }
    }
    v
}

fn check_one(sh: &Sh, leaves: &[Leaf], nbits: u32, cov: &mut Cov, viol: &mut Vec<Violation>) {
    let universe = (1u32 << nbits) - 1;
    let loader = StubLoader { leaves: leaves.to_vec() };
    let expr = sh.expr();
    let res = vstore::block_on(expr.evaluate(&loader, &NoOpMetricsCollector));
    let truth = sh.truth(leaves, universe);
    let case = json!({"kind":"expr","shape":sh.text(),"universe_bits":nbits,
        "leaves": leaves.iter().map(|l| json!({"kind":format!("{:?}",l.kind),"truth":l.truth,"reported":l.reported})).collect::<Vec<_>>()});
    let nontrivial = truth != 0 && truth != universe;
    cov.eval(if nontrivial { Some(vcore::hash64(case.to_string().as_bytes())) } else { None });
    let r = match res {
        Ok(r) => r,
        Err(e) => {
            viol.push(Violation::new("expr-eval", "expr/error", format!("evaluate failed: {e}"), case));
            return;
        }
    };
    let mask = r.row_id_mask();
    let mut sel = 0u32;
    for i in 0..nbits {
        if mask.selected(i as u64) {
            sel |= 1 << i;
        }
    }
    let (kind, ok) = match &r {
        IndexExprResult::Exact(_) => ("exact", sel == truth),
        IndexExprResult::AtMost(_) => ("at_most", sel & truth == truth),
        IndexExprResult::AtLeast(_) => ("at_least", sel & truth == sel),
    };
    cov.outcome(kind);
    if !ok {
        let both = mask.allow_list.is_some() && mask.block_list.is_some();
        let key = if sh.has_not_over_binary() {
            "expr/guarantee/not-over-combined-mask".to_string()
        } else {
            format!("expr/guarantee/{kind}/{}", if both { "both-lists" } else { "one-list" })
        };
        viol.push(Violation::new(
            "expr-guarantee",
            &key,
            format!("{} over {:?}: result {kind} selects {sel:#b}, composed truth {truth:#b}", sh.text(), leaves),
            case,
        ));
    }
}

/// re-execute one `{"kind":"expr","shape":..,"universe_bits":..,"leaves":[..]}` artefact
pub fn replay(case: &serde_json::Value) -> Vec<Violation> {
    let text = case["shape"].as_str().unwrap_or("");
    let Some(sh) = shapes().into_iter().find(|s| s.text() == text) else {
        vcore::machinery_error(&format!("C21 replay: unknown expression shape {text:?}"));
    };
    let nbits = case["universe_bits"].as_u64().unwrap_or(3) as u32;
    let leaves: Vec<Leaf> = case["leaves"].as_array().map(|a| a.iter().map(|l| Leaf {
        kind: match l["kind"].as_str().unwrap_or("") { "Exact" => Kind::Exact, "AtMost" => Kind::AtMost, _ => Kind::AtLeast },
        truth: l["truth"].as_u64().unwrap_or(0) as u32,
        reported: l["reported"].as_u64().unwrap_or(0) as u32,
    }).collect()).unwrap_or_default();
    if leaves.len() < sh.leaves() {
        vcore::machinery_error("C21 replay: artefact has fewer leaves than the shape needs");
    }
    let mut cov = Cov::new();
    let mut viol = vec![];
    check_one(&sh, &leaves, nbits, &mut cov, &mut viol);
    viol
}

pub fn run(ctx: &Ctx) -> (Cov, Vec<Violation>) {
    let sh = shapes();
    // work items: (shape, first-leaf option) so that the space is split evenly
    let bits3 = ctx.tier.pick(2u32, 3u32);
    let mut items = vec![];
    for s in &sh {
        let nbits = if s.leaves() >= 3 { bits3 } else { 3 };
        let opts = leaf_options(nbits);
        for first in 0..opts.len() {
            items.push((s.clone(), nbits, first));
        }
    }
    let results = vcore::par_map(items, ctx.workers, |_, (s, nbits, first)| {
        let mut cov = Cov::new();
        let mut viol = vec![];
        let opts = leaf_options(nbits);
        let n = s.leaves();
        let dims: Vec<usize> = (1..n).map(|_| opts.len()).collect();
        if n == 1 {
            check_one(&s, &[opts[first]], nbits, &mut cov, &mut viol);
        } else {
            vcore::smallx::product(&dims, |ix| {
                let mut leaves = vec![opts[first]];
                leaves.extend(ix.iter().map(|i| opts[*i]));
                check_one(&s, &leaves, nbits, &mut cov, &mut viol);
                viol.len() < 50
            });
        }
        (cov, viol)
    });
    let mut cov = Cov::new();
    let mut viol = vec![];
    for (c, v) in results {
        cov.merge(c);
        viol.extend(v);
    }
    cov.sample(json!({"kind":"expr","shape":"NOT(AND(L0,NOT(L1)))","leaves":[{"kind":"Exact","truth":3,"reported":3},{"kind":"AtMost","truth":1,"reported":5}]}));
    (cov, viol)
}
