//! C33 – manifest naming and latest-version discovery (K5, exhaustive small scope).
//!
//! (a) naming: versions {0..=300} ∪ u64 boundaries, both schemes: parse∘path = id for attached
//!     versions, detached versions never parse as attached and live under a distinct name, V2 names
//!     sort in reverse version order and before every detached name, staging names keep their scheme.
//! (b) discovery: `_versions/` = every subset (<= max_attached) of a small version universe under V1
//!     or V2 naming ± a detached manifest ± a staging file ± a local temp file ± a detached staging
//!     file, on (i) a store that promises lexical listing (listed lexically), (ii) a store that does
//!     not (listed in **every permutation**, MemStore list order is explorer-chosen) and (iii) a real
//!     local directory. Oracle: `resolve_latest_location` = highest attached version (path, scheme,
//!     size), `list_manifest_locations` = attached versions (descending when asked),
//!     `resolve_version_location` = the file that is there, never a panic.
//! (c) `migrate_scheme_to_v2` on every V1 and every partially migrated directory, every listing
//!     order: version set and contents preserved, other files untouched, idempotent, latest == max.
//!
//! Failing cases are minimised (drop entries while the same call fails the same way) and keyed by
//! call / scheme / store kind / failure class / entry kinds of the minimal listing.

use bytes::Bytes;
use futures::{FutureExt, TryStreamExt};
use lance_io::object_store::ObjectStore;
use lance_table::io::commit::{
    migrate_scheme_to_v2, CommitHandler, ConditionalPutCommitHandler, ManifestNamingScheme,
};
use object_store::path::Path;
use serde_json::{json, Value};
use std::collections::{BTreeMap, BTreeSet, HashMap};
use std::panic::AssertUnwindSafe;
use std::sync::Arc;
use vcore::{Cov, Ctx, Outcome, Violation};
use vstore::MemStore;

const DET: u64 = (1u64 << 63) + 5;
const DET2: u64 = u64::MAX - 1;
const UUID: &str = "cee4fbbb-eb19-4ea3-8ca7-54f5ec33dedc";
const BASE: &str = "tbl";

fn scheme_of(s: &str) -> ManifestNamingScheme {
    if s == "V1" { ManifestNamingScheme::V1 } else { ManifestNamingScheme::V2 }
}

// ------------------------------------------------------------------------------------------------
// (a) naming

fn model_name(s: ManifestNamingScheme, v: u64) -> String {
    // documented layout: V1 `{version}.manifest`, V2 `{u64::MAX - version:020}.manifest`,
    // detached `d{version}.manifest`
    if v >> 63 == 1 {
        format!("d{v}.manifest")
    } else {
        match s {
            ManifestNamingScheme::V1 => format!("{v}.manifest"),
            ManifestNamingScheme::V2 => format!("{:020}.manifest", u64::MAX - v),
        }
    }
}

fn naming_versions() -> Vec<u64> {
    let mut v: Vec<u64> = (0..=300).collect();
    let b = 1u64 << 63;
    v.extend([999, 1000, 1u64 << 32, 10u64.pow(18), b - 2, b - 1, b, b + 1, b + 5, 10u64.pow(19), u64::MAX - 1, u64::MAX]);
    v
}

fn check_naming(sname: &str, v: u64) -> Vec<Violation> {
    let s = scheme_of(sname);
    let mut out = vec![];
    let case = json!({"kind":"naming","scheme":sname,"version":v});
    let detached = v >> 63 == 1;
    let cls = if detached { "detached" } else { "attached" };
    let mut vi = |key: String, what: String| out.push(Violation::new("naming", &key, what, case.clone()));
    let base = Path::from(BASE);
    let r = vcore::catch(|| {
        let p = s.manifest_path(&base, v);
        let fname = p.filename().unwrap_or("").to_string();
        (p.to_string(), fname.clone(), s.parse_version(&fname), ManifestNamingScheme::detect_scheme(&fname),
         ManifestNamingScheme::V1.parse_version(&fname), ManifestNamingScheme::V2.parse_version(&fname),
         ManifestNamingScheme::detect_scheme_staging(&format!("{fname}-{UUID}")),
         s.parse_version(&format!("{fname}-{UUID}")))
    });
    match r {
        Err(p) => vi(format!("naming/{sname}/{cls}/panic"), format!("version {v}: panic {p}")),
        Ok((path, fname, parsed, det, p1, p2, det_staging, parsed_staging)) => {
            let want_name = model_name(s, v);
            if path != format!("{BASE}/_versions/{want_name}") {
                vi(format!("naming/{sname}/{cls}/path-layout"), format!("manifest_path({v}) = {path}, documented layout gives {want_name}"));
            }
            if detached {
                if p1.is_some() || p2.is_some() {
                    vi(format!("naming/{sname}/detached/parses-as-attached"), format!("detached name {fname} parses as attached version {p1:?}/{p2:?}"));
                }
                if det != Some(ManifestNamingScheme::V2) {
                    vi(format!("naming/{sname}/detached/detect_scheme"), format!("detect_scheme({fname}) = {det:?}"));
                }
            } else {
                if parsed != Some(v) {
                    vi(format!("naming/{sname}/attached/parse-roundtrip"), format!("parse_version({fname}) = {parsed:?}, expected {v}"));
                }
                if det != Some(s) {
                    vi(format!("naming/{sname}/attached/detect_scheme"), format!("detect_scheme({fname}) = {det:?}"));
                }
                if det_staging != s {
                    vi(format!("naming/{sname}/attached/detect_scheme_staging"), format!("detect_scheme_staging({fname}-uuid) = {det_staging:?}"));
                }
                if parsed_staging != Some(v) {
                    vi(format!("naming/{sname}/attached/parse-staging"), format!("parse_version({fname}-uuid) = {parsed_staging:?}"));
                }
            }
        }
    }
    out
}

fn naming(cov: &mut Cov, viol: &mut Vec<Violation>) {
    let vs = naming_versions();
    let base = Path::from(BASE);
    for sname in ["V1", "V2"] {
        let s = scheme_of(sname);
        for v in &vs {
            cov.eval(Some(vcore::hash64(format!("{sname}{v}").as_bytes())));
            viol.extend(check_naming(sname, *v));
        }
        // pairwise: injective; V2 attached names sort in reverse version order and before detached
        let names: Vec<(u64, String)> = vs.iter().map(|v| (*v, s.manifest_path(&base, *v).filename().unwrap().to_string())).collect();
        for (a, na) in &names {
            for (b, nb) in &names {
                if a >= b {
                    continue;
                }
                cov.eval(None);
                let case = json!({"kind":"naming_pair","scheme":sname,"a":a,"b":b});
                if na == nb {
                    viol.push(Violation::new("naming", &format!("naming/{sname}/name-collision"), format!("versions {a} and {b} share the name {na}"), case.clone()));
                }
                let (da, db) = (a >> 63 == 1, b >> 63 == 1);
                if sname == "V2" {
                    if !da && !db && na <= nb {
                        viol.push(Violation::new("naming", "naming/V2/not-reverse-sorted", format!("{a} < {b} but {na} <= {nb}"), case.clone()));
                    }
                    if !da && db && na >= nb {
                        viol.push(Violation::new("naming", "naming/V2/detached-sorts-before-attached", format!("attached {na} >= detached {nb}"), case.clone()));
                    }
                }
            }
        }
    }
    cov.sample(json!({"kind":"naming","scheme":"V2","version": (1u64<<63) - 1}));
}

// ------------------------------------------------------------------------------------------------
// (b) discovery

#[derive(Clone, Debug, PartialEq, Eq, Hash, PartialOrd, Ord)]
enum Kind {
    /// published manifest of an attached version, named under the given scheme
    A(u64, &'static str),
    /// detached manifest
    D(u64),
    /// staging file of a failed/in-flight commit of the next attached version: `{name}-{uuid}`
    S,
    /// local temp file `.tmp_{name}_{uuid}`
    T,
    /// staging file of a detached commit
    DS,
}

impl Kind {
    fn tag(&self) -> &'static str {
        match self {
            Kind::A(..) => "A",
            Kind::D(_) => "D",
            Kind::S => "S",
            Kind::T => "T",
            Kind::DS => "dS",
        }
    }
}

#[derive(Clone, Debug, PartialEq, Eq, Hash)]
struct Entry {
    kind: Kind,
    name: String,
}

fn mk_entry(kind: Kind, dir_scheme: ManifestNamingScheme, next_version: u64) -> Entry {
    let base = Path::from(BASE);
    let name = match &kind {
        Kind::A(v, s) => model_name(scheme_of(s), *v),
        Kind::D(v) => model_name(dir_scheme, *v),
        Kind::S => format!("{}-{UUID}", dir_scheme.manifest_path(&base, next_version).filename().unwrap()),
        Kind::T => format!(".tmp_{}_{UUID}", dir_scheme.manifest_path(&base, next_version).filename().unwrap()),
        Kind::DS => format!("d{}.manifest-{UUID}", DET + 1),
    };
    Entry { kind, name }
}

fn entries_json(es: &[Entry]) -> Value {
    Value::Array(es.iter().map(|e| match &e.kind {
        Kind::A(v, s) => json!({"k":"A","v":v,"s":s,"name":e.name}),
        Kind::D(v) => json!({"k":"D","v":v,"name":e.name}),
        k => json!({"k":k.tag(),"name":e.name}),
    }).collect())
}

fn entries_from_json(v: &Value) -> Vec<Entry> {
    v.as_array().unwrap().iter().map(|e| {
        let name = e["name"].as_str().unwrap().to_string();
        let kind = match e["k"].as_str().unwrap() {
            "A" => Kind::A(e["v"].as_u64().unwrap(), if e["s"] == "V1" { "V1" } else { "V2" }),
            "D" => Kind::D(e["v"].as_u64().unwrap()),
            "S" => Kind::S,
            "T" => Kind::T,
            _ => Kind::DS,
        };
        Entry { kind, name }
    }).collect()
}

#[derive(Clone, Copy, Debug, PartialEq, Eq, Hash, PartialOrd, Ord)]
enum StoreKind {
    /// store promises lexically ordered listing and lists lexically
    Lexical,
    /// store does not promise any order; listing order is the order of the case's entries
    Unordered,
    /// real directory through ObjectStore::local()
    Local,
}

impl StoreKind {
    fn name(&self) -> &'static str {
        match self {
            StoreKind::Lexical => "lexical",
            StoreKind::Unordered => "unordered",
            StoreKind::Local => "local",
        }
    }
}

/// A failure of one call on one directory: (call, class) -> detail
type Fails = BTreeMap<(&'static str, String), String>;

fn lance_store(ms: &MemStore, lexical: bool) -> ObjectStore {
    ObjectStore::new(
        Arc::new(ms.clone()),
        url::Url::parse("memory:///").unwrap(),
        None,
        None,
        false,
        lexical,
        4,
        0,
        None,
    )
}

fn mem_dir(es: &[Entry]) -> MemStore {
    let ms = MemStore::new();
    for e in es {
        ms.write_raw(&format!("{BASE}/_versions/{}", e.name), Bytes::from(format!("content of {}", e.name)));
    }
    // listing order = order of `es`: rank of each lexical position
    let mut lex: Vec<&str> = es.iter().map(|e| e.name.as_str()).collect();
    lex.sort_by(|a, b| Path::from(*a).cmp(&Path::from(*b)));
    let perm: Vec<usize> = lex.iter().map(|n| es.iter().position(|e| e.name == *n).unwrap()).collect();
    ms.set_list_perm(Some(perm));
    ms
}

fn err_class(e: &lance_core::Error) -> String {
    let m = e.to_string();
    if m.contains("Found V2 manifest in a V1 manifest directory") {
        "err-v2-in-v1-directory".into()
    } else if matches!(e, lance_core::Error::NotFound { .. }) {
        "err-not-found".into()
    } else {
        "err-other".into()
    }
}

async fn guarded<T>(f: impl std::future::Future<Output = T>) -> Result<T, String> {
    AssertUnwindSafe(f).catch_unwind().await.map_err(|e| vcore::panic_message(&e))
}

fn panic_class(msg: &str) -> String {
    if msg.contains("Option::unwrap()") && msg.contains("None") {
        "panic-unwrap-none".into()
    } else {
        "panic-other".into()
    }
}

/// `--opt candidate_fix=1`: evaluate the proposed repair (proposed_fixes/C33-*.diff) instead of the
/// shipped `current_manifest_path` on the in-memory stores. Development aid only, never registered.
static CANDIDATE_FIX: std::sync::atomic::AtomicBool = std::sync::atomic::AtomicBool::new(false);

/// Copy of `current_manifest_path` (non-local part) with the proposed repair applied.
async fn candidate_current_manifest_path(object_store: &ObjectStore, base: &Path) -> lance_core::Result<lance_table::io::commit::ManifestLocation> {
    use futures::{future, StreamExt};
    use lance_table::io::commit::ManifestLocation;
    use snafu::location;
    let manifest_files = object_store.list(Some(base.child("_versions")));
    let mut valid_manifests = manifest_files.try_filter_map(|res| {
        let filename = res.location.filename().unwrap();
        let scheme = ManifestNamingScheme::detect_scheme(filename).filter(|scheme| scheme.parse_version(filename).is_some());
        future::ready(Ok(scheme.map(|scheme| (scheme, res))))
    });
    let first = valid_manifests.next().await.transpose()?;
    match (first, object_store.list_is_lexically_ordered) {
        (Some((scheme @ ManifestNamingScheme::V2, meta)), true) => {
            let version = scheme.parse_version(meta.location.filename().unwrap()).unwrap();
            for (scheme, meta) in valid_manifests.take(999).try_collect::<Vec<_>>().await? {
                if scheme != ManifestNamingScheme::V2 {
                    break;
                }
                let next_version = scheme.parse_version(meta.location.filename().unwrap()).unwrap();
                if next_version >= version {
                    break;
                }
            }
            Ok(ManifestLocation { version, path: meta.location, size: Some(meta.size), naming_scheme: scheme, e_tag: meta.e_tag })
        }
        (Some((scheme, meta)), _) => {
            let mut current_version = scheme.parse_version(meta.location.filename().unwrap()).unwrap();
            let mut current_meta = meta;
            let first_scheme = scheme;
            while let Some((scheme, meta)) = valid_manifests.next().await.transpose()? {
                if scheme != first_scheme {
                    return Err(lance_core::Error::Internal { message: "Found V1 and V2 manifests in the same directory".to_string(), location: location!() });
                }
                let version = scheme.parse_version(meta.location.filename().unwrap()).unwrap();
                if version > current_version {
                    current_version = version;
                    current_meta = meta;
                }
            }
            Ok(ManifestLocation { version: current_version, path: current_meta.location, size: Some(current_meta.size), naming_scheme: scheme, e_tag: current_meta.e_tag })
        }
        (None, _) => Err(lance_core::Error::NotFound { uri: base.child("_versions").to_string(), location: location!() }),
    }
}

/// Evaluate all discovery oracles on one directory (entries in listing order for Unordered; sorted by
/// the store for Lexical; OS order for Local).
fn eval_dir(scheme: ManifestNamingScheme, kind: StoreKind, es: &[Entry]) -> Fails {
    let mut fails: Fails = BTreeMap::new();
    let attached: Vec<u64> = es.iter().filter_map(|e| if let Kind::A(v, _) = e.kind { Some(v) } else { None }).collect();
    let max = attached.iter().max().copied();
    let handler = ConditionalPutCommitHandler;
    let tmp;
    let (store, base, ms) = match kind {
        StoreKind::Local => {
            tmp = tempfile::tempdir().unwrap_or_else(|e| vcore::machinery_error(&format!("tempdir: {e}")));
            let dir = tmp.path().join(BASE).join("_versions");
            std::fs::create_dir_all(&dir).unwrap();
            for e in es {
                std::fs::write(dir.join(&e.name), format!("content of {}", e.name)).unwrap();
            }
            (ObjectStore::local(), Path::from_filesystem_path(tmp.path().join(BASE)).unwrap(), None)
        }
        _ => {
            let ms = mem_dir(es);
            if kind == StoreKind::Lexical {
                ms.set_list_perm(None);
            }
            (lance_store(&ms, kind == StoreKind::Lexical), Path::from(BASE), Some(ms))
        }
    };
    let _ = &ms;
    let name_of = |v: u64| es.iter().find(|e| matches!(e.kind, Kind::A(x, _) if x == v)).map(|e| e.name.clone());
    vstore::block_on(async {
        // latest
        let candidate = CANDIDATE_FIX.load(std::sync::atomic::Ordering::Relaxed) && kind != StoreKind::Local;
        let latest = if candidate {
            guarded(candidate_current_manifest_path(&store, &base)).await
        } else {
            guarded(handler.resolve_latest_location(&base, &store)).await
        };
        match latest {
            Err(p) => { fails.insert(("latest", panic_class(&p)), p); }
            Ok(Err(e)) => {
                if max.is_some() {
                    fails.insert(("latest", err_class(&e)), e.to_string());
                }
            }
            Ok(Ok(loc)) => match max {
                None => { fails.insert(("latest", "found-without-manifest".into()), format!("resolved {} in a directory without attached manifests", loc.version)); }
                Some(m) => {
                    let want_name = name_of(m).unwrap();
                    if loc.version != m {
                        let c = if attached.contains(&loc.version) { "older-version" } else { "nonexistent-version" };
                        fails.insert(("latest", c.into()), format!("latest = {}, highest published = {m}", loc.version));
                    } else if loc.path.filename() != Some(want_name.as_str()) || !loc.path.as_ref().ends_with(&format!("{BASE}/_versions/{want_name}")) {
                        fails.insert(("latest", "wrong-path".into()), format!("latest path {} expected .../{want_name}", loc.path));
                    } else if loc.naming_scheme != scheme {
                        fails.insert(("latest", "wrong-scheme".into()), format!("latest naming scheme {:?}", loc.naming_scheme));
                    } else if loc.size != Some(format!("content of {want_name}").len() as u64) {
                        fails.insert(("latest", "wrong-size".into()), format!("latest size {:?}", loc.size));
                    }
                }
            },
        }
        // list
        for (call, sorted) in [("list-desc", true), ("list-any", false)] {
            let r = guarded(handler.list_manifest_locations(&base, &store, sorted).try_collect::<Vec<_>>()).await;
            match r {
                Err(p) => { fails.insert((call, panic_class(&p)), p); }
                Ok(Err(e)) => { fails.insert((call, err_class(&e)), e.to_string()); }
                Ok(Ok(locs)) => {
                    let got: Vec<u64> = locs.iter().map(|l| l.version).collect();
                    let mut want = attached.clone();
                    want.sort();
                    want.reverse();
                    let mut gs = got.clone();
                    gs.sort();
                    gs.reverse();
                    if gs != want {
                        let extra = gs.iter().any(|g| !want.contains(g));
                        fails.insert((call, if extra { "lists-nonexistent-version".into() } else { "drops-version".into() }), format!("listed {got:?}, published {want:?}"));
                    } else if sorted && got != want {
                        fails.insert((call, "not-descending".into()), format!("listed {got:?}"));
                    } else if locs.iter().any(|l| Some(l.path.filename().unwrap_or("").to_string()) != name_of(l.version)) {
                        fails.insert((call, "wrong-path".into()), "a listed location does not point at the version's file".into());
                    }
                }
            }
        }
        // resolve a given version
        let mut targets: Vec<(u64, String)> = attached.iter().map(|v| (*v, name_of(*v).unwrap())).collect();
        for e in es {
            if let Kind::D(v) = e.kind {
                targets.push((v, e.name.clone()));
            }
        }
        for (v, name) in targets {
            match guarded(handler.resolve_version_location(&base, v, store.inner.as_ref())).await {
                Err(p) => { fails.insert(("resolve-version", panic_class(&p)), p); }
                Ok(Err(e)) => { fails.insert(("resolve-version", err_class(&e)), format!("version {v}: {e}")); }
                Ok(Ok(loc)) => {
                    if loc.version != v || loc.path.filename() != Some(name.as_str()) {
                        let c = if v >> 63 == 1 { "detached-wrong-path" } else { "attached-wrong-path" };
                        fails.insert(("resolve-version", c.into()), format!("version {v} resolved to {} (file there: {name})", loc.path));
                    }
                }
            }
        }
    });
    fails
}

/// (c) migration on a MemStore directory (entries may mix V1 and V2 attached names)
fn eval_migrate(kind: StoreKind, es: &[Entry]) -> Fails {
    let mut fails: Fails = BTreeMap::new();
    let ms = mem_dir(es);
    if kind == StoreKind::Lexical {
        ms.set_list_perm(None);
    }
    let store = lance_store(&ms, kind == StoreKind::Lexical);
    let base = Path::from(BASE);
    // expected directory afterwards: every attached manifest under its V2 name with its old content
    let mut want: BTreeMap<String, String> = BTreeMap::new();
    for e in es {
        let new_name = match &e.kind {
            Kind::A(v, _) => model_name(ManifestNamingScheme::V2, *v),
            _ => e.name.clone(),
        };
        want.insert(format!("{BASE}/_versions/{new_name}"), format!("content of {}", e.name));
    }
    let dir_now = |ms: &MemStore| -> BTreeMap<String, String> {
        ms.paths().into_iter().map(|p| { let d = ms.read(&p).unwrap(); (p, String::from_utf8_lossy(&d).to_string()) }).collect()
    };
    vstore::block_on(async {
        for round in ["migrate", "migrate-again"] {
            match guarded(migrate_scheme_to_v2(&store, &base)).await {
                Err(p) => { fails.insert((round, panic_class(&p)), p); return; }
                Ok(Err(e)) => { fails.insert((round, err_class(&e)), e.to_string()); return; }
                Ok(Ok(())) => {
                    let got = dir_now(&ms);
                    if got != want {
                        let gk: BTreeSet<_> = got.keys().collect();
                        let wk: BTreeSet<_> = want.keys().collect();
                        let c = if gk != wk { "version-set-changed" } else { "content-changed" };
                        fails.insert((round, c.into()), format!("directory after migration {:?}, expected {:?}", got.keys().collect::<Vec<_>>(), want.keys().collect::<Vec<_>>()));
                        return;
                    }
                }
            }
        }
    });
    fails
}

fn well_formed(es: &[Entry]) -> bool {
    // reachable directories: a detached manifest / detached staging file needs a published table
    let has_attached = es.iter().any(|e| matches!(e.kind, Kind::A(..)));
    let needs = es.iter().any(|e| matches!(e.kind, Kind::D(_) | Kind::DS));
    has_attached || !needs
}

#[derive(Clone, Debug, PartialEq, Eq, Hash)]
struct DirCase {
    mode: &'static str, // "discovery" | "migrate"
    scheme: &'static str,
    store: StoreKind,
    entries: Vec<Entry>,
}

impl DirCase {
    fn json(&self) -> Value {
        json!({"kind": self.mode, "scheme": self.scheme, "store": self.store.name(), "entries": entries_json(&self.entries)})
    }
    fn eval(&self) -> Fails {
        let mut es = self.entries.clone();
        if self.store != StoreKind::Unordered {
            es.sort_by(|a, b| Path::from(a.name.as_str()).cmp(&Path::from(b.name.as_str())));
        }
        if self.mode == "migrate" {
            eval_migrate(self.store, &es)
        } else {
            eval_dir(scheme_of(self.scheme), self.store, &es)
        }
    }
}

struct Explorer {
    memo: HashMap<DirCase, Fails>,
    cov: Cov,
    found: BTreeMap<String, (Violation, u64)>,
    failing_cases: u64,
}

impl Explorer {
    fn new() -> Self {
        Self { memo: HashMap::new(), cov: Cov::new(), found: BTreeMap::new(), failing_cases: 0 }
    }
    fn fails(&mut self, c: &DirCase) -> Fails {
        if let Some(f) = self.memo.get(c) {
            return f.clone();
        }
        let f = c.eval();
        self.memo.insert(c.clone(), f.clone());
        f
    }
    /// greedy minimisation: drop entries while `call` still fails with `class`
    fn minimise(&mut self, c: &DirCase, call: &'static str, class: &str) -> DirCase {
        let mut cur = c.clone();
        'outer: loop {
            for i in 0..cur.entries.len() {
                let mut cand = cur.clone();
                cand.entries.remove(i);
                if !well_formed(&cand.entries) {
                    continue;
                }
                let f = self.fails(&cand);
                if f.contains_key(&(call, class.to_string())) {
                    cur = cand;
                    continue 'outer;
                }
            }
            return cur;
        }
    }
    fn visit(&mut self, c: &DirCase, count_eval: bool) {
        let f = c.eval();
        self.memo.insert(c.clone(), f.clone());
        if count_eval {
            let n_att = c.entries.iter().filter(|e| matches!(e.kind, Kind::A(..))).count();
            let nt = n_att >= 2 || (n_att >= 1 && c.entries.len() > n_att);
            self.cov.eval(if nt { Some(vcore::hash64(c.json().to_string().as_bytes())) } else { None });
        }
        if f.is_empty() {
            self.cov.outcome(&format!("{}/{}/{}/ok", c.mode, c.scheme, c.store.name()));
            return;
        }
        self.failing_cases += 1;
        for ((call, class), detail) in f {
            let min = self.minimise(c, call, &class);
            let shape: Vec<&str> = {
                let mut es = min.entries.clone();
                if min.store != StoreKind::Unordered {
                    es.sort_by(|a, b| Path::from(a.name.as_str()).cmp(&Path::from(b.name.as_str())));
                }
                let mut tags: Vec<&str> = es.iter().map(|e| e.kind.tag()).collect();
                if min.store == StoreKind::Local {
                    tags.sort(); // OS listing order is not under our control: order-free shape
                }
                tags
            };
            // on a real directory the failure class (error vs panic) depends on the OS listing order
            let class_k = if min.store == StoreKind::Local { "fails".to_string() } else { class.clone() };
            let key = format!("{}/{}/{}/{}/{}/{}", c.mode, call, c.scheme, c.store.name(), class_k, shape.join(","));
            self.cov.outcome(&format!("FAIL {key}"));
            let mdetail = self.fails(&min).get(&(call, class.clone())).cloned().unwrap_or(detail);
            let e = self.found.entry(key.clone()).or_insert_with(|| {
                (Violation::new(&format!("{}-{call}", c.mode), &key,
                    format!("{call} on a {} directory ({} store) listing {:?}: {class}: {}", c.scheme, c.store.name(),
                        min.entries.iter().map(|e| e.name.as_str()).collect::<Vec<_>>(), mdetail.chars().take(300).collect::<String>()),
                    min.json()), 0)
            });
            e.1 += 1;
        }
    }
}

/// all directories (as entry sets) of the tier's scope for one scheme
fn directories(scheme: &'static str, universe: &[u64], max_attached: usize, extras: &[Kind], max_entries: usize) -> Vec<Vec<Entry>> {
    let s = scheme_of(scheme);
    let mut out = vec![];
    for amask in vcore::smallx::subsets(universe.len()) {
        let att: Vec<u64> = vcore::smallx::mask_to_vec(amask, universe.len()).into_iter().map(|i| universe[i]).collect();
        if att.len() > max_attached {
            continue;
        }
        let next = att.iter().max().map(|m| m + 1).unwrap_or(1);
        for xmask in vcore::smallx::subsets(extras.len()) {
            let xs: Vec<Kind> = vcore::smallx::mask_to_vec(xmask, extras.len()).into_iter().map(|i| extras[i].clone()).collect();
            if att.len() + xs.len() > max_entries {
                continue;
            }
            let mut es: Vec<Entry> = att.iter().map(|v| mk_entry(Kind::A(*v, scheme), s, next)).collect();
            es.extend(xs.into_iter().map(|k| mk_entry(k, s, next)));
            if well_formed(&es) {
                out.push(es);
            }
        }
    }
    out
}

/// partially migrated directories: every attached version independently V1- or V2-named
fn mixed_directories(universe: &[u64], max_attached: usize, extras: &[Kind]) -> Vec<Vec<Entry>> {
    let mut out = vec![];
    for amask in vcore::smallx::subsets(universe.len()) {
        let att: Vec<u64> = vcore::smallx::mask_to_vec(amask, universe.len()).into_iter().map(|i| universe[i]).collect();
        if att.is_empty() || att.len() > max_attached {
            continue;
        }
        let next = att.iter().max().unwrap() + 1;
        for smask in vcore::smallx::subsets(att.len()) {
            for xmask in vcore::smallx::subsets(extras.len()) {
                let mut es: Vec<Entry> = att.iter().enumerate()
                    .map(|(i, v)| mk_entry(Kind::A(*v, if smask & (1 << i) != 0 { "V2" } else { "V1" }), ManifestNamingScheme::V1, next)).collect();
                es.extend(vcore::smallx::mask_to_vec(xmask, extras.len()).into_iter().map(|i| mk_entry(extras[i].clone(), ManifestNamingScheme::V1, next)));
                out.push(es);
            }
        }
    }
    out
}

fn for_each_order(es: &[Entry], mut f: impl FnMut(Vec<Entry>)) {
    let n = es.len();
    if n <= 1 {
        f(es.to_vec());
        return;
    }
    if n <= 8 {
        for p in vcore::smallx::permutations(n) {
            f(p.iter().map(|i| es[*i].clone()).collect());
        }
    } else {
        // Heap's algorithm, in place
        let mut a: Vec<usize> = (0..n).collect();
        let mut c = vec![0usize; n];
        f(a.iter().map(|i| es[*i].clone()).collect());
        let mut i = 0;
        while i < n {
            if c[i] < i {
                if i % 2 == 0 { a.swap(0, i) } else { a.swap(c[i], i) }
                f(a.iter().map(|i| es[*i].clone()).collect());
                c[i] += 1;
                i = 0;
            } else {
                c[i] = 0;
                i += 1;
            }
        }
    }
}

fn check_case(case: &Value) -> Vec<Violation> {
    match case["kind"].as_str().unwrap_or("") {
        "naming" => check_naming(case["scheme"].as_str().unwrap(), case["version"].as_u64().unwrap()),
        "naming_pair" => {
            let mut cov = Cov::new();
            let mut v = vec![];
            naming(&mut cov, &mut v);
            v
        }
        m @ ("discovery" | "migrate") => {
            let c = DirCase {
                mode: if m == "migrate" { "migrate" } else { "discovery" },
                scheme: match case["scheme"].as_str().unwrap_or("") { "V1" => "V1", "mixed" => "mixed", _ => "V2" },
                store: match case["store"].as_str().unwrap() { "lexical" => StoreKind::Lexical, "local" => StoreKind::Local, _ => StoreKind::Unordered },
                entries: entries_from_json(&case["entries"]),
            };
            let mut ex = Explorer::new();
            ex.visit(&c, false);
            ex.found.into_values().map(|(v, _)| v).collect()
        }
        other => vcore::machinery_error(&format!("C33 replay: unknown case kind {other:?}")),
    }
}

pub fn run(ctx: &Ctx) -> Outcome {
    let mut out = Outcome::new("exploration");
    if let Some(art) = ctx.replay_case() {
        out.violations = check_case(&art["case"]);
        out.set("replayed", true);
        return out;
    }
    let mut cov = Cov::new();
    let mut viol = vec![];
    if ctx.opts.get("candidate_fix").map(|v| v == "1").unwrap_or(false) {
        CANDIDATE_FIX.store(true, std::sync::atomic::Ordering::Relaxed);
        out.set("candidate_fix", true);
        out.assume("DEVELOPMENT RUN: resolve_latest_location replaced by the harness copy of the proposed repair");
    }
    naming(&mut cov, &mut viol);

    // scope per tier
    let universe: Vec<u64> = ctx.tier.pick(vec![1, 2, 3, 10, 11], vec![0, 1, 2, 9, 10, 11, (1u64 << 63) - 1]);
    let max_attached = 4;
    // detached manifests (and their staging files) only exist in V2 directories: CommitBuilder
    // refuses detached commits on tables with V1 manifest paths
    let extras_v2: Vec<Kind> = ctx.tier.pick(
        vec![Kind::D(DET), Kind::S, Kind::T, Kind::DS],
        vec![Kind::D(DET), Kind::D(DET2), Kind::S, Kind::T, Kind::DS],
    );
    let extras_v1: Vec<Kind> = vec![Kind::S, Kind::T];
    let max_entries = 7; // 8 entries = 40320 listing orders per directory: > 12 M evaluations, does not fit the thorough budget
    let wall_cap = ctx.tier.pick(40.0, 780.0);

    // work items
    let mut items: Vec<DirCase> = vec![];
    for scheme in ["V1", "V2"] {
        let extras = if scheme == "V1" { &extras_v1 } else { &extras_v2 };
        for es in directories(scheme, &universe, max_attached, extras, max_entries) {
            for store in [StoreKind::Lexical, StoreKind::Unordered, StoreKind::Local] {
                items.push(DirCase { mode: "discovery", scheme, store, entries: es.clone() });
            }
            if scheme == "V1" && es.iter().any(|e| matches!(e.kind, Kind::A(..))) {
                for store in [StoreKind::Lexical, StoreKind::Unordered] {
                    items.push(DirCase { mode: "migrate", scheme, store, entries: es.clone() });
                }
            }
        }
    }
    let mixed_extras = vec![Kind::S, Kind::T];
    for es in mixed_directories(&universe[..universe.len().min(5)], 3, &mixed_extras) {
        if es.iter().all(|e| !matches!(e.kind, Kind::A(_, "V2"))) {
            continue; // pure V1: covered above
        }
        for store in [StoreKind::Lexical, StoreKind::Unordered] {
            items.push(DirCase { mode: "migrate", scheme: "mixed", store, entries: es.clone() });
        }
    }
    // biggest first (dynamic scheduling in par_map), seed only rotates the order of equal-size items
    items.sort_by_key(|c| std::cmp::Reverse(c.entries.len()));
    if ctx.seed != 0 && !items.is_empty() {
        let k = (ctx.seed as usize) % items.len();
        items.rotate_left(k);
        items.sort_by_key(|c| std::cmp::Reverse(c.entries.len()));
    }
    let n_items = items.len();
    let capped = std::sync::atomic::AtomicU64::new(0);
    let start = std::time::Instant::now();
    let results = vcore::par_map(items, ctx.workers, |_, item| {
        let mut ex = Explorer::new();
        if start.elapsed().as_secs_f64() > wall_cap {
            capped.fetch_add(1, std::sync::atomic::Ordering::SeqCst);
            return ex;
        }
        if item.store == StoreKind::Unordered {
            let base = item.clone();
            for_each_order(&item.entries, |order| {
                let mut c = base.clone();
                c.entries = order;
                ex.visit(&c, true);
            });
        } else {
            ex.visit(&item, true);
        }
        ex.memo.clear();
        ex
    });
    let mut failing = 0u64;
    let mut found: BTreeMap<String, (Violation, u64)> = BTreeMap::new();
    for ex in results {
        cov.merge(ex.cov);
        failing += ex.failing_cases;
        for (k, (v, n)) in ex.found {
            let e = found.entry(k).or_insert((v.clone(), 0));
            // keep the smallest artefact
            if v.case["entries"].as_array().map(|a| a.len()).unwrap_or(0) < e.0.case["entries"].as_array().map(|a| a.len()).unwrap_or(0) {
                e.0 = v;
            }
            e.1 += n;
        }
    }
    for (_, (v, _)) in found {
        viol.push(v);
    }
    let capped = capped.load(std::sync::atomic::Ordering::SeqCst);
    cov.sample(json!({"kind":"discovery","scheme":"V1","store":"unordered","entries":["10.manifest","2.manifest","3.manifest-<uuid>"]}));
    cov.sample(json!({"kind":"migrate","scheme":"mixed","store":"unordered","entries":["2.manifest","18446744073709551614.manifest","d<2^63+5>.manifest"]}));
    cov.fill(&mut out,
        &format!("odometer over: naming of {} versions x 2 schemes (+ all pairs); directories = subsets (<= {max_attached}) of attached versions {universe:?} under V1 / V2 naming x every subset of extras (V2: {:?}; V1: S,T) (<= {max_entries} entries), each on a lexically listing store, on an order-free store in every listing permutation, and in a real local directory; migrate_scheme_to_v2 on every V1 directory and every partially migrated directory (<=3 attached, each V1- or V2-named) in every listing permutation. non-trivial = directory with >=2 attached manifests or one attached manifest plus other files, counted per listing order",
            naming_versions().len(), extras_v2.iter().map(|k| k.tag()).collect::<Vec<_>>()),
        capped == 0);
    out.set("work_items", n_items as u64);
    out.set("failing_cases", failing);
    if capped > 0 {
        out.set("cap_hit", format!("wall cap {wall_cap}s: {capped} of {n_items} work items not explored"));
    }
    out.assume("listing permutations are only applied to a store that does not promise lexical listing (list_is_lexically_ordered=false); a store that promises it lists lexically");
    out.assume("well-formed directory = published manifests of one scheme + files Lance itself writes there: detached manifests d{version}.manifest and their staging files (V2 directories only: detached commits are refused on V1 tables), staging files {name}-{uuid}, local temp files .tmp_{name}_{uuid}; a directory with detached files but no published manifest is unreachable and excluded");
    out.assume("MemStore implements the object_store contract (list/head/copy/delete/rename); real-directory cases use the OS listing order only");
    out.violations = viol;
    out
}
