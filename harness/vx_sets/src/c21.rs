//! C21 – index result combination and row-set masks are sound (K5, fully exhaustive small scope).
//!
//! (a) `RowIdTreeMap` against a reference set model over a universe of 2 fragments x 4 offsets
//!     where each fragment may also be a "full fragment" marker: all pairs for |, &, -, plus
//!     contains / len / row_ids / remove / retain_fragments / mask / serialise round trip, and
//!     `insert_range` for every range with bounds at the 32-bit boundaries.
//! (b) `RowIdMask`: all (allow, block) pairs over a 4-element universe: `!`, `&`, `|`, `selected`,
//!     `max_len`, `iter_ids`, `also_allow` / `also_block`, `normalize`, Arrow round trip.
//! (c) `ScalarIndexExpr::evaluate` with a stub index loader: see `c21_expr.rs`.

use lance_core::utils::mask::{RowIdMask, RowIdTreeMap};
use serde_json::json;
use std::collections::BTreeSet;
use std::ops::Bound;
use vcore::{Cov, Ctx, Outcome, Violation};

const OFFS: [u32; 4] = [0, 1, 2, 3];
/// probe addresses: every universe address, one offset outside the partial universe per fragment
/// (only a full fragment contains it) and a fragment outside the universe
fn probes() -> Vec<u64> {
    let mut v = vec![];
    for f in 0u64..3 {
        for o in [0u64, 1, 2, 3, 7, u32::MAX as u64] {
            v.push((f << 32) | o);
        }
    }
    v
}

/// reference model: per fragment either Full or a set of offsets
#[derive(Clone, Debug, PartialEq, Eq)]
struct MSet {
    full: BTreeSet<u32>,
    part: BTreeSet<u64>,
}

impl MSet {
    fn contains(&self, a: u64) -> bool {
        self.full.contains(&((a >> 32) as u32)) || self.part.contains(&a)
    }
    fn describe(&self) -> String {
        format!("full={:?} part={:?}", self.full, self.part)
    }
}

/// per-fragment option index: 0..16 = subset mask of OFFS, 16 = Full
fn build(opts: &[usize]) -> (RowIdTreeMap, MSet) {
    let mut t = RowIdTreeMap::new();
    let mut m = MSet {
        full: BTreeSet::new(),
        part: BTreeSet::new(),
    };
    for (f, o) in opts.iter().enumerate() {
        if *o == 16 {
            t.insert_fragment(f as u32);
            m.full.insert(f as u32);
        } else {
            for (i, off) in OFFS.iter().enumerate() {
                if o & (1 << i) != 0 {
                    let a = ((f as u64) << 32) | *off as u64;
                    t.insert(a);
                    m.part.insert(a);
                }
            }
        }
    }
    (t, m)
}

fn all_sets() -> Vec<Vec<usize>> {
    let mut v = vec![];
    for a in 0..17 {
        for b in 0..17 {
            v.push(vec![a, b]);
        }
    }
    v
}

fn check_members(t: &RowIdTreeMap, want: &dyn Fn(u64) -> bool) -> Option<u64> {
    probes().into_iter().find(|p| t.contains(*p) != want(*p))
}

/// `Full - Partial` and `remove` from a full fragment materialise `RoaringBitmap::full()` (65536 dense
/// containers, ~0.5 GB); those paths are explored on one fixed case each instead of the whole product.
fn heavy_sub(a: &[usize], b: &[usize]) -> bool {
    a.iter().zip(b.iter()).any(|(x, y)| *x == 16 && *y >= 1 && *y < 16)
}

fn treemap_pairs(cov: &mut Cov, viol: &mut Vec<Violation>, slice: &[Vec<usize>], all: &[Vec<usize>], heavy_budget: &std::sync::atomic::AtomicIsize) {
    for a in slice {
        let (ta, ma) = build(a);
        for b in all {
            let (tb, mb) = build(b);
            for op in ["or", "and", "sub"] {
                if op == "sub" && heavy_sub(a, b) {
                    let simple = a == &vec![16, 0] && b[1] == 0 && b[0] == 1;
                    if !simple || heavy_budget.fetch_sub(1, std::sync::atomic::Ordering::SeqCst) <= 0 {
                        continue;
                    }
                }
                let r = match op {
                    "or" => ta.clone() | tb.clone(),
                    "and" => ta.clone() & tb.clone(),
                    _ => ta.clone() - tb.clone(),
                };
                let want = |p: u64| match op {
                    "or" => ma.contains(p) || mb.contains(p),
                    "and" => ma.contains(p) && mb.contains(p),
                    _ => ma.contains(p) && !mb.contains(p),
                };
                let any_full_result = (0u32..2).any(|f| {
                    let p = ((f as u64) << 32) | u32::MAX as u64;
                    want(p)
                });
                let expected_n = probes().iter().filter(|p| want(**p)).count();
                let nontrivial = expected_n > 0 && expected_n < probes().len();
                cov.eval(if nontrivial {
                    Some(vcore::hash64(format!("{op}{a:?}{b:?}").as_bytes()))
                } else {
                    None
                });
                if let Some(p) = check_members(&r, &want) {
                    viol.push(Violation::new(
                        "treemap-membership",
                        &format!("treemap/{op}/membership"),
                        format!(
                            "({}) {op} ({}): contains({p:#x}) = {} but set semantics say {}",
                            ma.describe(),
                            mb.describe(),
                            r.contains(p),
                            want(p)
                        ),
                        json!({"kind":"treemap_pair","op":op,"a":a,"b":b,"probe":p}),
                    ));
                    continue;
                }
                // size: exact when no full fragment is in the result
                if !any_full_result {
                    let n = (0u64..2)
                        .flat_map(|f| OFFS.iter().map(move |o| (f << 32) | *o as u64))
                        .filter(|p| want(*p))
                        .count() as u64;
                    // a result may legitimately keep a `Full` marker only if the set is full there
                    match r.len() {
                        Some(l) if l == n => {}
                        other => viol.push(Violation::new(
                            "treemap-len",
                            &format!("treemap/{op}/len"),
                            format!(
                                "({}) {op} ({}): len() = {:?}, set has {} members",
                                ma.describe(),
                                mb.describe(),
                                other,
                                n
                            ),
                            json!({"kind":"treemap_pair","op":op,"a":a,"b":b}),
                        )),
                    }
                    // iteration == members in ascending order
                    match r.row_ids() {
                        Some(it) => {
                            let got: Vec<u64> = it.map(u64::from).collect();
                            let exp: Vec<u64> = (0u64..2)
                                .flat_map(|f| OFFS.iter().map(move |o| (f << 32) | *o as u64))
                                .filter(|p| want(*p))
                                .collect();
                            if got != exp {
                                viol.push(Violation::new(
                                    "treemap-iter",
                                    &format!("treemap/{op}/row_ids"),
                                    format!("row_ids() = {got:?}, expected {exp:?}"),
                                    json!({"kind":"treemap_pair","op":op,"a":a,"b":b}),
                                ));
                            }
                        }
                        None => viol.push(Violation::new(
                            "treemap-iter",
                            &format!("treemap/{op}/row_ids-none"),
                            "row_ids() = None although no full fragment is in the result",
                            json!({"kind":"treemap_pair","op":op,"a":a,"b":b}),
                        )),
                    }
                    if r.is_empty() && n != 0 {
                        viol.push(Violation::new(
                            "treemap-len",
                            &format!("treemap/{op}/is_empty"),
                            "is_empty() on a set with members",
                            json!({"kind":"treemap_pair","op":op,"a":a,"b":b}),
                        ));
                    }
                }
                // serialisation round trip keeps membership and the declared size
                if op == "sub" && heavy_sub(a, b) {
                    continue; // 0.5 GB dense bitmap: membership/len/iteration checked above only
                }
                let mut buf = vec![];
                match r.serialize_into(&mut buf) {
                    Ok(()) => {
                        if buf.len() != r.serialized_size() {
                            viol.push(Violation::new(
                                "treemap-serde",
                                "treemap/serialized_size",
                                format!("serialized_size {} != bytes written {}", r.serialized_size(), buf.len()),
                                json!({"kind":"treemap_pair","op":op,"a":a,"b":b}),
                            ));
                        }
                        match RowIdTreeMap::deserialize_from(&buf[..]) {
                            Ok(back) => {
                                if let Some(p) = check_members(&back, &want) {
                                    viol.push(Violation::new(
                                        "treemap-serde",
                                        "treemap/serde-membership",
                                        format!("after round trip contains({p:#x}) differs"),
                                        json!({"kind":"treemap_pair","op":op,"a":a,"b":b,"probe":p}),
                                    ));
                                }
                            }
                            Err(e) => viol.push(Violation::new(
                                "treemap-serde",
                                "treemap/deserialize-error",
                                format!("deserialize failed: {e}"),
                                json!({"kind":"treemap_pair","op":op,"a":a,"b":b}),
                            )),
                        }
                    }
                    Err(e) => viol.push(Violation::new(
                        "treemap-serde",
                        "treemap/serialize-error",
                        format!("serialize failed: {e}"),
                        json!({"kind":"treemap_pair","op":op,"a":a,"b":b}),
                    )),
                }
            }
        }
    }
}

fn treemap_unary(cov: &mut Cov, viol: &mut Vec<Violation>) {
    for a in all_sets() {
        let (t, m) = build(&a);
        // remove(p) for every probe
        for p in probes() {
            if m.full.contains(&((p >> 32) as u32)) && !(a == vec![16, 0] && p == 1) {
                // remove from a full fragment materialises RoaringBitmap::full(); one fixed case only
                continue;
            }
            let mut t2 = t.clone();
            let was = t2.remove(p);
            cov.eval(Some(vcore::hash64(format!("rm{a:?}{p}").as_bytes())));
            if was != m.contains(p) {
                viol.push(Violation::new(
                    "treemap-remove",
                    "treemap/remove/return",
                    format!("remove({p:#x}) on {} returned {was}", m.describe()),
                    json!({"kind":"treemap_remove","a":a,"probe":p}),
                ));
            }
            let want = |q: u64| m.contains(q) && q != p;
            if let Some(q) = check_members(&t2, &want) {
                viol.push(Violation::new(
                    "treemap-remove",
                    "treemap/remove/membership",
                    format!("after remove({p:#x}) on {}: contains({q:#x}) wrong", m.describe()),
                    json!({"kind":"treemap_remove","a":a,"probe":p,"q":q}),
                ));
            }
        }
        // retain_fragments for every subset of {0,1,2}
        for keep in 0u32..8 {
            let ids: Vec<u32> = (0..3).filter(|i| keep & (1 << i) != 0).collect();
            let mut t2 = t.clone();
            t2.retain_fragments(ids.clone());
            cov.eval(None);
            let want = |q: u64| m.contains(q) && ids.contains(&((q >> 32) as u32));
            if let Some(q) = check_members(&t2, &want) {
                viol.push(Violation::new(
                    "treemap-retain",
                    "treemap/retain_fragments",
                    format!("retain_fragments({ids:?}) on {}: contains({q:#x}) wrong", m.describe()),
                    json!({"kind":"treemap_retain","a":a,"keep":ids}),
                ));
            }
        }
        // insert(p)
        for p in probes() {
            let mut t2 = t.clone();
            let fresh = t2.insert(p);
            cov.eval(None);
            if fresh == m.contains(p) {
                viol.push(Violation::new(
                    "treemap-insert",
                    "treemap/insert/return",
                    format!("insert({p:#x}) on {} returned {fresh}", m.describe()),
                    json!({"kind":"treemap_insert","a":a,"probe":p}),
                ));
            }
            let want = |q: u64| m.contains(q) || q == p;
            if let Some(q) = check_members(&t2, &want) {
                viol.push(Violation::new(
                    "treemap-insert",
                    "treemap/insert/membership",
                    format!("after insert({p:#x}): contains({q:#x}) wrong"),
                    json!({"kind":"treemap_insert","a":a,"probe":p}),
                ));
            }
        }
    }
}

fn bound_of(kind: usize, v: u64) -> Bound<u64> {
    match kind {
        0 => Bound::Included(v),
        1 => Bound::Excluded(v),
        _ => Bound::Unbounded,
    }
}

fn in_range(x: u64, lo: &Bound<u64>, hi: &Bound<u64>) -> bool {
    let a = match lo {
        Bound::Included(s) => x >= *s,
        Bound::Excluded(s) => x > *s,
        Bound::Unbounded => true,
    };
    let b = match hi {
        Bound::Included(e) => x <= *e,
        Bound::Excluded(e) => x < *e,
        Bound::Unbounded => true,
    };
    a && b
}

/// one insert_range case on an empty map: count, membership on `probe_pts`, no left-over empty entry.
/// `suffix` is appended to the classification keys ("" or "/last-fragment").
fn check_range(lo: Bound<u64>, hi: Bound<u64>, probe_pts: &[u64], suffix: &str, cov: &mut Cov, viol: &mut Vec<Violation>) {
    // model count (u128 to be safe)
    let first: u128 = match lo {
        Bound::Included(s) => s as u128,
        Bound::Excluded(s) => s as u128 + 1,
        Bound::Unbounded => 0,
    };
    let last_excl: u128 = match hi {
        Bound::Included(e) => e as u128 + 1,
        Bound::Excluded(e) => e as u128,
        Bound::Unbounded => 1u128 << 64,
    };
    let n: u128 = last_excl.saturating_sub(first);
    if n > (1 << 18) {
        // a range covering (most of) a whole fragment would allocate 65536 dense roaring
        // containers; outside the stated scope
        return;
    }
    let case = json!({"kind":"insert_range","lo":format!("{lo:?}"),"hi":format!("{hi:?}")});
    let mut t = RowIdTreeMap::new();
    let r = vcore::catch(|| t.insert_range((lo, hi)));
    cov.eval(if n > 0 {
        Some(vcore::hash64(case.to_string().as_bytes()))
    } else {
        Some(vcore::hash64(format!("empty{case}").as_bytes()))
    });
    let empty_kind = if n == 0 { "empty" } else { "nonempty" };
    match r {
        Err(p) => viol.push(Violation::new(
            "treemap-insert-range",
            &format!("treemap/insert_range/{empty_kind}/panic{suffix}"),
            format!("insert_range({lo:?},{hi:?}) panicked: {p}"),
            case,
        )),
        Ok(cnt) => {
            if cnt as u128 != n {
                viol.push(Violation::new(
                    "treemap-insert-range",
                    &format!("treemap/insert_range/{empty_kind}/count{suffix}"),
                    format!("insert_range({lo:?},{hi:?}) returned {cnt}, range holds {n}"),
                    case.clone(),
                ));
            }
            if let Some(p) = probe_pts.iter().find(|p| t.contains(**p) != in_range(**p, &lo, &hi)) {
                viol.push(Violation::new(
                    "treemap-insert-range",
                    &format!("treemap/insert_range/{empty_kind}/membership{suffix}"),
                    format!("after insert_range({lo:?},{hi:?}): contains({p:#x}) = {}", t.contains(*p)),
                    case.clone(),
                ));
            }
            if n == 0 && !t.is_empty() && t.len() == Some(0) {
                // an empty range must leave the map without members (checked above);
                // a left-over empty fragment entry is reported separately
                viol.push(Violation::new(
                    "treemap-insert-range",
                    &format!("treemap/insert_range/empty/leaves-empty-entry{suffix}"),
                    format!("insert_range({lo:?},{hi:?}) leaves a non-empty map of length 0"),
                    case,
                ));
            }
        }
    }
}

/// insert_range over every pair of bounds from the boundary alphabet. Unbounded starts are only
/// combined with ends in the first fragment so that the bitmap stays small; a second alphabet at
/// the top of u64 (last fragment, 2^64-2^32..) adds the unbounded end.
fn treemap_ranges(cov: &mut Cov, viol: &mut Vec<Violation>) {
    let w = 1u64 << 32;
    let vals = [0u64, 1, 3, w - 1, w, w + 1, 2 * w - 1, 2 * w, 2 * w + 2];
    let probes_of = |vals: &[u64], extra: &[u64]| -> Vec<u64> {
        let mut v = vec![];
        for x in vals {
            for d in [-1i64, 0, 1] {
                if let Some(p) = x.checked_add_signed(d) {
                    v.push(p);
                }
            }
        }
        v.extend_from_slice(extra);
        v.sort();
        v.dedup();
        v
    };
    let probe_pts = probes_of(&vals, &[5, w + 7]);
    for (si, s) in vals.iter().enumerate() {
        for sk in 0..3usize {
            if sk == 2 && si > 0 {
                continue;
            }
            for e in vals.iter() {
                for ek in 0..2usize {
                    check_range(bound_of(sk, *s), bound_of(ek, *e), &probe_pts, "", cov, viol);
                }
            }
        }
    }
    // top of u64: the last fragment (high word u32::MAX) and the unbounded end
    let m = u64::MAX;
    let top = [m - w, m - w + 1, m - 3, m - 2, m - 1, m];
    let top_probes = probes_of(&top, &[0, w, m - 7]);
    for s in top.iter() {
        for sk in 0..2usize {
            for e in top.iter() {
                for ek in 0..2usize {
                    check_range(bound_of(sk, *s), bound_of(ek, *e), &top_probes, "/last-fragment", cov, viol);
                }
            }
            check_range(bound_of(sk, *s), Bound::Unbounded, &top_probes, "/last-fragment", cov, viol);
        }
    }
}

// ---------------------------------------------------------------------------------------------
// (b) RowIdMask over the 4-element universe {0,1,2,3} of fragment 0 (+ probe 7 outside)

fn mask_lists() -> Vec<Option<u32>> {
    let mut v = vec![None];
    v.extend((0..16).map(Some));
    v
}

fn list_of(bits: u32) -> RowIdTreeMap {
    let mut t = RowIdTreeMap::new();
    for i in 0..4 {
        if bits & (1 << i) != 0 {
            t.insert(i as u64);
        }
    }
    t
}

fn mk_mask(allow: Option<u32>, block: Option<u32>) -> RowIdMask {
    RowIdMask {
        allow_list: allow.map(list_of),
        block_list: block.map(list_of),
    }
}

fn msel(allow: Option<u32>, block: Option<u32>, x: u64) -> bool {
    let a = match allow {
        None => true,
        Some(b) => x < 4 && b & (1 << x) != 0,
    };
    let bl = match block {
        None => false,
        Some(b) => x < 4 && b & (1 << x) != 0,
    };
    a && !bl
}

const MPROBES: [u64; 6] = [0, 1, 2, 3, 7, 1 << 32];

fn shape(allow: Option<u32>, block: Option<u32>) -> &'static str {
    match (allow, block) {
        (None, None) => "none",
        (Some(_), None) => "allow",
        (None, Some(_)) => "block",
        (Some(_), Some(_)) => "both",
    }
}

fn masks(cov: &mut Cov, viol: &mut Vec<Violation>) {
    let lists = mask_lists();
    let mut all = vec![];
    for a in &lists {
        for b in &lists {
            all.push((*a, *b));
        }
    }
    for (a, b) in &all {
        let m = mk_mask(*a, *b);
        let case = json!({"kind":"mask","allow":a,"block":b});
        cov.eval(Some(vcore::hash64(case.to_string().as_bytes())));
        // selected
        for p in MPROBES {
            if m.selected(p) != msel(*a, *b, p) {
                viol.push(Violation::new("mask-selected", &format!("mask/selected/{}", shape(*a, *b)),
                    format!("selected({p}) wrong for allow={a:?} block={b:?}"), case.clone()));
            }
        }
        // complement
        let n = !m.clone();
        if let Some(p) = MPROBES.iter().find(|p| n.selected(**p) == msel(*a, *b, **p)) {
            viol.push(Violation::new("mask-not", &format!("mask/not/{}", shape(*a, *b)),
                format!("!mask(allow={a:?}, block={b:?}) selects {p} = {} but the mask selects it = {}", n.selected(*p), msel(*a,*b,*p)),
                case.clone()));
        }
        // normalize keeps the selection
        let nm = m.clone().normalize();
        if let Some(p) = MPROBES.iter().find(|p| nm.selected(**p) != msel(*a, *b, **p)) {
            viol.push(Violation::new("mask-normalize", &format!("mask/normalize/{}", shape(*a, *b)),
                format!("normalize changes selected({p})"), case.clone()));
        }
        // max_len is an upper bound on the number of selected ids (when it answers)
        let count = (0..4).filter(|x| msel(*a, *b, *x)).count() as u64;
        if let Some(ml) = m.max_len() {
            if a.is_some() && ml < count {
                viol.push(Violation::new("mask-max-len", "mask/max_len", format!("max_len {ml} < {count}"), case.clone()));
            }
        }
        // iter_ids == selected ids ascending (when it answers); must answer when allow list is there
        match m.iter_ids() {
            Some(it) => {
                let got: Vec<u64> = it.map(u64::from).collect();
                let exp: Vec<u64> = (0..4).filter(|x| msel(*a, *b, *x)).collect();
                if got != exp {
                    viol.push(Violation::new("mask-iter", &format!("mask/iter_ids/{}", shape(*a, *b)),
                        format!("iter_ids {got:?} expected {exp:?}"), case.clone()));
                }
            }
            None => {
                if a.is_some() {
                    viol.push(Violation::new("mask-iter", "mask/iter_ids/none", "iter_ids() None with an allow list and no full fragments", case.clone()));
                }
            }
        }
        // selected_indices (panics by contract when both lists are None)
        if a.is_some() || b.is_some() {
            let ids: Vec<u64> = vec![3, 0, 7, 1, 1, 2];
            let got = m.selected_indices(ids.iter());
            let exp: Vec<u64> = ids.iter().enumerate().filter(|(_, x)| msel(*a, *b, **x)).map(|(i, _)| i as u64).collect();
            if got != exp {
                viol.push(Violation::new("mask-selected", "mask/selected_indices", format!("selected_indices {got:?} expected {exp:?}"), case.clone()));
            }
        }
        // arrow round trip
        match m.into_arrow().and_then(|arr| RowIdMask::from_arrow(&arr)) {
            Ok(back) => {
                if let Some(p) = MPROBES.iter().find(|p| back.selected(**p) != msel(*a, *b, **p)) {
                    viol.push(Violation::new("mask-arrow", &format!("mask/arrow/{}", shape(*a, *b)),
                        format!("arrow round trip changes selected({p})"), case.clone()));
                }
            }
            Err(e) => viol.push(Violation::new("mask-arrow", "mask/arrow/error", format!("arrow round trip failed: {e}"), case.clone())),
        }
        // also_allow / also_block with every list
        for extra in 0..16u32 {
            let aa = m.clone().also_allow(list_of(extra));
            let ab = m.clone().also_block(list_of(extra));
            cov.eval(None);
            for p in MPROBES {
                let in_extra = p < 4 && extra & (1 << p) != 0;
                // also_allow: ids in `extra` become allowed (block list still wins)
                let want_allow = match a {
                    None => msel(*a, *b, p),
                    Some(_) => msel(Some(a.unwrap() | extra), *b, p),
                };
                if aa.selected(p) != want_allow {
                    viol.push(Violation::new("mask-also", &format!("mask/also_allow/{}", shape(*a, *b)),
                        format!("also_allow({extra:#b}) selected({p}) = {}", aa.selected(p)),
                        json!({"kind":"mask_also","allow":a,"block":b,"extra":extra})));
                }
                let want_block = msel(*a, *b, p) && !in_extra;
                if ab.selected(p) != want_block {
                    viol.push(Violation::new("mask-also", &format!("mask/also_block/{}", shape(*a, *b)),
                        format!("also_block({extra:#b}) selected({p}) = {}", ab.selected(p)),
                        json!({"kind":"mask_also","allow":a,"block":b,"extra":extra})));
                }
            }
        }
    }
    // all pairs & and |
    for (a1, b1) in &all {
        for (a2, b2) in &all {
            let l = mk_mask(*a1, *b1);
            let r = mk_mask(*a2, *b2);
            let and = l.clone() & r.clone();
            let or = l | r;
            let case = json!({"kind":"mask_pair","l":[a1,b1],"r":[a2,b2]});
            let nontrivial = MPROBES.iter().any(|p| msel(*a1, *b1, *p) != msel(*a2, *b2, *p));
            cov.eval(if nontrivial { Some(vcore::hash64(case.to_string().as_bytes())) } else { None });
            for p in MPROBES {
                let (x, y) = (msel(*a1, *b1, p), msel(*a2, *b2, p));
                if and.selected(p) != (x && y) {
                    viol.push(Violation::new("mask-and", &format!("mask/and/{}-{}", shape(*a1, *b1), shape(*a2, *b2)),
                        format!("(allow={a1:?},block={b1:?}) & (allow={a2:?},block={b2:?}) selected({p}) = {}", and.selected(p)), case.clone()));
                    break;
                }
                if or.selected(p) != (x || y) {
                    viol.push(Violation::new("mask-or", &format!("mask/or/{}-{}", shape(*a1, *b1), shape(*a2, *b2)),
                        format!("(allow={a1:?},block={b1:?}) | (allow={a2:?},block={b2:?}) selected({p}) = {}", or.selected(p)), case.clone()));
                    break;
                }
            }
        }
    }
    // RowIdTreeMap::mask(mask) == intersection with the mask's selection
    for s in 0..16u32 {
        for (a, b) in &all {
            let mut t = list_of(s);
            t.mask(&mk_mask(*a, *b));
            cov.eval(None);
            for p in MPROBES {
                let want = p < 4 && s & (1 << p) != 0 && msel(*a, *b, p);
                if t.contains(p) != want {
                    viol.push(Violation::new("treemap-mask", &format!("treemap/mask/{}", shape(*a, *b)),
                        format!("list {s:#b} masked by allow={a:?} block={b:?}: contains({p}) = {}", t.contains(p)),
                        json!({"kind":"treemap_mask","set":s,"allow":a,"block":b})));
                    break;
                }
            }
        }
    }
}

/// `--replay`: re-execute the artefact's case (the family enumerator restricted to that case) and
/// report only the violations of exactly that case.
fn replay(case: &serde_json::Value) -> Vec<Violation> {
    let mut cov = Cov::new();
    let mut viol = vec![];
    match case["kind"].as_str().unwrap_or("") {
        "treemap_pair" => {
            let a: Vec<usize> = serde_json::from_value(case["a"].clone()).unwrap_or_default();
            let b: Vec<usize> = serde_json::from_value(case["b"].clone()).unwrap_or_default();
            let budget = std::sync::atomic::AtomicIsize::new(isize::MAX);
            treemap_pairs(&mut cov, &mut viol, &[a], &[b], &budget);
            viol.retain(|v| v.case["op"] == case["op"]);
        }
        "treemap_remove" | "treemap_retain" | "treemap_insert" => treemap_unary(&mut cov, &mut viol),
        "insert_range" => treemap_ranges(&mut cov, &mut viol),
        "mask" | "mask_also" | "mask_pair" | "treemap_mask" => masks(&mut cov, &mut viol),
        "expr" => return crate::c21_expr::replay(case),
        other => vcore::machinery_error(&format!("C21 replay: unknown case kind {other:?}")),
    }
    // same case = same input; the probe that exposes it is part of the verdict, not of the input
    let strip = |v: &serde_json::Value| {
        let mut v = v.clone();
        if let Some(o) = v.as_object_mut() {
            o.remove("probe");
            o.remove("q");
        }
        v
    };
    let want = strip(case);
    viol.retain(|v| strip(&v.case) == want);
    viol
}

pub fn run(ctx: &Ctx) -> Outcome {
    let mut out = Outcome::new("exploration");
    if let Some(art) = ctx.replay_case() {
        out.violations = replay(&art["case"]);
        out.set("replayed", true);
        return out;
    }
    let all = all_sets();
    // (a) pairs in parallel
    let chunks = vcore::smallx::chunks(&all, ctx.workers * 2);
    let heavy_budget = std::sync::atomic::AtomicIsize::new(1);
    let results = vcore::par_map(chunks, ctx.workers, |_, slice| {
        let mut cov = Cov::new();
        let mut viol = vec![];
        treemap_pairs(&mut cov, &mut viol, &slice, &all, &heavy_budget);
        (cov, viol)
    });
    let mut cov = Cov::new();
    let mut viol = vec![];
    for (c, v) in results {
        cov.merge(c);
        viol.extend(v);
    }
    treemap_unary(&mut cov, &mut viol);
    treemap_ranges(&mut cov, &mut viol);
    masks(&mut cov, &mut viol);
    let (ecov, eviol) = crate::c21_expr::run(ctx);
    cov.merge(ecov);
    viol.extend(eviol);
    cov.sample(json!({"kind":"treemap_pair","op":"sub","a":[16,5],"b":[3,16]}));
    cov.sample(json!({"kind":"mask_pair","l":[Some(7),Some(2)],"r":[None::<u32>,Some(1)]}));
    cov.sample(json!({"kind":"insert_range","lo":"Included(4294967295)","hi":"Excluded(4294967296)"}));
    cov.fill(
        &mut out,
        "odometer over: 289x289 RowIdTreeMap pairs (2 fragments x {16 offset subsets, Full}) x {|,&,-}; unary remove/insert/retain on all 289 maps x 18 probes; insert_range over all bound pairs from the 32-bit boundary alphabet and from the top-of-u64 alphabet (last fragment, unbounded end); all 17x17 (allow,block) RowIdMask shapes with !,normalize,iter_ids,max_len,arrow,also_*; all 289x289 mask pairs for &,|; ScalarIndexExpr trees of depth<=2 over stub leaves. non-trivial = result neither empty nor universal on the probe set / operands that differ / non-degenerate range",
        true,
    );
    out.assume("membership is observed on a probe set: every universe address, one offset outside the partial universe per fragment, u32::MAX offsets and a fragment outside the universe");
    out.violations = viol;
    out
}
