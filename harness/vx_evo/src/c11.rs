//! C11 – write / append / overwrite / read round trip (K1 x K5).
//!
//! Part A (K5): for every (type, storage version, max_rows_per_file, max_rows_per_group) and every
//! batch spec (row count n, validity pattern, *every* chunking of the n rows into consecutive batches)
//! create a table on a fresh in-memory store, re-open it with a fresh session and compare ordered scan,
//! unordered scan (bag), `count_rows`, and the column type with the rows that were written.
//!
//! Part B (K1, `seqx`): for every (type, storage version) all op sequences over
//! {create(b), append(b), overwrite(b)} with b from a small batch alphabet, up to a depth, with the same
//! oracles in every state; model = concatenation of the batches since the last overwrite.
//!
//! A write the implementation rejects must be a clean `Err` that leaves the table exactly as it was
//! (or absent); rejections are recorded per (type, version) in the evidence, not judged.

use crate::tycol::{make_batch, Ty, Ver};
use arrow_array::{RecordBatch, RecordBatchIterator};
use arrow_schema::DataType;
use futures::TryStreamExt;
use lance::dataset::{WriteMode, WriteParams};
use lance::Dataset;
use serde::{Deserialize, Serialize};
use serde_json::{json, Value};
use std::collections::{BTreeMap, BTreeSet};
use vcore::seqx::{self, Caps, Step, Sut};
use vcore::{Cov, Ctx, Outcome, Violation};
use vds::cells::{self, Cell};
use vds::{Env, URI};
use vstore::{MemStore, Snapshot};

#[derive(Clone, Debug, PartialEq, Eq, Hash, Serialize, Deserialize)]
pub struct Spec {
    /// rows in this write
    pub n: usize,
    /// bit i set = row i has a value (else NULL)
    pub pat: u32,
    /// bit i set = batch boundary after row i (i < n-1); n = 0: bit 0 set = one empty batch, clear = no batch
    pub cuts: u32,
    pub f: usize,
    pub g: usize,
    /// first uid of a part-A create (selects which value variants the rows carry); 0 in sequences
    #[serde(default)]
    pub u0: i32,
}

impl Spec {
    /// validity of the rows; a field declared NOT NULL always gets values, the all-null type never
    fn valid(&self, ty: Ty) -> Vec<bool> {
        (0..self.n)
            .map(|i| ty != Ty::Null && (!ty.nullable() || self.pat & (1 << i) != 0))
            .collect()
    }
    fn batches(&self, ty: Ty, first_uid: i32) -> Vec<RecordBatch> {
        let uids: Vec<i32> = (0..self.n as i32).map(|i| first_uid + i).collect();
        let valid = self.valid(ty);
        if self.n == 0 {
            return if self.cuts & 1 != 0 {
                vec![make_batch(ty, &[], &[])]
            } else {
                vec![]
            };
        }
        let mut out = vec![];
        let mut start = 0usize;
        for i in 0..self.n {
            let last = i + 1 == self.n;
            if last || self.cuts & (1 << i) != 0 {
                out.push(make_batch(ty, &uids[start..=i], &valid[start..=i]));
                start = i + 1;
            }
        }
        out
    }
    fn all_rows(&self, ty: Ty, first_uid: i32) -> Vec<Vec<Cell>> {
        let uids: Vec<i32> = (0..self.n as i32).map(|i| first_uid + i).collect();
        cells::batch_rows(&make_batch(ty, &uids, &self.valid(ty)))
    }
}

/// validity patterns for n rows: all for n <= 3, a fixed set of 4 (2 in the quick tier) for n = 5
fn patterns(n: usize, quick: bool, ty: Ty) -> Vec<u32> {
    let full = (1u32 << n) - 1;
    if !ty.nullable() {
        return vec![full];
    }
    if ty == Ty::Null {
        return vec![0];
    }
    if n <= 3 {
        return (0..(1u32 << n)).collect();
    }
    // n = 5: V N V N V, N V V V N, all valid, all null
    if quick {
        vec![0b10101, 0b01110]
    } else {
        vec![0b10101, 0b01110, full, 0, 0b00001, 0b10000]
    }
}

fn specs_a(quick: bool, ty: Ty, f: usize, g: usize) -> Vec<Spec> {
    let mut v = vec![];
    let nv = crate::tycol::NV as i32;
    let ns: &[usize] = if quick { &[0, 1, 2, 5] } else { &[0, 1, 2, 3, 4, 5] };
    for &n in ns {
        if n == 0 {
            for cuts in [0, 1] {
                v.push(Spec { n, pat: 0, cuts, f, g, u0: 0 });
            }
            continue;
        }
        let pats = if n == 4 { vec![0b0110, 0b1001] } else { patterns(n, quick, ty) };
        for (pi, pat) in pats.iter().copied().enumerate() {
            let full = pat == (1u32 << n) - 1;
            // short writes start at every value variant, so that every variant is also written alone
            // (quick tier, n = 2: every start for the all-valid pattern, start 0 for the others)
            let u0s: Vec<i32> = if n == 1 || (n == 2 && (full || !quick)) { (0..nv).collect() } else { vec![0] };
            // every chunking; quick tier: for the second n = 5 pattern only the two extreme chunkings
            let cuts: Vec<u32> = if quick && n == 5 && pi > 0 { vec![0, 0b1111] } else { (0..(1u32 << (n - 1))).collect() };
            for c in cuts {
                for &u0 in &u0s {
                    v.push(Spec { n, pat, cuts: c, f, g, u0 });
                }
            }
        }
    }
    v
}

fn write_params(env: &Env, mode: WriteMode, ver: Ver, s: &Spec) -> WriteParams {
    let mut p = env.write_params(mode);
    p.max_rows_per_file = s.f;
    p.max_rows_per_group = s.g;
    p.data_storage_version = Some(ver.lance());
    p.enable_v2_manifest_paths = true;
    p
}

async fn do_write(env: &Env, ty: Ty, ver: Ver, mode: WriteMode, first_uid: i32, s: &Spec) -> lance::Result<Dataset> {
    let batches = s.batches(ty, first_uid);
    let reader = RecordBatchIterator::new(batches.into_iter().map(Ok), ty.schema());
    Dataset::write(reader, URI, Some(write_params(env, mode, ver, s))).await
}

#[derive(Debug)]
struct Obs {
    ordered: Vec<Vec<Cell>>,
    unordered: Vec<Vec<Cell>>,
    count: usize,
    ds_type: DataType,
    ds_nullable: bool,
    scan_type: Option<DataType>,
    frag_rows: Vec<usize>,
    version: u64,
}

async fn observe(env: &Env) -> lance::Result<Obs> {
    let ds = env.open(URI).await?;
    let mut sc = ds.scan();
    sc.scan_in_order(true);
    let ob: Vec<RecordBatch> = sc.try_into_stream().await?.try_collect().await?;
    let mut sc = ds.scan();
    sc.scan_in_order(false);
    let ub: Vec<RecordBatch> = sc.try_into_stream().await?.try_collect().await?;
    let count = ds.count_rows(None).await?;
    let arrow: arrow_schema::Schema = ds.schema().into();
    let fx = arrow.field_with_name("x").map_err(|e| lance::Error::invalid_input(e.to_string(), snafu::location!()))?;
    Ok(Obs {
        ordered: cells::batches_rows(&ob),
        unordered: cells::bag(cells::batches_rows(&ub)),
        count,
        ds_type: fx.data_type().clone(),
        ds_nullable: fx.is_nullable(),
        scan_type: ob.first().map(|b| b.schema().field(1).data_type().clone()),
        frag_rows: ds
            .get_fragments()
            .iter()
            .map(|f| f.metadata().physical_rows.unwrap_or(usize::MAX))
            .collect(),
        version: ds.version().version,
    })
}

/// short structural class of a row set for classification keys
fn shape_class(rows: &[Vec<Cell>]) -> &'static str {
    if rows.is_empty() {
        "empty"
    } else if rows.iter().all(|r| r[1].is_null()) {
        "all-null"
    } else if rows.iter().any(|r| r[1].is_null()) {
        "some-null"
    } else {
        "no-null"
    }
}

/// kind letter of a cell for diff tags
fn kind(c: &Cell) -> &'static str {
    match c {
        Cell::Null => "null",
        Cell::Bool(_) => "Bool",
        Cell::I(_) => "I",
        Cell::U(_) => "U",
        Cell::F(_) => "F",
        Cell::S(_) => "S",
        Cell::B(_) => "B",
        Cell::Big(_) => "Big",
        Cell::L(_) => "L",
        Cell::St(_) => "St",
    }
}

fn zeroish(c: &Cell) -> &'static str {
    match c {
        Cell::I(0) | Cell::U(0) | Cell::Bool(false) => "zero",
        Cell::F(b) if *b == 0 => "zero",
        Cell::Big(s) if s == "0" => "zero",
        Cell::S(s) if s.is_empty() => "empty",
        Cell::B(b) if b.is_empty() => "empty",
        Cell::L(v) if v.is_empty() => "empty",
        Cell::B(b) if b.iter().all(|x| *x == 0) => "zeros",
        Cell::L(v) if v.iter().all(|x| zeroish(x) == "zero") => "zeros",
        Cell::St(_) => "struct",
        Cell::Null => "null",
        _ => "value",
    }
}

/// Structural difference tags between a model cell and an observed cell (empty = equal).
fn diff_cell(m: &Cell, g: &Cell, path: &str, tags: &mut BTreeSet<String>) {
    if m == g {
        return;
    }
    match (m, g) {
        (Cell::Null, g) => {
            tags.insert(format!("{path}{}:null->{}", kind(g), zeroish(g)));
        }
        (m, Cell::Null) => {
            tags.insert(format!("{path}{}:{}->null", kind(m), zeroish(m)));
        }
        (Cell::L(a), Cell::L(b)) => {
            if a.len() != b.len() {
                tags.insert(format!("{path}L:len-changed"));
            } else {
                for (x, y) in a.iter().zip(b.iter()) {
                    diff_cell(x, y, &format!("{path}L[]"), tags);
                }
            }
        }
        (Cell::St(a), Cell::St(b)) => {
            if a.len() != b.len() || a.iter().zip(b.iter()).any(|(x, y)| x.0 != y.0) {
                tags.insert(format!("{path}St:fields-changed"));
            } else {
                for (x, y) in a.iter().zip(b.iter()) {
                    diff_cell(&x.1, &y.1, &format!("{path}St.{}.", x.0), tags);
                }
            }
        }
        (m, g) if kind(m) != kind(g) => {
            tags.insert(format!("{path}{}->{}", kind(m), kind(g)));
        }
        (m, _) => {
            tags.insert(format!("{path}{}:value-changed", kind(m)));
        }
    }
}

/// Documented limitations (docs/src/format/file/versioning.md): "2.0 ... introduced null support for
/// lists, fixed size lists, and primitives" and "2.1 ... adds support for nulls in struct fields".
/// So format 0.1 (legacy) cannot represent a NULL primitive / list / fixed-size-list / struct and 2.0
/// cannot represent a NULL struct; what is read back for such a NULL is not judged (recorded in the
/// evidence). Everything else - values, item counts, row count, order, NULLs of variable-width
/// (string / binary) columns, which legacy does represent - is judged.
fn exempt(tag: &str, ver: Ver) -> bool {
    let legacy = ver == Ver::Legacy;
    let pre21 = matches!(ver, Ver::Legacy | Ver::V2_0);
    if pre21 && tag.ends_with("St:null->struct") {
        return true;
    }
    if legacy {
        for k in ["I", "U", "F", "Bool", "Big"] {
            if tag.ends_with(&format!("{k}:null->zero")) {
                return true;
            }
        }
        // fixed-size binary is a fixed-width primitive; a dictionary array's NULLs are NULL (primitive) keys
        if tag.ends_with("L:null->empty") || tag.ends_with("L:null->zeros") || tag.ends_with("B:null->zeros") || tag.starts_with("Dict.S:null->") {
            return true;
        }
    }
    false
}

/// Compare row lists position-wise; returns the non-exempt difference tags.
fn diff_rows(ty: Ty, ver: Ver, model: &[Vec<Cell>], got: &[Vec<Cell>], notes: &mut BTreeSet<String>) -> BTreeSet<String> {
    let mut tags = BTreeSet::new();
    if model.len() != got.len() {
        tags.insert(format!("row-count:{}", if got.len() < model.len() { "fewer" } else { "more" }));
        return tags;
    }
    for (m, g) in model.iter().zip(got.iter()) {
        if m[0] != g[0] {
            tags.insert("row-identity(uid)-changed".to_string());
            continue;
        }
        if m.len() != g.len() {
            tags.insert("column-count-changed".to_string());
            continue;
        }
        diff_cell(&m[1], &g[1], if ty == Ty::DictI8Utf8 { "Dict." } else { "" }, &mut tags);
    }
    let (ex, real): (Vec<String>, Vec<String>) = tags.into_iter().partition(|t| exempt(t, ver));
    for t in ex {
        notes.insert(format!("documented-limitation/{}/{t}", ver.name()));
    }
    real.into_iter().collect()
}

fn err_site(msg: &str) -> String {
    fn slug(t: &str, words: usize) -> String {
        t.chars()
            .filter(|c| !c.is_ascii_digit())
            .map(|c| if c.is_alphanumeric() { c } else { '-' })
            .collect::<String>()
            .split('-')
            .filter(|s| !s.is_empty())
            .take(words)
            .collect::<Vec<_>>()
            .join("-")
    }
    // a panic inside a decode task is wrapped into an error: key by the panic message
    if let Some(i) = msg.find("panicked with message") {
        return format!("task-panic/{}", slug(&msg[i + "panicked with message".len()..].replace("\\n", " "), 6));
    }
    // else: first "/repo/rust/<crate>/src/...rs:line" mentioned + a digit-free slug of the message
    let site = msg
        .split(|c: char| c == ' ' || c == ',')
        .find(|w| w.starts_with("/repo/rust/") && w.contains(".rs:"))
        .map(|w| {
            let w = w.trim_start_matches("/repo/rust/");
            let mut it = w.split(':');
            format!("{}:{}", it.next().unwrap_or(""), it.next().unwrap_or(""))
        })
        .unwrap_or_default();
    format!("{site}/{}", slug(msg, 9))
}

fn check_obs(ty: Ty, ver: Ver, model: &[Vec<Cell>], o: &Obs, notes: &mut BTreeSet<String>, case: &Value) -> Vec<Violation> {
    let mut v = vec![];
    let tags = diff_rows(ty, ver, model, &o.ordered, notes);
    for t in &tags {
        v.push(Violation::new(
            "ordered-scan",
            &format!("scan/{}/{t}", ver.name()),
            format!("{} {}: ordered scan {:?} != model {:?}", ty.name(), ver.name(), o.ordered, model),
            case.clone(),
        ));
    }
    if tags.is_empty() {
        // uids are unique: compare the unordered scan in uid order so that differences are row-wise
        let mut bm = model.to_vec();
        bm.sort_by(|a, b| a[0].cmp(&b[0]));
        let mut bg = o.unordered.clone();
        bg.sort_by(|a, b| a[0].cmp(&b[0]));
        for t in diff_rows(ty, ver, &bm, &bg, notes) {
            v.push(Violation::new(
                "unordered-scan",
                &format!("unordered-scan/{}/{t}", ver.name()),
                format!("{} {}: unordered scan (as bag) {:?} != model {:?}", ty.name(), ver.name(), bg, bm),
                case.clone(),
            ));
        }
    }
    if o.count != model.len() {
        v.push(Violation::new(
            "count-rows",
            &format!("count-rows/{}/{}", ver.name(), shape_class(model)),
            format!("{} {}: count_rows {} != {}", ty.name(), ver.name(), o.count, model.len()),
            case.clone(),
        ));
    }
    let want = ty.data_type();
    if o.ds_type != want {
        v.push(Violation::new(
            "schema-type",
            &format!("schema-type/{}/{}", ty.name(), ver.name()),
            format!("dataset schema type {} != written {}", o.ds_type, want),
            case.clone(),
        ));
    }
    if let Some(st) = &o.scan_type {
        if *st != want {
            v.push(Violation::new(
                "scan-type",
                &format!("scan-type/{}/{}", ty.name(), ver.name()),
                format!("scanned column type {} != written {}", st, want),
                case.clone(),
            ));
        }
    }
    if o.ds_nullable != ty.nullable() {
        notes.insert(format!("nullability {} -> {}", ty.nullable(), o.ds_nullable));
    }
    if o.frag_rows.iter().sum::<usize>() != model.len() {
        v.push(Violation::new(
            "physical-rows",
            &format!("physical-rows/{}", ver.name()),
            format!("fragment physical rows {:?} do not sum to {}", o.frag_rows, model.len()),
            case.clone(),
        ));
    }
    v
}

#[derive(Default)]
struct Acc {
    cov: Cov,
    viol: Vec<Violation>,
    /// (type, version) -> outcome labels
    matrix: BTreeMap<String, BTreeSet<String>>,
    notes: BTreeSet<String>,
}

impl Acc {
    fn merge(&mut self, o: Acc) {
        self.cov.merge(o.cov);
        self.viol.extend(o.viol);
        for (k, v) in o.matrix {
            self.matrix.entry(k).or_default().extend(v);
        }
        self.notes.extend(o.notes);
    }
}

/// One part-A evaluation: create on a fresh store, observe, compare.
fn eval_create(ty: Ty, ver: Ver, s: &Spec, acc: &mut Acc) {
    let case = json!({"kind": "create", "ty": ty, "ver": ver, "spec": s});
    let env = Env::new();
    let model = s.all_rows(ty, s.u0);
    let nontrivial = s.n >= 2 && (s.cuts != 0 || s.f < s.n);
    acc.cov
        .eval(if nontrivial { Some(vcore::hash64(case.to_string().as_bytes())) } else { None });
    let mkey = format!("{}/{}", ty.name(), ver.name());
    let r = vds::run_catch(async {
        match do_write(&env, ty, ver, WriteMode::Create, s.u0, s).await {
            Ok(_) => Ok(observe(&env).await),
            Err(e) => Err(e),
        }
    });
    match r {
        Err(panic) => {
            let site: String = panic.chars().take(60).collect();
            acc.viol.push(Violation::new(
                "panic",
                &format!("panic/{}/{}", ver.name(), err_site(&panic)),
                format!("{} {}: panic during create/scan: {site}", ty.name(), ver.name()),
                case,
            ));
            acc.cov.outcome("panic");
        }
        Ok(Err(e)) => {
            // clean rejection: nothing must be readable afterwards
            let msg: String = e.to_string().chars().filter(|c| !c.is_ascii_digit()).take(90).collect();
            let label = format!("rejected:{}:{}: {msg}", vds::err_class(&e), shape_class(&model));
            acc.matrix.entry(mkey).or_default().insert(label);
            acc.cov.outcome("rejected");
            let again = vds::run_catch(async { env.open(URI).await.map(|d| d.version().version) });
            if let Ok(Ok(v)) = again {
                acc.viol.push(Violation::new(
                    "rejected-clean",
                    &format!("rejected-but-created/{}/{}", ty.name(), ver.name()),
                    format!("create returned Err({e}) but a table at version {v} exists"),
                    case,
                ));
            }
        }
        Ok(Ok(Err(e))) => {
            acc.cov.outcome("read-error");
            acc.viol.push(Violation::new(
                "read-back",
                &format!("read-error/{}/{}", ver.name(), err_site(&e.to_string())),
                format!("{} {}: write accepted but reading back failed: {e}", ty.name(), ver.name()),
                case,
            ));
        }
        Ok(Ok(Ok(o))) => {
            let mut notes = BTreeSet::new();
            let vs = check_obs(ty, ver, &model, &o, &mut notes, &case);
            let label = if vs.is_empty() { "ok" } else { "mismatch" };
            acc.cov.outcome(&format!("{label}:frags={}", o.frag_rows.len().min(6)));
            let e = acc.matrix.entry(mkey).or_default();
            e.insert(label.to_string());
            for n in &notes {
                e.insert(n.clone());
            }
            acc.notes.extend(notes);
            if acc.cov.evaluations % 499 == 1 {
                acc.cov.sample(json!({"case": case, "frag_rows": o.frag_rows, "rows": o.ordered.len()}));
            }
            acc.viol.extend(vs);
        }
    }
}

// ------------------------------------------------------------------------------------------------
// part B: sequences

#[derive(Clone, Debug, Serialize, Deserialize)]
pub enum Op {
    Create(Spec),
    Append(Spec),
    Overwrite(Spec, Option<Ver>),
}

#[derive(Clone)]
pub struct St {
    ty: Ty,
    ver: Ver,
    snap: Snapshot,
    exists: bool,
    model: Vec<Vec<Cell>>,
    next_uid: i32,
    frag_rows: Vec<usize>,
    version: u64,
}

struct Seq {
    tys: Vec<Ty>,
    vers: Vec<Ver>,
    alphabet: Vec<Op>,
}

fn seq_alphabet(wide: bool) -> Vec<Op> {
    let b0 = Spec { n: 0, pat: 0, cuts: 1, f: 1000, g: 1024, u0: 0 };
    let b1 = Spec { n: 1, pat: 1, cuts: 0, f: 1000, g: 1024, u0: 0 };
    let b2 = Spec { n: 2, pat: 0b10, cuts: 0, f: 1, g: 1, u0: 0 };
    let b3 = Spec { n: 3, pat: 0b101, cuts: 0b001, f: 2, g: 1024, u0: 0 };
    let mut v = vec![
        Op::Create(b1.clone()),
        Op::Append(b1.clone()),
        Op::Append(b2.clone()),
        Op::Overwrite(b1.clone(), None),
        Op::Overwrite(b2.clone(), None),
        Op::Append(b0.clone()),
        Op::Overwrite(b0.clone(), None),
    ];
    if wide {
        v.push(Op::Append(b3.clone()));
        v.push(Op::Overwrite(b3, None));
        v.push(Op::Overwrite(b1.clone(), Some(Ver::V2_0)));
        v.push(Op::Overwrite(b2, Some(Ver::V2_1)));
        v.push(Op::Overwrite(b1, Some(Ver::Legacy)));
    }
    v
}

impl Sut for Seq {
    type State = St;
    type Op = Op;
    fn init(&self) -> Vec<(String, St)> {
        let mut v = vec![];
        for ty in &self.tys {
            for ver in &self.vers {
                v.push((
                    format!("{}/{}", ty.name(), ver.name()),
                    St {
                        ty: *ty,
                        ver: *ver,
                        snap: MemStore::new().snapshot(),
                        exists: false,
                        model: vec![],
                        next_uid: 0,
                        frag_rows: vec![],
                        version: 0,
                    },
                ));
            }
        }
        v
    }
    fn ops(&self, st: &St, _depth: usize) -> Vec<Op> {
        self.alphabet
            .iter()
            .filter(|op| match op {
                // a version switch to the current version is the plain overwrite
                Op::Overwrite(_, Some(v)) => *v != st.ver,
                _ => true,
            })
            .cloned()
            .collect()
    }
    fn op_kind(&self, op: &Op) -> String {
        match op {
            Op::Create(_) => "create".into(),
            Op::Append(s) => format!("append{}", s.n),
            Op::Overwrite(s, None) => format!("overwrite{}", s.n),
            Op::Overwrite(s, Some(_)) => format!("overwrite{}+ver", s.n),
        }
    }
    fn canon(&self, st: &St) -> u64 {
        vcore::hash64(
            json!([st.ty, st.ver, st.exists, st.model, st.frag_rows, st.next_uid])
                .to_string()
                .as_bytes(),
        )
    }
    fn step(&self, st: &St, op: &Op) -> Step<St> {
        let env = Env::from_store(MemStore::from_snapshot(&st.snap));
        let ty = st.ty;
        let (mode, spec, newver) = match op {
            Op::Create(s) => (WriteMode::Create, s, None),
            Op::Append(s) => (WriteMode::Append, s, None),
            Op::Overwrite(s, v) => (WriteMode::Overwrite, s, *v),
        };
        let case = json!({"state_model_rows": st.model.len(), "state_frag_rows": st.frag_rows});
        // expected effect
        let creates = !st.exists;
        let must_fail = matches!(op, Op::Create(_)) && st.exists;
        let (first_uid, mut model, ver_after) = match (creates, mode) {
            (true, _) => (0, vec![], newver.unwrap_or(st.ver)),
            (false, WriteMode::Overwrite) => (0, vec![], newver.unwrap_or(st.ver)),
            _ => (st.next_uid, st.model.clone(), st.ver),
        };
        model.extend(spec.all_rows(ty, first_uid));
        // the version requested on the call: for appends Lance must ignore it and keep the table's
        let call_ver = newver.unwrap_or(st.ver);
        let r = vds::run_catch(async {
            let w = do_write(&env, ty, call_ver, mode, first_uid, spec).await;
            let o = observe(&env).await;
            (w.map(|d| d.version().version), o)
        });
        let mk = |oracle: &str| format!("seq/{oracle}/{}/{}", self.op_kind(op), st.ver.name());
        match r {
            Err(p) => {
                let site: String = p.chars().take(60).collect();
                Step {
                    next: None,
                    outcome: "panic".into(),
                    violations: vec![Violation::new(
                        "panic",
                        &format!("panic/{}/{}", st.ver.name(), err_site(&p)),
                        format!("{} {}: panic: {site}", ty.name(), st.ver.name()),
                        case,
                    )],
                }
            }
            Ok((Err(e), obs)) => {
                // rejected: table must be exactly as before
                let mut viol = vec![];
                let mut notes = BTreeSet::new();
                match (st.exists, obs) {
                    (false, Ok(o)) => viol.push(Violation::new(
                        "rejected-clean",
                        &mk("rejected-but-created"),
                        format!("write returned Err({e}) but a table at version {} exists", o.version),
                        case.clone(),
                    )),
                    (false, Err(_)) => {}
                    (true, Err(e2)) => viol.push(Violation::new(
                        "rejected-clean",
                        &mk("rejected-then-unreadable"),
                        format!("write returned Err({e}); table then unreadable: {e2}"),
                        case.clone(),
                    )),
                    (true, Ok(o)) => {
                        if o.version != st.version {
                            viol.push(Violation::new(
                                "rejected-clean",
                                &mk("rejected-but-committed"),
                                format!("write returned Err({e}) but version moved {} -> {}", st.version, o.version),
                                case.clone(),
                            ));
                        }
                        viol.extend(check_obs(ty, st.ver, &st.model, &o, &mut notes, &case));
                    }
                }
                let outcome = if must_fail {
                    "already-exists".to_string()
                } else {
                    format!("rejected:{}", vds::err_class(&e))
                };
                Step { next: None, outcome, violations: viol }
            }
            Ok((Ok(_), Err(e))) => Step {
                next: None,
                outcome: "read-error".into(),
                violations: vec![Violation::new(
                    "read-back",
                    &format!("read-error/{}/{}", ver_after.name(), err_site(&e.to_string())),
                    format!("{} {}: write accepted but reading back failed: {e}", ty.name(), ver_after.name()),
                    case,
                )],
            },
            Ok((Ok(v), Ok(o))) => {
                let mut viol = vec![];
                if must_fail {
                    viol.push(Violation::new(
                        "create-exists",
                        &mk("create-on-existing-accepted"),
                        format!("WriteMode::Create on an existing table succeeded (version {v})"),
                        case.clone(),
                    ));
                }
                let mut notes = BTreeSet::new();
                viol.extend(check_obs(ty, ver_after, &model, &o, &mut notes, &case));
                if o.version != v || (st.exists && v != st.version + 1) {
                    viol.push(Violation::new(
                        "version",
                        &mk("version-step"),
                        format!("version after write {} (returned {v}), before {}", o.version, st.version),
                        case.clone(),
                    ));
                }
                let next = St {
                    ty,
                    ver: ver_after,
                    snap: env.store.snapshot(),
                    exists: true,
                    next_uid: first_uid + spec.n as i32,
                    model,
                    frag_rows: o.frag_rows.clone(),
                    version: o.version,
                };
                Step {
                    next: Some(next),
                    outcome: if notes.is_empty() { "ok".into() } else { "ok(normalised)".into() },
                    violations: viol,
                }
            }
        }
    }
}

/// One classification key per root cause (known findings are matched on it); the symptom key stays in
/// the violation text. Anything that does not match a rule keeps its symptom key.
fn root_cause(mut v: Violation) -> Violation {
    let k = v.key.clone();
    let v2 = k.contains("/V2_1/") || k.contains("/V2_2/");
    let listy = v.what.starts_with("ListI32") || v.what.starts_with("LargeListUtf8") || v.what.starts_with("StructL");
    let new = if v2 && listy && (k.contains("task-panic/assertion-left-right") || k.contains("L:len-changed") || k.contains("L[]") || k.contains("row-count")) {
        // all lists of a page valid and non-empty, items nullable, a list starts with a NULL item
        Some("v2.1+/list-starting-with-null-item-dropped")
    } else if v2 && listy && k.contains("task-panic/called-Option-unwrap-on-a-None") {
        Some("v2.1+/all-null-list-slice-of-batch-with-null-items")
    } else if k.contains("/Legacy/") && k.ends_with("empty->null") {
        Some("legacy/empty-string-or-binary-reads-as-null")
    } else if k.contains("/Legacy/") && (k.contains("Dict.") || v.what.contains("Invalid dictionary key")) {
        Some("legacy/dictionary-of-first-batch-used-for-whole-file")
    } else {
        None
    };
    if let Some(n) = new {
        v.what = format!("[{k}] {}", v.what);
        v.key = n.to_string();
    }
    v
}

// ------------------------------------------------------------------------------------------------

fn replay(ctx: &Ctx, art: &Value, out: &mut Outcome) {
    let case = &art["case"];
    if case.get("ops").is_some() {
        let sut = Seq { tys: Ty::all(), vers: Ver::all(), alphabet: seq_alphabet(true) };
        match seqx::replay(&sut, case) {
            Ok(v) => out.violations.extend(v),
            Err(e) => vcore::machinery_error(&format!("replay failed: {e}")),
        }
    } else {
        let ty: Ty = serde_json::from_value(case["ty"].clone()).unwrap_or_else(|e| vcore::machinery_error(&format!("bad case: {e}")));
        let ver: Ver = serde_json::from_value(case["ver"].clone()).unwrap_or_else(|e| vcore::machinery_error(&format!("bad case: {e}")));
        let spec: Spec = serde_json::from_value(case["spec"].clone()).unwrap_or_else(|e| vcore::machinery_error(&format!("bad case: {e}")));
        let mut acc = Acc::default();
        eval_create(ty, ver, &spec, &mut acc);
        out.violations.extend(acc.viol);
    }
    let _ = ctx;
    let vs: Vec<Violation> = out.violations.drain(..).map(root_cause).collect();
    let key = art["key"].as_str().unwrap_or("").to_string();
    out.violations = vs.into_iter().filter(|v| key.is_empty() || v.key == key).collect();
    out.set("evaluations", 1u64);
    out.set("distinct_nontrivial", 0u64);
    out.set("rule", "replay of one recorded case");
    out.set("samples", json!([case]));
    out.set("exhaustive", false);
}

pub fn run(ctx: &Ctx) -> Outcome {
    let mut out = Outcome::new("exploration");
    if let Some(art) = ctx.replay_case() {
        replay(ctx, &art, &mut out);
        return out;
    }
    let quick = ctx.quick();
    let only_ty = ctx.opts.get("ty").cloned();
    let tys: Vec<Ty> = Ty::all().into_iter().filter(|t| only_ty.as_ref().map(|o| *o == t.name()).unwrap_or(true)).collect();

    // ---- part A
    // work items ordered (file size, group size, version) major / type minor, so that a wall cap cuts the
    // tail of the knob product for all types alike instead of dropping whole types
    let mut items = vec![];
    for f in [1usize, 2, 1000] {
        for g in [1024usize, 1] {
            for ver in Ver::all() {
                // max_rows_per_group only reaches the legacy writer (v2 ignores it: do_write_fragments);
                // one deviating value is still run on v2 in the thorough tier to observe exactly that
                let g_used = g == 1024 || (ver == Ver::Legacy && (f > 1 || !quick)) || (f == 2 && !quick);
                if !g_used {
                    continue;
                }
                for ty in &tys {
                    items.push((*ty, ver, f, g));
                }
            }
        }
    }
    let rot = (ctx.seed as usize) % items.len().max(1);
    items.rotate_left(rot);
    let wall_a = ctx.opts.get("wall_a").and_then(|v| v.parse::<f64>().ok()).unwrap_or(ctx.tier.pick(24.0, 420.0));
    let start = std::time::Instant::now();
    let results = vcore::par_map(items, ctx.workers, |_, (ty, ver, f, g)| {
        let mut acc = Acc::default();
        let mut skipped = 0u64;
        let mut specs = specs_a(quick, ty, f, g);
        // the seed only rotates the visiting order (matters when the wall cap cuts the run short)
        let rot = (ctx.seed as usize) % specs.len().max(1);
        specs.rotate_left(rot);
        for s in specs {
            if start.elapsed().as_secs_f64() > wall_a {
                skipped += 1;
                continue;
            }
            eval_create(ty, ver, &s, &mut acc);
        }
        (acc, skipped)
    });
    let mut acc = Acc::default();
    let mut skipped = 0u64;
    for (a, s) in results {
        acc.merge(a);
        skipped += s;
    }
    let a_evals = acc.cov.evaluations;
    let a_secs = start.elapsed().as_secs_f64();

    // ---- part B
    let mut rep = seqx::Report::default();
    let profiles: Vec<(&str, Vec<Ty>, bool, usize, f64)> = if quick {
        vec![
            ("all-types", tys.clone(), false, 2, 6.0),
            ("reduced", Ty::reduced().into_iter().filter(|t| tys.contains(t)).collect(), false, 3, 6.0),
        ]
    } else {
        vec![
            ("all-types", tys.clone(), false, 4, 200.0),
            ("reduced-wide", Ty::reduced().into_iter().filter(|t| tys.contains(t)).collect(), true, 3, 250.0),
        ]
    };
    let mut profile_reports = vec![];
    for (name, ptys, wide, depth, wall) in profiles {
        let sut = Seq { tys: ptys, vers: Ver::all(), alphabet: seq_alphabet(wide) };
        let r = seqx::explore(&sut, &Caps { max_depth: depth, max_states: 2_000_000, wall_s: wall }, ctx.workers);
        profile_reports.push(json!({"profile": name, "depth": depth, "states": r.states, "transitions": r.transitions,
            "level_sizes": r.level_sizes, "cap_hit": r.cap_hit, "alphabet": sut.alphabet.len()}));
        rep.merge(r);
    }
    for (k, n) in &rep.outcomes {
        *acc.cov.outcomes.entry(format!("seq:{k}")).or_insert(0) += n;
    }
    acc.cov.evaluations += rep.transitions;
    // every state of the sequence search is a distinct (canonical) table history class
    let seq_nontrivial = rep.states;
    for s in rep.samples.iter().take(3) {
        acc.cov.sample(s.clone());
    }
    out.violations.extend(acc.viol.drain(..).map(root_cause));
    out.violations.extend(rep.violations.iter().cloned().map(root_cause));

    let exhaustive = skipped == 0 && rep.cap_hit.is_none();
    acc.cov.fill(
        &mut out,
        "part A: odometer over type x storage version x max_rows_per_file{1,2,1000} x max_rows_per_group x rows n x validity pattern x every chunking of the n rows into batches, one create + re-open + ordered/unordered scan + count_rows each; non-trivial = n>=2 and the rows are split over >1 batch or >1 file, distinct by full case. part B: BFS over all {create,append,overwrite} sequences per (type, version), every transition counted as an evaluation; non-trivial (added to distinct_nontrivial) = distinct canonical states reached",
        exhaustive,
    );
    let dn = out.coverage.get("distinct_nontrivial").and_then(|v| v.as_u64()).unwrap_or(0) + seq_nontrivial;
    out.set("distinct_nontrivial", dn);
    out.set("part_a", json!({"evaluations": a_evals, "skipped_by_wall_cap": skipped, "wall_s": a_secs}));
    out.set("part_b", json!(profile_reports));
    out.set("seq_states", rep.states);
    out.set("seq_transitions", rep.transitions);
    if !exhaustive {
        out.set(
            "cap_hit",
            format!("part A skipped {skipped} cases at its wall cap; part B cap: {:?}", rep.cap_hit),
        );
    }
    out.set("type_version_matrix", json!(acc.matrix));
    out.set("normalisations_seen", json!(acc.notes));
    out.assume("model rows are the input batches converted by vds::cells (same conversion as for scan results)");
    out.assume("struct parent validity is not judged for storage versions < 2.1 (documented: 2.1 adds support for nulls in struct fields)");
    out.assume("values come from a fixed list of 6 boundary values per type; in-memory object store");
    out
}
