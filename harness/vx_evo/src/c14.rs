//! C14 – schema evolution preserves untouched data (K1, `seqx`).
//!
//! Explicit-state search over all op sequences up to a depth on the real `Dataset` (in-memory store,
//! fresh session per step) over the alphabet
//!   add_columns: SQL `k + 1` | `<v> || 'x'` | `42` | `uid + 100` | `CAST(NULL AS int)` (column n1), all-null (n2),
//!                batch UDF (n3 = uid*2), record-batch reader (n4 = "s<row ordinal>"),
//!   merge (left join on k with a right table that has keys {0, 1, 7}) -> column m,
//!   alter: rename v<->w, cast k int32->int64, uid NOT NULL -> nullable,
//!   drop n1 | n2 | m | v,  append(2 rows), delete(first row), compact,
//!   nested variant (`s: struct{a:int32, b:utf8}`): drop s.a | s.b, rename s.b->c, add s.a back (all-null)
//! on a flat and a nested base table (2 fragments x 3 rows). Reference model: a plain table
//! (column names + rows of cells, in scan order). Oracles in every state: ordered full scan ==
//! model (column names and order, every value, row order), `count_rows`, all field ids of the version
//! unique; a re-added column must show only the newly requested values.

use arrow_array::{Array, ArrayRef, Int32Array, Int64Array, RecordBatch, RecordBatchIterator, StringArray, StructArray};
use arrow_schema::{DataType, Field, Fields, Schema as ArrowSchema};
use lance::dataset::optimize::{compact_files, CompactionOptions};
use lance::dataset::{BatchUDF, ColumnAlteration, NewColumnTransform, WriteMode};
use serde::{Deserialize, Serialize};
use serde_json::{json, Value};
use std::collections::{BTreeMap, BTreeSet};
use std::sync::{Arc, Mutex};
use vcore::seqx::{self, Caps, Step, Sut};
use vcore::{Ctx, Outcome, Violation};
use vds::cells::{self, Cell};
use vds::{default_row, Env, URI};
use vstore::{MemStore, Snapshot};

#[derive(Clone, Debug, Serialize, Deserialize, PartialEq, Eq)]
pub enum Op {
    /// add column n1 from SQL expression i: 0 `k + 1`, 1 `<v> || 'x'`, 2 `42`, 3 `uid + 100`, 4 `CAST(NULL AS int)` (metadata-only all-null path)
    AddSql(u8),
    AddNull,
    AddUdf,
    AddReader,
    Merge,
    RenameV,
    CastK,
    NullableUid,
    Drop(String),
    Append,
    DeleteFirst,
    Compact,
    DropNested(String),
    RenameSB,
    AddSA,
}

#[derive(Clone, Debug, Serialize)]
pub struct Model {
    cols: Vec<String>,
    rows: Vec<Vec<Cell>>,
    /// current name of the `v` role (None = dropped)
    v_name: Option<String>,
    k64: bool,
    uid_nullable: bool,
    next_uid: i32,
    /// values a dropped column had (by column name): a re-added column must not show them
    dropped: BTreeMap<String, Vec<(Cell, Cell)>>,
    /// children of `s` (nested variant)
    s_children: Option<Vec<String>>,
}

#[derive(Clone)]
pub struct St {
    nested: bool,
    snap: Snapshot,
    m: Model,
    canon: u64,
}

impl Model {
    fn col(&self, name: &str) -> Option<usize> {
        self.cols.iter().position(|c| c == name)
    }
    fn uid_of(&self, row: &[Cell]) -> Cell {
        row[self.col("uid").unwrap()].clone()
    }
    fn add_col(&mut self, name: &str, f: impl Fn(&Model, &Vec<Cell>, usize) -> Cell) {
        let vals: Vec<Cell> = self.rows.iter().enumerate().map(|(i, r)| f(self, r, i)).collect();
        self.cols.push(name.to_string());
        for (r, v) in self.rows.iter_mut().zip(vals) {
            r.push(v);
        }
    }
    fn drop_col(&mut self, name: &str) {
        let i = self.col(name).unwrap();
        let uidc = self.col("uid").unwrap();
        let old: Vec<(Cell, Cell)> = self.rows.iter().map(|r| (r[uidc].clone(), r[i].clone())).collect();
        self.dropped.insert(name.to_string(), old);
        self.cols.remove(i);
        for r in self.rows.iter_mut() {
            r.remove(i);
        }
    }
}

fn base_batch(uids: std::ops::Range<i32>, nested: bool) -> RecordBatch {
    let rows: Vec<vds::MRow> = uids.clone().map(default_row).collect();
    let b = vds::base_batch(&rows);
    if !nested {
        return b;
    }
    let a: Int32Array = uids.clone().map(|u| if u % 3 == 2 { None } else { Some(u * 10) }).collect();
    let bb: StringArray = uids.clone().map(|u| if u % 4 == 1 { None } else { Some(format!("b{u}")) }).collect();
    let fields = Fields::from(vec![Field::new("a", DataType::Int32, true), Field::new("b", DataType::Utf8, true)]);
    let s = StructArray::new(fields.clone(), vec![Arc::new(a), Arc::new(bb)], None);
    let mut fs: Vec<Field> = b.schema().fields().iter().map(|f| f.as_ref().clone()).collect();
    fs.push(Field::new("s", DataType::Struct(fields), true));
    let mut cols = b.columns().to_vec();
    cols.push(Arc::new(s));
    RecordBatch::try_new(Arc::new(ArrowSchema::new(fs)), cols).unwrap()
}

/// deterministic values for an appended row in whatever schema the table has now
fn gen_array(field: &Field, uids: &[i32], m: &Model) -> ArrayRef {
    let name = field.name().as_str();
    let is_v = m.v_name.as_deref() == Some(name);
    match field.data_type() {
        DataType::Int32 if name == "uid" => Arc::new(Int32Array::from(uids.to_vec())),
        DataType::Int32 if name == "k" => Arc::new(uids.iter().map(|u| default_row(*u).k).collect::<Int32Array>()),
        DataType::Int64 if name == "k" => Arc::new(uids.iter().map(|u| default_row(*u).k.map(|x| x as i64)).collect::<Int64Array>()),
        DataType::Utf8 if is_v => Arc::new(uids.iter().map(|u| default_row(*u).v).collect::<StringArray>()),
        DataType::Int32 => Arc::new(uids.iter().map(|u| Some(u * 1000 + name.len() as i32)).collect::<Int32Array>()),
        DataType::Int64 => Arc::new(uids.iter().map(|u| Some(*u as i64 * 1000 + name.len() as i64)).collect::<Int64Array>()),
        DataType::Utf8 => Arc::new(uids.iter().map(|u| Some(format!("{name}{u}"))).collect::<StringArray>()),
        DataType::Struct(fs) => {
            let children: Vec<ArrayRef> = fs.iter().map(|f| gen_array(f, uids, m)).collect();
            Arc::new(StructArray::new(fs.clone(), children, None))
        }
        other => arrow_array::new_null_array(other, uids.len()),
    }
}

const SQL: [&str; 5] = ["k + 1", "{v} || 'x'", "42", "uid + 100", "CAST(NULL AS int)"];

fn add_i(c: &Cell, d: i64) -> Cell {
    match c {
        Cell::I(x) => Cell::I(x + d),
        _ => Cell::Null,
    }
}

struct Sys {
    roots: Vec<(String, bool)>,
    alphabet: Vec<Op>,
    foreign: Mutex<BTreeSet<String>>,
}

fn alphabet(wide: bool) -> Vec<Op> {
    let mut v = vec![
        Op::AddSql(0),
        Op::AddSql(1),
        Op::AddSql(3),
        Op::AddSql(4),
        Op::AddNull,
        Op::AddUdf,
        Op::Merge,
        Op::RenameV,
        Op::CastK,
        Op::Drop("n1".into()),
        Op::Drop("v".into()),
        Op::Drop("m".into()),
        Op::Append,
        Op::DeleteFirst,
        Op::Compact,
        Op::DropNested("s.a".into()),
        Op::AddSA,
    ];
    if wide {
        v.extend([
            Op::AddSql(2),
            Op::AddReader,
            Op::NullableUid,
            Op::Drop("n2".into()),
            Op::Drop("n3".into()),
            Op::DropNested("s.b".into()),
            Op::RenameSB,
        ]);
    }
    v
}

fn enabled(op: &Op, st: &St) -> bool {
    let m = &st.m;
    let has = |n: &str| m.col(n).is_some();
    match op {
        Op::AddSql(1) => !has("n1") && m.v_name.is_some(),
        Op::AddSql(_) => !has("n1"),
        Op::AddNull => !has("n2"),
        Op::AddUdf => !has("n3"),
        Op::AddReader => !has("n4"),
        Op::Merge => !has("m"),
        Op::RenameV => m.v_name.is_some(),
        Op::CastK => !m.k64,
        Op::NullableUid => !m.uid_nullable,
        Op::Drop(n) if n == "v" => m.v_name.is_some(),
        Op::Drop(n) => has(n),
        Op::Append | Op::Compact => true,
        Op::DeleteFirst => !m.rows.is_empty(),
        Op::DropNested(p) => {
            let child = p.trim_start_matches("s.");
            st.nested && m.s_children.as_ref().map(|c| c.iter().any(|x| x == child) && c.len() > 1).unwrap_or(false)
        }
        Op::RenameSB => st.nested && m.s_children.as_ref().map(|c| c.iter().any(|x| x == "b")).unwrap_or(false),
        Op::AddSA => st.nested && m.s_children.as_ref().map(|c| !c.iter().any(|x| x == "a")).unwrap_or(false),
    }
}

fn st_children_mut(c: &mut Cell) -> Option<&mut Vec<(String, Cell)>> {
    match c {
        Cell::St(v) => Some(v),
        _ => None,
    }
}

/// apply the op to the model; returns the name of the column the op (re)defines, if any
fn apply_model(m: &mut Model, op: &Op, nested: bool) -> Option<String> {
    match op {
        Op::AddSql(i) => {
            let i = *i;
            m.add_col("n1", move |m, r, _| match i {
                0 => add_i(&r[m.col("k").unwrap()], 1),
                1 => match &r[m.col(m.v_name.as_deref().unwrap()).unwrap()] {
                    Cell::S(s) => Cell::S(format!("{s}x")),
                    _ => Cell::Null,
                },
                2 => Cell::I(42),
                4 => Cell::Null,
                _ => add_i(&r[m.col("uid").unwrap()], 100),
            });
            Some("n1".into())
        }
        Op::AddNull => {
            m.add_col("n2", |_, _, _| Cell::Null);
            Some("n2".into())
        }
        Op::AddUdf => {
            m.add_col("n3", |m, r, _| match &r[m.col("uid").unwrap()] {
                Cell::I(u) => Cell::I(u * 2),
                _ => Cell::Null,
            });
            Some("n3".into())
        }
        Op::AddReader => {
            m.add_col("n4", |_, _, i| Cell::S(format!("s{i}")));
            Some("n4".into())
        }
        Op::Merge => {
            m.add_col("m", |m, r, _| match &r[m.col("k").unwrap()] {
                Cell::I(0) => Cell::s("m0"),
                Cell::I(1) => Cell::s("m1"),
                Cell::I(7) => Cell::s("m7"),
                _ => Cell::Null,
            });
            Some("m".into())
        }
        Op::RenameV => {
            let cur = m.v_name.clone().unwrap();
            let new = if cur == "v" { "w" } else { "v" };
            let i = m.col(&cur).unwrap();
            m.cols[i] = new.to_string();
            m.v_name = Some(new.to_string());
            None
        }
        Op::CastK => {
            m.k64 = true;
            None
        }
        Op::NullableUid => {
            m.uid_nullable = true;
            None
        }
        Op::Drop(n) => {
            let name = if n == "v" { m.v_name.take().unwrap() } else { n.clone() };
            m.drop_col(&name);
            None
        }
        Op::Append | Op::Compact => None, // append is applied from the generated batch by the caller
        Op::DeleteFirst => {
            m.rows.remove(0);
            None
        }
        Op::DropNested(p) => {
            let child = p.trim_start_matches("s.").to_string();
            let si = m.col("s").unwrap();
            for r in m.rows.iter_mut() {
                if let Some(v) = st_children_mut(&mut r[si]) {
                    v.retain(|(n, _)| *n != child);
                }
            }
            m.s_children.as_mut().unwrap().retain(|c| *c != child);
            None
        }
        Op::RenameSB => {
            let si = m.col("s").unwrap();
            for r in m.rows.iter_mut() {
                if let Some(v) = st_children_mut(&mut r[si]) {
                    for (n, _) in v.iter_mut() {
                        if n == "b" {
                            *n = "c".to_string();
                        }
                    }
                }
            }
            for c in m.s_children.as_mut().unwrap().iter_mut() {
                if c == "b" {
                    *c = "c".to_string();
                }
            }
            None
        }
        Op::AddSA => {
            let si = m.col("s").unwrap();
            for r in m.rows.iter_mut() {
                if let Some(v) = st_children_mut(&mut r[si]) {
                    v.push(("a".to_string(), Cell::Null));
                }
            }
            m.s_children.as_mut().unwrap().push("a".to_string());
            let _ = nested;
            Some("s.a".into())
        }
    }
}

async fn apply_real(env: &Env, op: &Op, st: &St) -> lance::Result<Option<(Vec<String>, Vec<Vec<Cell>>)>> {
    let mut ds = env.open(URI).await?;
    let m = &st.m;
    match op {
        Op::AddSql(i) => {
            let e = SQL[*i as usize].replace("{v}", m.v_name.as_deref().unwrap_or("v"));
            ds.add_columns(NewColumnTransform::SqlExpressions(vec![("n1".into(), e)]), None, None).await?;
        }
        Op::AddNull => {
            let s = Arc::new(ArrowSchema::new(vec![Field::new("n2", DataType::Int32, true)]));
            ds.add_columns(NewColumnTransform::AllNulls(s), None, None).await?;
        }
        Op::AddUdf => {
            let out = Arc::new(ArrowSchema::new(vec![Field::new("n3", DataType::Int32, true)]));
            let out2 = out.clone();
            let udf = BatchUDF {
                mapper: Box::new(move |b: &RecordBatch| {
                    let uid = b
                        .column_by_name("uid")
                        .ok_or_else(|| lance::Error::invalid_input("uid missing in UDF input", snafu::location!()))?;
                    let uid = uid.as_any().downcast_ref::<Int32Array>().unwrap();
                    let v: Int32Array = uid.iter().map(|u| u.map(|u| u * 2)).collect();
                    Ok(RecordBatch::try_new(out2.clone(), vec![Arc::new(v)])?)
                }),
                output_schema: out,
                result_checkpoint: None,
            };
            ds.add_columns(NewColumnTransform::BatchUDF(udf), Some(vec!["uid".into()]), Some(2)).await?;
        }
        Op::AddReader => {
            let schema = Arc::new(ArrowSchema::new(vec![Field::new("n4", DataType::Utf8, true)]));
            let n = m.rows.len();
            let mut batches = vec![];
            let mut i = 0;
            // chunks of 2 rows: not aligned with the 3-row fragments
            while i < n {
                let j = (i + 2).min(n);
                let a: StringArray = (i..j).map(|x| Some(format!("s{x}"))).collect();
                batches.push(Ok(RecordBatch::try_new(schema.clone(), vec![Arc::new(a)]).unwrap()));
                i = j;
            }
            let reader = RecordBatchIterator::new(batches, schema);
            ds.add_columns(NewColumnTransform::Reader(Box::new(reader)), None, None).await?;
        }
        Op::Merge => {
            let karr: ArrayRef = if m.k64 {
                Arc::new(Int64Array::from(vec![0i64, 1, 7]))
            } else {
                Arc::new(Int32Array::from(vec![0, 1, 7]))
            };
            let schema = Arc::new(ArrowSchema::new(vec![
                Field::new("k", karr.data_type().clone(), true),
                Field::new("m", DataType::Utf8, true),
            ]));
            let b = RecordBatch::try_new(schema.clone(), vec![karr, Arc::new(StringArray::from(vec!["m0", "m1", "m7"]))]).unwrap();
            ds.merge(RecordBatchIterator::new(vec![Ok(b)], schema), "k", "k").await?;
        }
        Op::RenameV => {
            let cur = m.v_name.clone().unwrap();
            let new = if cur == "v" { "w" } else { "v" };
            ds.alter_columns(&[ColumnAlteration::new(cur).rename(new.to_string())]).await?;
        }
        Op::CastK => {
            ds.alter_columns(&[ColumnAlteration::new("k".into()).cast_to(DataType::Int64)]).await?;
        }
        Op::NullableUid => {
            ds.alter_columns(&[ColumnAlteration::new("uid".into()).set_nullable(true)]).await?;
        }
        Op::Drop(n) => {
            let name = if n == "v" { m.v_name.clone().unwrap() } else { n.clone() };
            ds.drop_columns(&[name.as_str()]).await?;
        }
        Op::Append => {
            let arrow: ArrowSchema = ds.schema().into();
            let uids: Vec<i32> = (m.next_uid..m.next_uid + 2).collect();
            let cols: Vec<ArrayRef> = arrow.fields().iter().map(|f| gen_array(f, &uids, m)).collect();
            let b = RecordBatch::try_new(Arc::new(arrow.clone()), cols)
                .map_err(|e| lance::Error::invalid_input(format!("harness batch: {e}"), snafu::location!()))?;
            let rows = cells::batch_rows(&b);
            let names = cells::batch_cols(&b);
            let p = env.write_params(WriteMode::Append);
            env.write(URI, vec![b], p).await?;
            return Ok(Some((names, rows)));
        }
        Op::DeleteFirst => {
            let uid = match m.uid_of(&m.rows[0]) {
                Cell::I(u) => u,
                _ => -1,
            };
            ds.delete(&format!("uid = {uid}")).await?;
        }
        Op::Compact => {
            let o = CompactionOptions { materialize_deletions_threshold: 0.0, ..Default::default() };
            compact_files(&mut ds, o, None).await?;
        }
        Op::DropNested(p) => {
            ds.drop_columns(&[p.as_str()]).await?;
        }
        Op::RenameSB => {
            ds.alter_columns(&[ColumnAlteration::new("s.b".into()).rename("c".to_string())]).await?;
        }
        Op::AddSA => {
            let fields = Fields::from(vec![Field::new("a", DataType::Int32, true)]);
            let s = Arc::new(ArrowSchema::new(vec![Field::new("s", DataType::Struct(fields), true)]));
            ds.add_columns(NewColumnTransform::AllNulls(s), None, None).await?;
        }
    }
    Ok(None)
}

struct Seen {
    names: Vec<String>,
    rows: Vec<Vec<Cell>>,
    count: usize,
    k_type: Option<DataType>,
    uid_nullable: bool,
    struct_problems: Vec<String>,
    frag_sig: Value,
}

async fn observe(env: &Env) -> lance::Result<Seen> {
    let ds = env.open(URI).await?;
    let (names, rows) = vds::scan_cells(&ds, false, false).await?;
    let count = ds.count_rows(None).await?;
    let arrow: ArrowSchema = ds.schema().into();
    let (sum, problems) = vds::structure::check_struct(&ds).await;
    Ok(Seen {
        names,
        rows,
        count,
        k_type: arrow.field_with_name("k").ok().map(|f| f.data_type().clone()),
        uid_nullable: arrow.field_with_name("uid").map(|f| f.is_nullable()).unwrap_or(false),
        struct_problems: problems,
        frag_sig: json!(sum.map(|s| (s.field_ids, s.frags))),
    })
}

fn op_kind(op: &Op) -> String {
    match op {
        Op::AddSql(i) => format!("add_sql{i}"),
        Op::AddNull => "add_null".into(),
        Op::AddUdf => "add_udf".into(),
        Op::AddReader => "add_reader".into(),
        Op::Merge => "merge".into(),
        Op::RenameV => "rename".into(),
        Op::CastK => "cast".into(),
        Op::NullableUid => "nullable".into(),
        Op::Drop(_) => "drop".into(),
        Op::Append => "append".into(),
        Op::DeleteFirst => "delete".into(),
        Op::Compact => "compact".into(),
        Op::DropNested(_) => "drop_nested".into(),
        Op::RenameSB => "rename_nested".into(),
        Op::AddSA => "add_nested".into(),
    }
}

impl Sys {
    fn judge(&self, nested: bool, op: Option<&Op>, defined: Option<&str>, m: &Model, seen: &Seen) -> Vec<Violation> {
        let mut v = vec![];
        let kind = op.map(op_kind).unwrap_or_else(|| "init".into());
        let variant = if nested { "nested" } else { "flat" };
        let case = json!({"model_cols": m.cols, "seen_cols": seen.names});
        if seen.names != m.cols {
            // an empty table scans to zero batches: names then come from the schema, same thing
            v.push(Violation::new(
                "columns",
                &format!("{variant}/{kind}/column-list"),
                format!("columns {:?}, expected {:?}", seen.names, m.cols),
                case.clone(),
            ));
            return v;
        }
        if seen.rows.len() != m.rows.len() || seen.count != m.rows.len() {
            v.push(Violation::new(
                "row-count",
                &format!("{variant}/{kind}/row-count"),
                format!("scan {} rows, count_rows {}, expected {}", seen.rows.len(), seen.count, m.rows.len()),
                case.clone(),
            ));
            return v;
        }
        let uidc = m.col("uid").unwrap();
        let uids_seen: Vec<&Cell> = seen.rows.iter().map(|r| &r[uidc]).collect();
        let uids_model: Vec<&Cell> = m.rows.iter().map(|r| &r[uidc]).collect();
        if uids_seen != uids_model {
            v.push(Violation::new(
                "row-order",
                &format!("{variant}/{kind}/row-order"),
                format!("uid order {:?}, expected {:?}", uids_seen, uids_model),
                case.clone(),
            ));
            return v;
        }
        for (ci, cname) in m.cols.iter().enumerate() {
            let got: Vec<&Cell> = seen.rows.iter().map(|r| &r[ci]).collect();
            let exp: Vec<&Cell> = m.rows.iter().map(|r| &r[ci]).collect();
            if got == exp {
                continue;
            }
            let is_defined = defined.map(|d| d == cname || d.starts_with(&format!("{cname}."))).unwrap_or(false);
            let mut class = if is_defined { "added-column-wrong".to_string() } else { format!("untouched-column-changed({})", role(cname, m)) };
            if is_defined {
                if let Some(old) = m.dropped.get(cname) {
                    let old_by_uid: BTreeMap<&Cell, &Cell> = old.iter().map(|(u, c)| (u, c)).collect();
                    let shows_old = seen.rows.iter().any(|r| {
                        old_by_uid.get(&r[uidc]).map(|c| **c == r[ci] && !c.is_null()).unwrap_or(false)
                            && m.rows.iter().any(|mr| mr[uidc] == r[uidc] && mr[ci] != r[ci])
                    });
                    if shows_old {
                        class = "readded-column-shows-dropped-data".to_string();
                    }
                }
            }
            v.push(Violation::new(
                "values",
                &format!("{variant}/{kind}/{class}"),
                format!("column {cname}: {:?}, expected {:?}", got, exp),
                case.clone(),
            ));
        }
        if m.k64 && seen.k_type != Some(DataType::Int64) {
            v.push(Violation::new("type", &format!("{variant}/{kind}/cast-type"), format!("k type {:?} after cast to int64", seen.k_type), case.clone()));
        }
        if m.uid_nullable && !seen.uid_nullable {
            v.push(Violation::new("type", &format!("{variant}/{kind}/nullability"), "uid still NOT NULL after set_nullable(true)", case.clone()));
        }
        for p in &seen.struct_problems {
            if p.starts_with("duplicate schema field id") {
                v.push(Violation::new("field-ids", &format!("{variant}/{kind}/duplicate-field-id"), p.clone(), case.clone()));
            } else {
                let p: String = p.chars().filter(|c| !c.is_ascii_digit()).take(90).collect();
                self.foreign.lock().unwrap().insert(format!("C05 O-struct after {kind}: {p}"));
            }
        }
        v
    }
}

fn role(name: &str, m: &Model) -> String {
    if m.v_name.as_deref() == Some(name) {
        "v".into()
    } else {
        name.to_string()
    }
}

impl Sut for Sys {
    type State = St;
    type Op = Op;
    fn init(&self) -> Vec<(String, St)> {
        let mut out = vec![];
        for (label, nested) in &self.roots {
            let env = Env::new();
            let r = vds::run_catch(async {
                for (i, r) in [0..3, 3..6].into_iter().enumerate() {
                    let p = env.write_params(if i == 0 { WriteMode::Create } else { WriteMode::Append });
                    env.write(URI, vec![base_batch(r, *nested)], p).await?;
                }
                observe(&env).await
            });
            let seen = match r {
                Ok(Ok(s)) => s,
                other => vcore::machinery_error(&format!("cannot build base table {label}: {:?}", other.map(|x| x.map(|_| ())))),
            };
            let b = cells::batch_rows(&arrow_select::concat::concat_batches(&base_batch(0..3, *nested).schema(), &[base_batch(0..3, *nested), base_batch(3..6, *nested)]).unwrap());
            let mut cols = vec!["uid".to_string(), "k".to_string(), "v".to_string()];
            if *nested {
                cols.push("s".to_string());
            }
            let m = Model {
                cols,
                rows: b,
                v_name: Some("v".into()),
                k64: false,
                uid_nullable: false,
                next_uid: 6,
                dropped: BTreeMap::new(),
                s_children: if *nested { Some(vec!["a".into(), "b".into()]) } else { None },
            };
            let vs = self.judge(*nested, None, None, &m, &seen);
            if !vs.is_empty() {
                vcore::machinery_error(&format!("base table {label} does not scan to the model: {}", vs[0].what));
            }
            let canon = vcore::hash64(json!([nested, &m, &seen.frag_sig]).to_string().as_bytes());
            out.push((label.clone(), St { nested: *nested, snap: env.store.snapshot(), m, canon }));
        }
        out
    }
    fn ops(&self, st: &St, _depth: usize) -> Vec<Op> {
        self.alphabet.iter().filter(|o| enabled(o, st)).cloned().collect()
    }
    fn op_kind(&self, op: &Op) -> String {
        op_kind(op)
    }
    fn canon(&self, st: &St) -> u64 {
        st.canon
    }
    fn step(&self, st: &St, op: &Op) -> Step<St> {
        let env = Env::from_store(MemStore::from_snapshot(&st.snap));
        let r = vds::run_catch(async {
            let applied = apply_real(&env, op, st).await;
            let seen = observe(&env).await;
            (applied, seen)
        });
        let variant = if st.nested { "nested" } else { "flat" };
        let kind = op_kind(op);
        match r {
            Err(p) => {
                let site: String = p.chars().filter(|c| !c.is_ascii_digit()).take(60).collect();
                Step {
                    next: None,
                    outcome: "panic".into(),
                    violations: vec![Violation::new("panic", &format!("{variant}/{kind}/panic"), format!("panic: {site}"), json!({}))],
                }
            }
            Ok((Err(e), seen)) => {
                // rejected: the table must be unchanged
                let mut viol = vec![];
                match seen {
                    Ok(s) => viol.extend(self.judge(st.nested, Some(op), None, &st.m, &s).into_iter().map(|mut x| {
                        x.key = format!("{}/after-rejected-op", x.key);
                        x
                    })),
                    Err(e2) => viol.push(Violation::new(
                        "rejected-clean",
                        &format!("{variant}/{kind}/unreadable-after-rejected-op"),
                        format!("op failed ({e}) and the table is then unreadable: {e2}"),
                        json!({}),
                    )),
                }
                Step { next: None, outcome: format!("rejected:{}", vds::err_class(&e)), violations: viol }
            }
            Ok((Ok(_), Err(e))) => Step {
                next: None,
                outcome: "unreadable".into(),
                violations: vec![Violation::new(
                    "read-back",
                    &format!("{variant}/{kind}/unreadable-after-op"),
                    format!("op succeeded but the table cannot be scanned: {e}"),
                    json!({}),
                )],
            },
            Ok((Ok(appended), Ok(seen))) => {
                let mut m = st.m.clone();
                let defined = apply_model(&mut m, op, st.nested);
                if let Some((names, rows)) = appended {
                    // appended rows in the table's column order
                    if names != m.cols {
                        vcore::machinery_error(&format!("append batch columns {names:?} != model {:?}", m.cols));
                    }
                    m.rows.extend(rows);
                    m.next_uid += 2;
                }
                let viol = self.judge(st.nested, Some(op), defined.as_deref(), &m, &seen);
                let canon = vcore::hash64(json!([st.nested, &m, &seen.frag_sig]).to_string().as_bytes());
                Step {
                    next: Some(St { nested: st.nested, snap: env.store.snapshot(), m, canon }),
                    outcome: "ok".into(),
                    violations: viol,
                }
            }
        }
    }
}

pub fn run(ctx: &Ctx) -> Outcome {
    let mut out = Outcome::new("model_checking");
    let roots = vec![("flat".to_string(), false), ("nested".to_string(), true)];
    if let Some(art) = ctx.replay_case() {
        let sys = Sys { roots, alphabet: alphabet(true), foreign: Mutex::new(BTreeSet::new()) };
        let key = art["key"].as_str().unwrap_or("").to_string();
        match seqx::replay(&sys, &art["case"]) {
            Ok(v) => out.violations.extend(v.into_iter().filter(|x| key.is_empty() || x.key == key)),
            Err(e) => vcore::machinery_error(&format!("replay failed: {e}")),
        }
        out.set("states", 1u64);
        out.set("transitions", 1u64);
        out.set("traces_validated_against_impl", 1u64);
        out.set("samples", json!([art["case"]]));
        out.set("exhaustive", false);
        return out;
    }
    // two exhaustive profiles: wide alphabet / shallow, narrow alphabet / deeper
    let profiles: Vec<(&str, bool, usize, f64)> = if ctx.quick() {
        vec![("wide-depth2", true, 2, 12.0), ("narrow-depth3", false, 3, 22.0)]
    } else {
        vec![("wide-depth3", true, 3, 300.0), ("narrow-depth4", false, 4, 480.0)]
    };
    let mut rep = seqx::Report::default();
    let mut prof = vec![];
    let mut foreign = BTreeSet::new();
    for (name, wide, depth, wall) in profiles {
        let sys = Sys { roots: roots.clone(), alphabet: alphabet(wide), foreign: Mutex::new(BTreeSet::new()) };
        let r = seqx::explore(&sys, &Caps { max_depth: depth, max_states: 2_000_000, wall_s: wall }, ctx.workers);
        prof.push(json!({"profile": name, "alphabet": sys.alphabet.len(), "depth": depth, "states": r.states, "transitions": r.transitions,
            "level_sizes": r.level_sizes, "cap_hit": r.cap_hit}));
        foreign.extend(sys.foreign.lock().unwrap().iter().cloned());
        rep.merge(r);
    }
    out.violations.extend(rep.violations.iter().cloned());
    rep.fill(&mut out);
    out.set("profiles", json!(prof));
    out.set("foreign_findings", json!(foreign));
    out.assume("reference model: table of cells in scan order; SQL expressions are modelled as k+1 / v||'x' / 42 / uid+100 with NULL propagation; merge = left join on k, NULL keys do not match");
    out.assume("logical values are compared (vds::cells); integer width of an added column is not judged, except k after the cast");
    out.assume("in-memory object store; fresh session per step");
    out
}
