//! C15 – random access agrees with scanning (K1 x K5).
//!
//! States: every history of depth <= d over {append, delete(first|mid|last), update(first|last), compact}
//! from the 2-fragment base table, stable row ids on / off, plus a blob-column variant (`seqx` BFS,
//! canonical-state de-duplication). In every *distinct* state an ordered scan with `_rowid` and
//! `_rowaddr` is the reference; then every key list of length <= 3 (duplicates, unsorted) over a key
//! universe of that state (first / last row, both sides of every fragment boundary, neighbours of
//! deleted rows) is resolved through `take` (offsets), `take_rows` (row ids), `TakeBuilder` from
//! addresses, `take_scan` (all ranges), `take_blobs` / `take_blobs_by_indices`, under projections
//! {all, [v], [k, uid]}, and compared row by row with the scan. Lists containing dead keys (offset >= n,
//! id / address of a deleted row, address past a fragment) are judged on their live projection only;
//! what comes back for the dead key is recorded.
//!
//! Pure K5: `OffsetMapper::map_offset` (all deletion subsets of 0..8 x both vector representations x
//! all non-decreasing in-range offset lists of length <= 4) and `RowIdIndex::get` (two fragments, all
//! id sequences over a 5-id universe, all deletion vectors).

use arrow_array::{Int32Array, LargeBinaryArray, RecordBatch, StringArray};
use arrow_schema::{DataType, Field, Schema as ArrowSchema};
use futures::TryStreamExt;
use lance::dataset::optimize::{compact_files, CompactionOptions};
use lance::dataset::{ProjectionRequest, UpdateBuilder, WriteMode};
use lance::Dataset;
use lance_core::utils::deletion::{DeletionVector, OffsetMapper};
use lance_table::rowids::{FragmentRowIdIndex, RowIdIndex, RowIdSequence};
use serde::{Deserialize, Serialize};
use serde_json::{json, Value};
use std::collections::{BTreeMap, BTreeSet, HashSet};
use std::sync::{Arc, Mutex};
use vcore::seqx::{self, Caps, Step, Sut};
use vcore::{Cov, Ctx, Outcome, Violation};
use vds::cells::{self, Cell};
use vds::{default_rows, Env, MRow, URI};
use vstore::{MemStore, Snapshot};

#[derive(Clone, Copy, Debug, PartialEq, Eq, Hash, Serialize, Deserialize)]
pub enum Which {
    First,
    Mid,
    Last,
}

#[derive(Clone, Debug, Serialize, Deserialize)]
pub enum Op {
    Append,
    Delete(Which),
    Update(Which),
    Compact,
}

#[derive(Clone)]
pub struct St {
    label: String,
    stable: bool,
    blob: bool,
    snap: Snapshot,
    /// bag of live rows (order is taken from the scan, not modelled)
    model: Vec<MRow>,
    next_uid: i32,
    /// row ids / addresses of rows that were deleted or moved in earlier states
    dead_ids: BTreeSet<u64>,
    canon: u64,
    /// ops that led here (violations found while probing a state do not prune the search, so the
    /// trace is carried by the state itself)
    path: Vec<Op>,
}

fn blob_bytes(uid: i32) -> Option<Vec<u8>> {
    match uid.rem_euclid(8) {
        0 | 4 => Some(format!("hello{uid}").into_bytes()),
        1 | 5 => Some((0..300u32).map(|i| (i * 7 + uid as u32) as u8).collect()),
        2 => None,
        6 => Some(vec![]),
        _ => Some(vec![uid as u8]),
    }
}

fn blob_schema() -> Arc<ArrowSchema> {
    let mut md = std::collections::HashMap::new();
    md.insert("lance-encoding:blob".to_string(), "true".to_string());
    Arc::new(ArrowSchema::new(vec![
        Field::new("uid", DataType::Int32, false),
        Field::new("k", DataType::Int32, true),
        Field::new("v", DataType::Utf8, true),
        Field::new("blob", DataType::LargeBinary, true).with_metadata(md),
    ]))
}

fn make_batch(rows: &[MRow], blob: bool) -> RecordBatch {
    if !blob {
        return vds::base_batch(rows);
    }
    let blobs: Vec<Option<Vec<u8>>> = rows.iter().map(|r| blob_bytes(r.uid)).collect();
    RecordBatch::try_new(
        blob_schema(),
        vec![
            Arc::new(Int32Array::from(rows.iter().map(|r| r.uid).collect::<Vec<_>>())),
            Arc::new(Int32Array::from(rows.iter().map(|r| r.k).collect::<Vec<_>>())),
            Arc::new(StringArray::from(rows.iter().map(|r| r.v.clone()).collect::<Vec<_>>())),
            Arc::new(LargeBinaryArray::from_iter(blobs.iter().map(|b| b.as_deref()))),
        ],
    )
    .unwrap()
}

async fn write_rows(env: &Env, rows: &[MRow], blob: bool, mode: WriteMode, stable: bool) -> lance::Result<Dataset> {
    let mut p = env.write_params(mode);
    p.enable_stable_row_ids = stable;
    p.enable_v2_manifest_paths = true;
    let b = make_batch(rows, blob);
    let schema = b.schema();
    let reader = arrow_array::RecordBatchIterator::new(vec![Ok(b)], schema);
    Dataset::write(reader, URI, Some(p)).await
}

/// reference rows of a state: ordered scan of (uid,k,v) with `_rowid`, `_rowaddr`
#[derive(Clone, Debug)]
struct Ref {
    rows: Vec<MRow>,
    ids: Vec<u64>,
    addrs: Vec<u64>,
}

async fn reference(ds: &Dataset) -> lance::Result<Ref> {
    let mut sc = ds.scan();
    sc.project(&["uid", "k", "v"])?;
    sc.scan_in_order(true);
    sc.with_row_id();
    sc.with_row_address();
    let batches: Vec<RecordBatch> = sc.try_into_stream().await?.try_collect().await?;
    let mut r = Ref { rows: vec![], ids: vec![], addrs: vec![] };
    for b in &batches {
        let names = cells::batch_cols(b);
        let rows = cells::batch_rows(b);
        let pos = |n: &str| names.iter().position(|x| x == n);
        let (iu, ik, iv, iid, iad) = (pos("uid"), pos("k"), pos("v"), pos("_rowid"), pos("_rowaddr"));
        for row in rows {
            let g = |i: Option<usize>| i.map(|i| row[i].clone()).unwrap_or(Cell::Null);
            r.rows.push(MRow::from_cells(&[g(iu), g(ik), g(iv)]).expect("row"));
            r.ids.push(match g(iid) {
                Cell::U(x) => x,
                _ => u64::MAX,
            });
            r.addrs.push(match g(iad) {
                Cell::U(x) => x,
                _ => u64::MAX,
            });
        }
    }
    Ok(r)
}

const PROJ_ALL: &[&str] = &["uid", "k", "v"];
const PROJ_V: &[&str] = &["v"];
const PROJ_KU: &[&str] = &["k", "uid"];

fn expect_rows(r: &Ref, offs: &[usize], proj: &[&str]) -> Vec<Vec<Cell>> {
    offs.iter()
        .map(|o| proj.iter().map(|c| r.rows[*o].get(c)).collect())
        .collect()
}

/// rows of a result batch restricted to `proj` columns (by name, in `proj` order)
fn got_rows(b: &RecordBatch, proj: &[&str]) -> Result<Vec<Vec<Cell>>, String> {
    let names = cells::batch_cols(b);
    let mut idx = vec![];
    for c in proj {
        idx.push(names.iter().position(|n| n == c).ok_or(format!("column {c} missing in result {names:?}"))?);
    }
    Ok(cells::batch_rows(b)
        .into_iter()
        .map(|row| idx.iter().map(|i| row[*i].clone()).collect())
        .collect())
}

/// key universe of a state: offsets of first / last row, both sides of each fragment boundary and of
/// each gap left by a deleted row; capped at `cap` keys
fn universe(r: &Ref, cap: usize) -> Vec<usize> {
    let n = r.rows.len();
    let mut u: Vec<usize> = vec![];
    let push = |x: usize, u: &mut Vec<usize>| {
        if x < n && !u.contains(&x) && u.len() < cap {
            u.push(x);
        }
    };
    if n == 0 {
        return u;
    }
    push(0, &mut u);
    push(n - 1, &mut u);
    for i in 1..n {
        let (a, b) = (r.addrs[i - 1], r.addrs[i]);
        if a >> 32 != b >> 32 {
            push(i, &mut u);
            push(i - 1, &mut u);
        }
    }
    for i in 1..n {
        let (a, b) = (r.addrs[i - 1], r.addrs[i]);
        if a >> 32 == b >> 32 && b != a + 1 {
            push(i, &mut u);
            push(i - 1, &mut u);
        }
    }
    for i in 0..n {
        push(i, &mut u);
    }
    u
}

fn key_lists(u: &[usize], max_len: usize) -> Vec<Vec<usize>> {
    vcore::smallx::sequences(u.len(), 1, max_len)
        .into_iter()
        .map(|ix| ix.into_iter().map(|i| u[i]).collect())
        .collect()
}

fn list_class(r: &Ref, l: &[usize]) -> &'static str {
    let dup = (0..l.len()).any(|i| (0..i).any(|j| l[i] == l[j]));
    let unsorted = l.windows(2).any(|w| w[0] > w[1]);
    let cross = l.iter().map(|o| r.addrs[*o] >> 32).collect::<BTreeSet<_>>().len() > 1;
    match (dup, unsorted, cross) {
        (true, _, _) => "dup",
        (_, true, true) => "unsorted-crossfrag",
        (_, true, false) => "unsorted",
        (_, false, true) => "sorted-crossfrag",
        _ => "sorted",
    }
}

fn slug(t: &str, words: usize) -> String {
    t.chars()
        .filter(|c| !c.is_ascii_digit())
        .map(|c| if c.is_alphanumeric() { c } else { '-' })
        .collect::<String>()
        .split('-')
        .filter(|s| !s.is_empty())
        .take(words)
        .collect::<Vec<_>>()
        .join("-")
}

/// classification of an error: the first /repo source location it names (file:line)
fn err_site(e: &lance::Error) -> String {
    let msg = e.to_string();
    let site = msg
        .split(|c: char| c == ' ' || c == ',')
        .find(|w| w.starts_with("/repo/rust/") && w.contains(".rs:"))
        .map(|w| {
            let w = w.trim_start_matches("/repo/rust/");
            let mut it = w.split(':');
            format!("{}:{}", it.next().unwrap_or(""), it.next().unwrap_or(""))
        })
        .unwrap_or_default();
    format!("{}@{site}", vds::err_class(e))
}

struct Shared {
    cov: Mutex<Cov>,
    evaluated: Mutex<HashSet<u64>>,
    dead: Mutex<BTreeMap<String, u64>>,
    foreign: Mutex<BTreeSet<String>>,
    max_len: usize,
    cap_keys: usize,
}

struct Sys {
    sh: Shared,
    roots: Vec<(String, bool, bool)>,
    /// replay mode: probe violations are returned from `step` (seqx::replay collects them)
    replaying: bool,
    collected: Mutex<Vec<Violation>>,
}

async fn take_by_addr(ds: &Arc<Dataset>, addrs: &[u64], proj: &[&str]) -> lance::Result<RecordBatch> {
    let plan = ProjectionRequest::from_columns(proj.iter().copied(), ds.schema()).into_projection_plan(ds.clone())?;
    lance::dataset::TakeBuilder::try_new_from_addresses(ds.clone(), addrs.to_vec(), Arc::new(plan))?
        .execute()
        .await
}

impl Sys {
    /// all random-access probes of one state; returns violations (keys are structural, not per state)
    fn probe_state(&self, st: &St, ds: &Dataset, r: &Ref) -> Vec<Violation> {
        let sh = &self.sh;
        let mut viol: Vec<Violation> = vec![];
        let mut cov = Cov::new();
        let ds = Arc::new(ds.clone());
        let n = r.rows.len();
        let u = universe(r, sh.cap_keys);
        let lists = key_lists(&u, sh.max_len);
        let mode = if st.stable { "stable" } else { "addr-ids" };
        let frag_count = r.addrs.iter().map(|a| a >> 32).collect::<BTreeSet<_>>().len();
        let check = |api: &str, proj: &[&str], l: &[usize], keys: Value, res: Result<lance::Result<RecordBatch>, String>, cov: &mut Cov, viol: &mut Vec<Violation>| {
            let class = list_class(r, l);
            let nontrivial = l.len() >= 2 && (class != "sorted" || frag_count > 1);
            let h = vcore::hash64(format!("{}|{api}|{proj:?}|{l:?}", st.canon).as_bytes());
            cov.eval(if nontrivial { Some(h) } else { None });
            let case = json!({"api": api, "projection": proj, "offsets": l, "keys": keys, "stable_row_ids": st.stable,
                "scan_uids": r.rows.iter().map(|x| x.uid).collect::<Vec<_>>(), "scan_rowids": r.ids, "scan_rowaddrs": r.addrs});
            let pn = if proj.len() == 3 { "all" } else if proj.len() == 1 { "v" } else { "k,uid" };
            match res {
                Err(p) => {
                    cov.outcome(&format!("{api}:panic"));
                    let site: String = p.chars().filter(|c| !c.is_ascii_digit()).take(50).collect();
                    viol.push(Violation::new("panic", &format!("{api}/{mode}/panic/{}", slug(&p, 6)), format!("{api}({keys}) [{class}] panicked: {site}"), case));
                }
                Ok(Err(e)) => {
                    cov.outcome(&format!("{api}:error"));
                    viol.push(Violation::new(
                        "live-key-error",
                        &format!("{api}/{mode}/error-on-live-keys/{}", err_site(&e)),
                        format!("{api}({keys}) [{class}] on live keys failed: {e}"),
                        case,
                    ));
                }
                Ok(Ok(b)) => {
                    let exp = expect_rows(r, l, proj);
                    match got_rows(&b, proj) {
                        Err(m) => {
                            cov.outcome(&format!("{api}:bad-columns"));
                            viol.push(Violation::new("columns", &format!("{api}/{mode}/columns/{pn}"), m, case));
                        }
                        Ok(got) => {
                            if got == exp {
                                cov.outcome(&format!("{api}:ok:{class}"));
                            } else {
                                cov.outcome(&format!("{api}:mismatch"));
                                let kind = if got.len() != exp.len() {
                                    "row-count"
                                } else if cells::bag(got.clone()) == cells::bag(exp.clone()) {
                                    "order"
                                } else {
                                    "wrong-row"
                                };
                                viol.push(Violation::new(
                                    "take-vs-scan",
                                    &format!("{api}/{mode}/{kind}"),
                                    format!("{api}({keys}) [{class}, projection {pn}] -> {got:?}, scan shows {exp:?}"),
                                    case,
                                ));
                            }
                        }
                    }
                }
            }
        };
        for l in &lists {
            let offs: Vec<u64> = l.iter().map(|o| *o as u64).collect();
            let ids: Vec<u64> = l.iter().map(|o| r.ids[*o]).collect();
            let addrs: Vec<u64> = l.iter().map(|o| r.addrs[*o]).collect();
            let projs: Vec<&[&str]> = if l.len() <= 2 { vec![PROJ_ALL, PROJ_V, PROJ_KU] } else { vec![PROJ_ALL] };
            for proj in projs {
                let pr = || ProjectionRequest::from_columns(proj.iter().copied(), ds.schema());
                let res = vds::run_catch(async { ds.take(&offs, pr()).await });
                check("take", proj, l, json!(offs), res, &mut cov, &mut viol);
                let res = vds::run_catch(async { ds.take_rows(&ids, pr()).await });
                check("take_rows", proj, l, json!(ids), res, &mut cov, &mut viol);
                let res = vds::run_catch(async { take_by_addr(&ds, &addrs, proj).await });
                check("take_addrs", proj, l, json!(addrs), res, &mut cov, &mut viol);
            }
        }
        // take_scan: every range (and every ordered pair of ranges from a reduced set) over 0..n
        let mut ranges: Vec<(usize, usize)> = vec![];
        for a in 0..=n {
            for b in a..=n {
                if b > a || a == 0 {
                    ranges.push((a, b));
                }
            }
        }
        let mut range_lists: Vec<Vec<(usize, usize)>> = ranges.iter().map(|x| vec![*x]).collect();
        let reduced: Vec<(usize, usize)> = ranges.iter().copied().filter(|(a, b)| b - a <= 2 && (u.contains(a) || *b == n)).take(6).collect();
        for x in &reduced {
            for y in &reduced {
                range_lists.push(vec![*x, *y]);
            }
        }
        let schema = Arc::new(ds.schema().project(PROJ_ALL).expect("projection"));
        for rl in &range_lists {
            let l: Vec<usize> = rl.iter().flat_map(|(a, b)| *a..*b).collect();
            let rs: Vec<lance::Result<std::ops::Range<u64>>> = rl.iter().map(|(a, b)| Ok(*a as u64..*b as u64)).collect();
            let res = vds::run_catch(async {
                let st = ds.take_scan(Box::pin(futures::stream::iter(rs)), schema.clone(), 2);
                let bs: Vec<RecordBatch> = st.try_collect().await?;
                let sch = bs.first().map(|b| b.schema()).unwrap_or_else(|| Arc::new(schema.as_ref().into()));
                arrow_select::concat::concat_batches(&sch, &bs).map_err(|e| lance::Error::invalid_input(e.to_string(), snafu::location!()))
            });
            check("take_scan", PROJ_ALL, &l, json!(rl), res, &mut cov, &mut viol);
        }
        if st.blob && std::env::var("C15_DBG").is_ok() {
            let _ = vds::run_catch(async {
                let mut sc = ds.scan();
                sc.project(&["uid", "blob"]).unwrap();
                sc.scan_in_order(true);
                sc.with_row_address();
                let bs: Vec<RecordBatch> = sc.try_into_stream().await.unwrap().try_collect().await.unwrap();
                eprintln!("DBG state {:?} blob scan: {:?}", st.path, cells::batches_rows(&bs));
            });
        }
        // blobs: one file per requested row with a non-NULL blob, in request order; for a NULL blob the API
        // may either skip the row or hand out a zero-size file (recorded); reading a file must give its bytes
        if st.blob {
            for l in lists.iter() {
                let offs: Vec<u64> = l.iter().map(|o| *o as u64).collect();
                let ids: Vec<u64> = l.iter().map(|o| r.ids[*o]).collect();
                let exp: Vec<Option<Vec<u8>>> = l.iter().map(|o| blob_bytes(r.rows[*o].uid)).collect();
                for (api, keys) in [("take_blobs", &ids), ("take_blobs_by_indices", &offs)] {
                    let res = vds::run_catch(async {
                        let files = if api == "take_blobs" {
                            ds.take_blobs(keys, "blob").await?
                        } else {
                            ds.take_blobs_by_indices(keys, "blob").await?
                        };
                        let mut out = vec![];
                        for f in files {
                            let sz = f.size();
                            let b = f.read().await.map(|b| b.to_vec()).map_err(|e| e.to_string());
                            out.push((sz, b));
                        }
                        lance::Result::Ok(out)
                    });
                    let class = list_class(r, l);
                    let h = vcore::hash64(format!("{}|{api}|{l:?}", st.canon).as_bytes());
                    cov.eval(if l.len() >= 2 { Some(h) } else { None });
                    let case = json!({"api": api, "offsets": l, "keys": keys, "stable_row_ids": st.stable,
                        "scan_uids": r.rows.iter().map(|x| x.uid).collect::<Vec<_>>(), "scan_rowids": r.ids, "scan_rowaddrs": r.addrs});
                    match res {
                        Err(p) => {
                            cov.outcome(&format!("{api}:panic"));
                            let site: String = p.chars().filter(|c| !c.is_ascii_digit()).take(50).collect();
                            viol.push(Violation::new("panic", &format!("{api}/{mode}/panic/{}", slug(&p, 6)), format!("{api}({keys:?}) [{class}] panicked: {site}"), case));
                        }
                        Ok(Err(e)) => {
                            cov.outcome(&format!("{api}:error"));
                            viol.push(Violation::new(
                                "live-key-error",
                                &format!("{api}/{mode}/error-on-live-keys/{}", err_site(&e)),
                                format!("{api}({keys:?}) [{class}] failed: {e}"),
                                case,
                            ));
                        }
                        Ok(Ok(got)) => {
                            // align: a NULL-blob row is either skipped or represented by a zero-size file
                            fn align(exp: &[Option<Vec<u8>>], got: &[(u64, Result<Vec<u8>, String>)]) -> bool {
                                match exp.split_first() {
                                    None => got.is_empty(),
                                    Some((Some(bytes), rest)) => match got.split_first() {
                                        Some(((sz, rd), grest)) => {
                                            let content_ok = match rd {
                                                Ok(b) => b == bytes,
                                                Err(_) => bytes.is_empty(), // unreadable zero-size file: reported separately
                                            };
                                            *sz as usize == bytes.len() && content_ok && align(rest, grest)
                                        }
                                        None => false,
                                    },
                                    Some((None, rest)) => {
                                        (matches!(got.first(), Some((0, _))) && align(rest, &got[1..])) || align(rest, got)
                                    }
                                }
                            }
                            let mut problem: Option<&str> = None;
                            if !align(&exp, &got) {
                                let need = exp.iter().filter(|e| e.is_some()).count();
                                problem = Some(if got.len() < need {
                                    "blob-missing"
                                } else if got.len() > exp.len() {
                                    "extra-blob"
                                } else {
                                    "wrong-blob"
                                });
                            }
                            let zero_files = got.iter().filter(|g| g.0 == 0).count();
                            let zero_rows = exp.iter().filter(|e| matches!(e, Some(b) if b.is_empty())).count();
                            let null_rows = exp.iter().filter(|e| e.is_none()).count();
                            if null_rows > 0 && problem.is_none() {
                                let label = if zero_files > zero_rows { "NULL-blob:zero-size-file" } else { "NULL-blob:skipped" };
                                *sh.dead.lock().unwrap().entry(format!("{api}/{label}")).or_insert(0) += 1;
                            }
                            if let Some((_, Err(m))) = got.iter().find(|g| g.0 == 0 && g.1.is_err()) {
                                // a file the API handed out cannot be read
                                viol.push(Violation::new(
                                    "blob-read",
                                    &format!("{api}/zero-size-blob-file-read-error"),
                                    format!("{api}({keys:?}): a returned BlobFile of size 0 (empty or NULL blob) cannot be read: {m}"),
                                    case.clone(),
                                ));
                            }
                            match problem {
                                None => cov.outcome(&format!("{api}:ok:{class}")),
                                Some(kind) => {
                                    cov.outcome(&format!("{api}:mismatch"));
                                    let short = |v: &Vec<u8>| format!("{}B:{:?}", v.len(), &v[..v.len().min(4)]);
                                    let g: Vec<String> = got.iter().map(|(sz, b)| match b { Ok(b) => short(b), Err(_) => format!("{sz}B:<read error>") }).collect();
                                    let e: Vec<String> = exp.iter().map(|b| b.as_ref().map(short).unwrap_or("NULL".into())).collect();
                                    viol.push(Violation::new(
                                        "blob-vs-model",
                                        &format!("{api}/{mode}/{kind}"),
                                        format!("{api}({keys:?}) [{class}] -> {g:?}, the rows' blobs in request order are {e:?}"),
                                        case,
                                    ));
                                }
                            }
                        }
                    }
                }
            }
        }
        // dead keys: judged on the live projection only
        if n > 0 {
            let live = u[0];
            let mut dead_cases: Vec<(&str, Vec<(u64, Option<usize>)>)> = vec![];
            // offsets past the end
            for d in [n as u64, n as u64 + 5] {
                dead_cases.push(("take", vec![(d, None)]));
                dead_cases.push(("take", vec![(live as u64, Some(live)), (d, None)]));
                dead_cases.push(("take", vec![(d, None), (live as u64, Some(live))]));
            }
            // ids of rows deleted / moved earlier (stable: row ids; else addresses)
            for d in st.dead_ids.iter().take(2) {
                if r.ids.contains(d) {
                    continue; // id is live again (cannot happen for addresses after compaction? then it is not dead)
                }
                dead_cases.push(("take_rows", vec![(*d, None)]));
                dead_cases.push(("take_rows", vec![(r.ids[live], Some(live)), (*d, None)]));
                dead_cases.push(("take_rows", vec![(*d, None), (r.ids[live], Some(live))]));
            }
            // addresses: deleted physical positions of live fragments, past the fragment end, unknown fragment
            let mut dead_addrs: Vec<u64> = vec![];
            for f in ds.get_fragments() {
                let phys = f.metadata().physical_rows.unwrap_or(0) as u64;
                let base = (f.id() as u64) << 32;
                for p in 0..phys {
                    if !r.addrs.contains(&(base | p)) && dead_addrs.len() < 1 {
                        dead_addrs.push(base | p);
                    }
                }
                if dead_addrs.len() < 2 {
                    dead_addrs.push(base | phys);
                }
            }
            dead_addrs.push(77u64 << 32);
            for d in dead_addrs {
                dead_cases.push(("take_addrs", vec![(d, None)]));
                dead_cases.push(("take_addrs", vec![(r.addrs[live], Some(live)), (d, None)]));
                dead_cases.push(("take_addrs", vec![(d, None), (r.addrs[live], Some(live))]));
            }
            for (api, keyed) in dead_cases {
                let keys: Vec<u64> = keyed.iter().map(|k| k.0).collect();
                let live_offs: Vec<usize> = keyed.iter().filter_map(|k| k.1).collect();
                let res = vds::run_catch(async {
                    let pr = ProjectionRequest::from_columns(PROJ_ALL.iter().copied(), ds.schema());
                    match api {
                        "take" => ds.take(&keys, pr).await,
                        "take_rows" => ds.take_rows(&keys, pr).await,
                        _ => take_by_addr(&ds, &keys, PROJ_ALL).await,
                    }
                });
                cov.eval(None);
                let shape = format!("{api}/{}", keyed.iter().map(|k| if k.1.is_some() { "live" } else { "dead" }).collect::<Vec<_>>().join("+"));
                let case = json!({"api": api, "keys": keys, "live_offsets": live_offs, "stable_row_ids": st.stable,
                    "scan_uids": r.rows.iter().map(|x| x.uid).collect::<Vec<_>>(), "scan_rowids": r.ids, "scan_rowaddrs": r.addrs});
                let label = match res {
                    Err(p) => {
                        let site: String = p.chars().filter(|c| !c.is_ascii_digit()).take(50).collect();
                        viol.push(Violation::new("panic", &format!("{api}/dead-key/{mode}/panic/{}", slug(&p, 6)), format!("{api}({keys:?}) [{shape}] with a dead key panicked: {site}"), case));
                        "panic".to_string()
                    }
                    Ok(Err(e)) => format!("error:{}", vds::err_class(&e)),
                    Ok(Ok(b)) => {
                        let got = got_rows(&b, PROJ_ALL).unwrap_or_default();
                        let exp_live = expect_rows(r, &live_offs, PROJ_ALL);
                        if got.len() == exp_live.len() {
                            if got != exp_live {
                                viol.push(Violation::new(
                                    "dead-key-live-projection",
                                    &format!("{shape}/{mode}/live-row-wrong"),
                                    format!("{api}({keys:?}) -> {got:?}; the live keys resolve to {exp_live:?}"),
                                    case,
                                ));
                            }
                            "skipped".to_string()
                        } else if got.len() == keyed.len() {
                            let mut ok = true;
                            let mut li = 0;
                            for (i, k) in keyed.iter().enumerate() {
                                if k.1.is_some() {
                                    ok &= got[i] == exp_live[li];
                                    li += 1;
                                }
                            }
                            if !ok {
                                viol.push(Violation::new(
                                    "dead-key-live-projection",
                                    &format!("{shape}/{mode}/live-row-wrong"),
                                    format!("{api}({keys:?}) -> {got:?}; the live keys resolve to {exp_live:?}"),
                                    case,
                                ));
                            }
                            let dead_row: Vec<String> = keyed
                                .iter()
                                .enumerate()
                                .filter(|(_, k)| k.1.is_none())
                                .map(|(i, _)| if got[i].iter().all(|c| c.is_null()) { "null-row".to_string() } else { "some-row".to_string() })
                                .collect();
                            format!("row-returned:{}", dead_row.join(","))
                        } else {
                            viol.push(Violation::new(
                                "dead-key-live-projection",
                                &format!("{shape}/{mode}/live-row-lost"),
                                format!("{api}({keys:?}) -> {} rows {got:?}; live keys resolve to {exp_live:?}", got.len()),
                                case,
                            ));
                            "other-length".to_string()
                        }
                    }
                };
                *sh.dead.lock().unwrap().entry(format!("{shape}/{mode}:{label}")).or_insert(0) += 1;
            }
        }
        if cov.samples.is_empty() {
            if let Some(l) = lists.last() {
                cov.sample(json!({"state": st.label, "stable": st.stable, "blob": st.blob, "scan_uids": r.rows.iter().map(|x| x.uid).collect::<Vec<_>>(),
                    "scan_rowids": r.ids, "scan_rowaddrs": r.addrs, "universe": u, "example_offsets": l}));
            }
        }
        sh.cov.lock().unwrap().merge(cov);
        viol
    }
}

fn pick(model: &[MRow], w: Which) -> Option<i32> {
    if model.is_empty() {
        return None;
    }
    let mut uids: Vec<i32> = model.iter().map(|r| r.uid).collect();
    uids.sort();
    Some(match w {
        Which::First => uids[0],
        Which::Mid => uids[uids.len() / 2],
        Which::Last => uids[uids.len() - 1],
    })
}

impl Sys {
    fn finish_state(&self, mut st: St, env: &Env, prev_ref_ids: Option<&Ref>) -> Step<St> {
        // open fresh, reference scan, struct check, canon; then probe if unseen
        let r = vds::run_catch(async {
            let ds = env.open(URI).await?;
            let r = reference(&ds).await?;
            let (sum, problems) = vds::structure::check_struct(&ds).await;
            lance::Result::Ok((ds, r, sum, problems))
        });
        let (ds, r, sum, problems) = match r {
            Ok(Ok(x)) => x,
            Ok(Err(e)) => {
                self.sh.foreign.lock().unwrap().insert(format!("state unreadable after op: {}", vds::err_class(&e)));
                return Step { next: None, outcome: "unreadable".into(), violations: vec![] };
            }
            Err(p) => {
                self.sh.foreign.lock().unwrap().insert(format!("panic reading state: {}", p.chars().take(60).collect::<String>()));
                return Step { next: None, outcome: "panic-reading".into(), violations: vec![] };
            }
        };
        for p in problems {
            let p: String = p.chars().filter(|c| !c.is_ascii_digit()).take(80).collect();
            self.sh.foreign.lock().unwrap().insert(format!("C05 O-struct: {p}"));
        }
        // scan must equal the model as a bag (C12/C13 own this oracle; recorded, state not expanded)
        let mut a: Vec<MRow> = r.rows.clone();
        let mut b: Vec<MRow> = st.model.clone();
        a.sort();
        b.sort();
        if a != b {
            self.sh.foreign.lock().unwrap().insert("scan != model bag after op (C12/C13 oracle)".to_string());
            return Step { next: None, outcome: "scan-model-mismatch".into(), violations: vec![] };
        }
        if st.blob {
            // the blobs the table holds must still be the ones written (owned by C13; a state where an op
            // changed blob contents is recorded as a foreign finding and not explored)
            let sizes = vds::run_catch(async {
                let mut sc = ds.scan();
                sc.project(&["uid", "blob"])?;
                sc.scan_in_order(true);
                let bs: Vec<RecordBatch> = sc.try_into_stream().await?.try_collect().await?;
                lance::Result::Ok(cells::batches_rows(&bs))
            });
            let mut bad = None;
            if let Ok(Ok(rows)) = &sizes {
                for row in rows {
                    let uid = row[0].as_i64().unwrap_or(-1) as i32;
                    let want = match blob_bytes(uid) {
                        None => (Some(1u64), 0u64),
                        Some(b) if b.is_empty() => (Some(0), 0),
                        Some(b) => (None, b.len() as u64),
                    };
                    if let Cell::St(f) = &row[1] {
                        let pos = f.iter().find(|x| x.0 == "position").and_then(|x| if let Cell::U(p) = x.1 { Some(p) } else { None });
                        let size = f.iter().find(|x| x.0 == "size").and_then(|x| if let Cell::U(p) = x.1 { Some(p) } else { None });
                        if size != Some(want.1) || (want.0.is_some() && pos != want.0) {
                            bad = Some(format!("uid {uid}: descriptor (position {pos:?}, size {size:?}), written blob has {} bytes", want.1));
                        }
                    }
                }
            } else {
                bad = Some("blob column cannot be scanned".to_string());
            }
            if let Some(b) = bad {
                let last = st.path.last().map(|o| format!("{o:?}")).unwrap_or_default();
                self.sh.foreign.lock().unwrap().insert(format!("C13: blob contents changed by {last}: {b}"));
                return Step { next: None, outcome: "blob-content-changed".into(), violations: vec![] };
            }
        }
        if let Some(prev) = prev_ref_ids {
            for id in &prev.ids {
                if !r.ids.contains(id) {
                    st.dead_ids.insert(*id);
                }
            }
        }
        st.dead_ids.retain(|d| !r.ids.contains(d));
        st.snap = env.store.snapshot();
        let frags = sum.map(|s| s.frags);
        st.canon = vcore::hash64(json!([st.stable, st.blob, r.rows, r.ids, r.addrs, frags, st.dead_ids]).to_string().as_bytes());
        let fresh = self.sh.evaluated.lock().unwrap().insert(st.canon);
        let mut violations = if fresh { self.probe_state(&st, &ds, &r) } else { vec![] };
        if !self.replaying {
            // a random-access disagreement does not make model and table diverge: keep exploring below
            for mut v in violations.drain(..) {
                v.case = json!({"root": st.label, "ops": st.path, "detail": v.case});
                self.collected.lock().unwrap().push(v);
            }
        }
        Step { next: Some(st), outcome: if fresh { "probed".into() } else { "seen".into() }, violations }
    }
}

impl Sut for Sys {
    type State = St;
    type Op = Op;
    fn init(&self) -> Vec<(String, St)> {
        let mut v = vec![];
        for (label, stable, blob) in &self.roots {
            let env = Env::new();
            let ok = vds::run_catch(async {
                write_rows(&env, &default_rows(0..3), *blob, WriteMode::Create, *stable).await?;
                write_rows(&env, &default_rows(3..6), *blob, WriteMode::Append, *stable).await?;
                lance::Result::Ok(())
            });
            if !matches!(ok, Ok(Ok(()))) {
                vcore::machinery_error(&format!("cannot create base table {label}: {ok:?}"));
            }
            let st = St {
                label: label.clone(),
                stable: *stable,
                blob: *blob,
                snap: env.store.snapshot(),
                model: default_rows(0..6),
                next_uid: 6,
                dead_ids: BTreeSet::new(),
                canon: 0,
                path: vec![],
            };
            let step = self.finish_state(st, &env, None);
            // violations found in a root state are reported through a zero-length trace
            ROOT_VIOLATIONS.lock().unwrap().extend(step.violations.into_iter().map(|mut x| {
                x.case = json!({"root": label, "ops": [], "detail": x.case});
                x
            }));
            if let Some(s) = step.next {
                v.push((label.clone(), s));
            }
        }
        v
    }
    fn ops(&self, st: &St, _depth: usize) -> Vec<Op> {
        let mut v = vec![Op::Append];
        if !st.model.is_empty() {
            v.extend([
                Op::Delete(Which::First),
                Op::Delete(Which::Mid),
                Op::Delete(Which::Last),
                Op::Update(Which::First),
                Op::Update(Which::Last),
            ]);
        }
        v.push(Op::Compact);
        v
    }
    fn op_kind(&self, op: &Op) -> String {
        match op {
            Op::Append => "append",
            Op::Delete(_) => "delete",
            Op::Update(_) => "update",
            Op::Compact => "compact",
        }
        .to_string()
    }
    fn canon(&self, st: &St) -> u64 {
        st.canon
    }
    fn step(&self, st: &St, op: &Op) -> Step<St> {
        let env = Env::from_store(MemStore::from_snapshot(&st.snap));
        let mut next = st.clone();
        next.path.push(op.clone());
        let r = vds::run_catch(async {
            let mut ds = env.open(URI).await?;
            let prev = reference(&ds).await?;
            match op {
                Op::Append => {
                    let rows = default_rows(st.next_uid..st.next_uid + 2);
                    write_rows(&env, &rows, st.blob, WriteMode::Append, st.stable).await?;
                }
                Op::Delete(w) => {
                    let uid = pick(&st.model, *w).unwrap();
                    ds.delete(&format!("uid = {uid}")).await?;
                }
                Op::Update(w) => {
                    let uid = pick(&st.model, *w).unwrap();
                    UpdateBuilder::new(Arc::new(ds.clone()))
                        .update_where(&format!("uid = {uid}"))?
                        .set("k", "k + 10")?
                        .build()?
                        .execute()
                        .await?;
                }
                Op::Compact => {
                    let o = CompactionOptions { materialize_deletions_threshold: 0.0, ..Default::default() };
                    compact_files(&mut ds, o, None).await?;
                }
            }
            lance::Result::Ok(prev)
        });
        let prev = match r {
            Ok(Ok(p)) => p,
            Ok(Err(e)) => {
                return Step { next: None, outcome: format!("rejected:{}", vds::err_class(&e)), violations: vec![] };
            }
            Err(p) => {
                self.sh.foreign.lock().unwrap().insert(format!("panic in op {:?}: {}", op, p.chars().take(60).collect::<String>()));
                return Step { next: None, outcome: "op-panic".into(), violations: vec![] };
            }
        };
        match op {
            Op::Append => {
                next.model.extend(default_rows(st.next_uid..st.next_uid + 2));
                next.next_uid += 2;
            }
            Op::Delete(w) => {
                let uid = pick(&st.model, *w).unwrap();
                next.model.retain(|r| r.uid != uid);
            }
            Op::Update(w) => {
                let uid = pick(&st.model, *w).unwrap();
                for r in next.model.iter_mut() {
                    if r.uid == uid {
                        r.k = r.k.map(|k| k + 10);
                    }
                }
            }
            Op::Compact => {}
        }
        self.finish_state(next, &env, Some(&prev))
    }
}

static ROOT_VIOLATIONS: Mutex<Vec<Violation>> = Mutex::new(vec![]);

/// One classification key per root cause; the symptom key stays in the violation text.
fn root_cause(mut v: Violation) -> Violation {
    let k = v.key.clone();
    let new = if k.starts_with("take/dead-key/") && k.contains("attempt-to-add-with-overflow") {
        Some("take/out-of-range-offset/arithmetic-overflow-on-tombstone-address")
    } else if k.starts_with("take_blobs_by_indices/stable/") {
        Some("take_blobs_by_indices/stable-row-ids/addresses-resolved-as-row-ids")
    } else if k.ends_with("zero-size-blob-file-read-error") {
        Some("blob-file/zero-size-blob-read-requests-empty-range")
    } else {
        None
    };
    if let Some(n) = new {
        v.what = format!("[{k}] {}", v.what);
        v.key = n.to_string();
    }
    v
}

// ------------------------------------------------------------------------------------------------
// pure K5: OffsetMapper

fn k5_offset_mapper(cov: &mut Cov, viol: &mut Vec<Violation>) {
    const N: u32 = 8;
    for mask in 0u32..(1 << N) {
        let deleted: Vec<u32> = (0..N).filter(|i| mask & (1 << i) != 0).collect();
        let live: Vec<u32> = (0..N).filter(|i| mask & (1 << i) == 0).collect();
        if deleted.is_empty() {
            continue; // callers only build a mapper when a deletion vector exists
        }
        for repr in ["set", "bitmap"] {
            let dv = match repr {
                "set" => DeletionVector::Set(deleted.iter().copied().collect()),
                _ => DeletionVector::Bitmap(deleted.iter().copied().collect()),
            };
            let dv = Arc::new(dv);
            // all non-decreasing offset lists of length 1..=4 over 0..live.len()
            let l = live.len();
            if l == 0 {
                continue;
            }
            let mut lists: Vec<Vec<u32>> = vec![];
            fn rec(start: u32, l: u32, cur: &mut Vec<u32>, out: &mut Vec<Vec<u32>>) {
                if !cur.is_empty() {
                    out.push(cur.clone());
                }
                if cur.len() == 4 {
                    return;
                }
                for x in start..l {
                    cur.push(x);
                    rec(x, l, cur, out);
                    cur.pop();
                }
            }
            rec(0, l as u32, &mut vec![], &mut lists);
            for list in lists {
                let case = json!({"kind": "offset_mapper", "physical_rows": N, "deleted": deleted, "repr": repr, "offsets": list});
                let nontrivial = list.len() >= 2;
                cov.eval(if nontrivial { Some(vcore::hash64(case.to_string().as_bytes())) } else { None });
                let res = vcore::catch(|| {
                    let mut m = OffsetMapper::new(dv.clone());
                    list.iter().map(|o| m.map_offset(*o)).collect::<Vec<u32>>()
                });
                let exp: Vec<u32> = list.iter().map(|o| live[*o as usize]).collect();
                let shape = if list.windows(2).any(|w| w[0] == w[1]) { "dup" } else { "increasing" };
                match res {
                    Err(p) => {
                        cov.outcome("offset_mapper:panic");
                        let site: String = p.chars().filter(|c| !c.is_ascii_digit()).take(40).collect();
                        viol.push(Violation::new("offset-mapper", &format!("offset_mapper/panic/{shape}"), format!("map_offset panicked ({site}) for {case}"), case));
                    }
                    Ok(got) if got != exp => {
                        cov.outcome("offset_mapper:mismatch");
                        viol.push(Violation::new(
                            "offset-mapper",
                            &format!("offset_mapper/wrong-address/{shape}"),
                            format!("map_offset {list:?} over deleted {deleted:?} -> {got:?}, expected {exp:?}"),
                            case,
                        ));
                    }
                    Ok(_) => cov.outcome("offset_mapper:ok"),
                }
            }
        }
    }
}

/// all sequences (ordered, no repeats) of length 0..=max over `ids`
fn id_sequences(ids: &[u64], max: usize) -> Vec<Vec<u64>> {
    let mut out = vec![vec![]];
    let mut frontier: Vec<Vec<u64>> = vec![vec![]];
    for _ in 0..max {
        let mut next = vec![];
        for s in &frontier {
            for id in ids {
                if !s.contains(id) {
                    let mut t = s.clone();
                    t.push(*id);
                    next.push(t);
                }
            }
        }
        out.extend(next.iter().cloned());
        frontier = next;
    }
    out
}

fn k5_row_id_index(cov: &mut Cov, viol: &mut Vec<Violation>, quick: bool) {
    // two fragments (ids 0 and 3); fragment A holds a sequence over the universe, fragment B a sequence over
    // the remaining ids; deletion vectors: all subsets of the positions
    let universe: Vec<u64> = vec![0, 1, 2, 3, 7];
    let max_a = if quick { 3 } else { 4 };
    for a in id_sequences(&universe, max_a) {
        let rest: Vec<u64> = universe.iter().copied().filter(|x| !a.contains(x)).collect();
        for b in id_sequences(&rest, 2) {
            for da in 0u32..(1 << a.len()) {
                for db in 0u32..(1 << b.len()) {
                    let case = json!({"kind": "row_id_index", "frag0_ids": a, "frag3_ids": b, "frag0_deleted_mask": da, "frag3_deleted_mask": db});
                    let nontrivial = a.len() + b.len() >= 2 && (da != 0 || db != 0 || a.windows(2).any(|w| w[0] > w[1]));
                    cov.eval(if nontrivial { Some(vcore::hash64(case.to_string().as_bytes())) } else { None });
                    let mk = |ids: &Vec<u64>, mask: u32, frag: u32| FragmentRowIdIndex {
                        fragment_id: frag,
                        row_id_sequence: Arc::new(RowIdSequence::from(ids.as_slice())),
                        deletion_vector: Arc::new(if mask == 0 {
                            DeletionVector::NoDeletions
                        } else {
                            DeletionVector::Bitmap((0..ids.len() as u32).filter(|i| mask & (1 << i) != 0).collect())
                        }),
                    };
                    let mut expect: BTreeMap<u64, (u32, u32)> = BTreeMap::new();
                    for (pos, id) in a.iter().enumerate() {
                        if da & (1 << pos) == 0 {
                            expect.insert(*id, (0, pos as u32));
                        }
                    }
                    for (pos, id) in b.iter().enumerate() {
                        if db & (1 << pos) == 0 {
                            expect.insert(*id, (3, pos as u32));
                        }
                    }
                    let res = vcore::catch(|| {
                        let idx = RowIdIndex::new(&[mk(&a, da, 0), mk(&b, db, 3)]).map_err(|e| e.to_string())?;
                        let mut got: BTreeMap<u64, (u32, u32)> = BTreeMap::new();
                        for id in 0u64..9 {
                            if let Some(addr) = idx.get(id) {
                                got.insert(id, (addr.fragment_id(), addr.row_offset()));
                            }
                        }
                        Ok::<_, String>(got)
                    });
                    let shape = format!(
                        "{}{}",
                        if a.windows(2).all(|w| w[0] < w[1]) && b.windows(2).all(|w| w[0] < w[1]) { "sorted" } else { "unsorted" },
                        if da != 0 || db != 0 { "+deletions" } else { "" }
                    );
                    match res {
                        Err(p) => {
                            cov.outcome("row_id_index:panic");
                            let site: String = p.chars().filter(|c| !c.is_ascii_digit()).take(40).collect();
                            viol.push(Violation::new("row-id-index", &format!("row_id_index/panic/{shape}"), format!("RowIdIndex panicked ({site}) for {case}"), case));
                        }
                        Ok(Err(e)) => {
                            cov.outcome("row_id_index:error");
                            viol.push(Violation::new("row-id-index", &format!("row_id_index/error/{shape}"), format!("RowIdIndex::new failed ({e}) for {case}"), case));
                        }
                        Ok(Ok(got)) if got != expect => {
                            cov.outcome("row_id_index:mismatch");
                            let kind = if expect.iter().any(|(k, v)| got.get(k) != Some(v)) { "live-id-wrong" } else { "dead-id-resolves" };
                            viol.push(Violation::new(
                                "row-id-index",
                                &format!("row_id_index/{kind}/{shape}"),
                                format!("RowIdIndex::get over ids 0..9 -> {got:?}, expected {expect:?}"),
                                case,
                            ));
                        }
                        Ok(Ok(_)) => cov.outcome("row_id_index:ok"),
                    }
                }
            }
        }
    }
}

// ------------------------------------------------------------------------------------------------

fn make_sys(ctx: &Ctx) -> Sys {
    let quick = ctx.quick();
    Sys {
        sh: Shared {
            cov: Mutex::new(Cov::new()),
            evaluated: Mutex::new(HashSet::new()),
            dead: Mutex::new(BTreeMap::new()),
            foreign: Mutex::new(BTreeSet::new()),
            max_len: 3,
            cap_keys: if quick { 3 } else { 5 },
        },
        roots: vec![
            ("L2/addr-ids".to_string(), false, false),
            ("L2/stable".to_string(), true, false),
            ("L2/blob/addr-ids".to_string(), false, true),
            ("L2/blob/stable".to_string(), true, true),
        ],
        replaying: ctx.replay.is_some(),
        collected: Mutex::new(vec![]),
    }
}

pub fn run(ctx: &Ctx) -> Outcome {
    let mut out = Outcome::new("exploration");
    let sys = make_sys(ctx);
    if let Some(art) = ctx.replay_case() {
        let case = &art["case"];
        let v = if case.get("ops").is_some() {
            let mut v = seqx::replay(&sys, case).unwrap_or_else(|e| vcore::machinery_error(&format!("replay failed: {e}")));
            v.extend(ROOT_VIOLATIONS.lock().unwrap().drain(..));
            v
        } else {
            let mut cov = Cov::new();
            let mut v = vec![];
            k5_offset_mapper(&mut cov, &mut v);
            k5_row_id_index(&mut cov, &mut v, false);
            let key = art["key"].as_str().unwrap_or("").to_string();
            v.into_iter().filter(|x| x.key == key).take(1).collect::<Vec<_>>()
        };
        let key = art["key"].as_str().unwrap_or("").to_string();
        out.violations.extend(v.into_iter().map(root_cause).filter(|x| x.key == key || key.is_empty()));
        out.set("evaluations", 1u64);
        out.set("distinct_nontrivial", 0u64);
        out.set("rule", "replay of one recorded case");
        out.set("samples", json!([case]));
        out.set("exhaustive", false);
        return out;
    }
    let quick = ctx.quick();
    let caps = Caps { max_depth: ctx.tier.pick(2, 3), max_states: 200_000, wall_s: ctx.tier.pick(30.0, 780.0) };
    let rep = seqx::explore(&sys, &caps, ctx.workers);
    let mut cov = sys.sh.cov.lock().unwrap().clone();
    out.violations.extend(ROOT_VIOLATIONS.lock().unwrap().drain(..));
    out.violations.extend(rep.violations.iter().cloned());
    // shortest trace first per key (finish() keeps the first artefact of each key)
    let mut collected: Vec<Violation> = sys.collected.lock().unwrap().drain(..).collect();
    collected.sort_by_key(|v| (v.case["ops"].as_array().map(|a| a.len()).unwrap_or(0), v.case["root"].as_str().unwrap_or("").to_string(), v.case["ops"].to_string()));
    out.violations.extend(collected);
    out.violations = out.violations.drain(..).map(root_cause).collect();
    let mut v5 = vec![];
    let mut c5 = Cov::new();
    k5_offset_mapper(&mut c5, &mut v5);
    let om = c5.evaluations;
    k5_row_id_index(&mut c5, &mut v5, quick);
    let ri = c5.evaluations - om;
    c5.sample(json!({"kind": "offset_mapper", "physical_rows": 8, "deleted": [1, 2, 5], "repr": "bitmap", "offsets": [0, 2, 2, 4]}));
    cov.merge(c5);
    out.violations.extend(v5);
    cov.fill(
        &mut out,
        "dataset part: BFS over all {append, delete first|mid|last, update first|last, compact} histories from the 2-fragment base table (stable row ids on/off, plain and blob variants); in every distinct state every key list of length <=3 over the state's key universe (first, last, fragment-boundary and deletion-gap rows) x {take, take_rows, take by address} x projections, every range for take_scan, blob APIs; one evaluation = one API call compared with the ordered scan; non-trivial = list of >=2 keys that is unsorted / has duplicates / the table has >1 fragment, distinct by (state, api, projection, list). pure part: OffsetMapper over all deletion subsets of 8 rows x {set,bitmap} x all non-decreasing in-range offset lists <=4; RowIdIndex over all 2-fragment id sequences on a 5-id universe x all deletion masks",
        rep.cap_hit.is_none(),
    );
    out.set("states_probed", sys.sh.evaluated.lock().unwrap().len() as u64);
    out.set("seq_states", rep.states);
    out.set("seq_transitions", rep.transitions);
    out.set("seq_level_sizes", json!(rep.level_sizes));
    out.set("seq_outcomes", json!(rep.outcomes));
    out.set("max_depth", rep.max_depth as u64);
    out.set("offset_mapper_evaluations", om);
    out.set("row_id_index_evaluations", ri);
    out.set("dead_key_behaviour_recorded_not_judged", json!(*sys.sh.dead.lock().unwrap()));
    out.set("foreign_findings", json!(*sys.sh.foreign.lock().unwrap()));
    if let Some(c) = &rep.cap_hit {
        out.set("cap_hit", c.clone());
    }
    out.assume("the ordered scan with _rowid/_rowaddr is the reference (scan == model bag is checked in every state; mismatches are foreign findings and the state is not expanded)");
    out.assume("take_blobs returns one file per non-NULL blob among the requested rows (NULL blobs have no file)");
    out.assume("only in-range / live keys are judged; behaviour on dead keys is recorded");
    out
}
