//! C42 – a copied table root is the same table (K1 on a real temp directory).
//!
//! Explicit-state search (`seqx`) over all histories up to a depth over
//! {append, delete, update, compact, create_index(k btree), tag, add_column, restore(v1)} on a table that
//! lives in a real directory under /tmp (stable row ids on / off). Every transition: copy the parent
//! state's directory to a fresh working directory, apply the op there through a fresh session and record
//! the value snapshot of the new version *at that location*; then copy the whole tree byte for byte to
//! another fresh directory, remove the working directory, open the copy with a fresh session and check:
//! the version list, every version == the snapshot recorded where it was written, tags resolve to the
//! same versions, the indexed query `k = 1` == model, `take` / `take_rows` agree with the scan,
//! `validate()`. The copy is the successor state, so chains of copies are covered as well.

use lance::dataset::builder::DatasetBuilder;
use lance::dataset::optimize::{compact_files, CompactionOptions};
use lance::dataset::{NewColumnTransform, ProjectionRequest, UpdateBuilder, WriteMode, WriteParams};
use lance_index::DatasetIndexExt;
use lance::session::Session;
use lance::Dataset;
use lance_index::scalar::ScalarIndexParams;
use lance_index::IndexType;
use serde::{Deserialize, Serialize};
use serde_json::{json, Value};
use std::collections::{BTreeMap, BTreeSet};
use std::path::{Path, PathBuf};
use std::sync::{Arc, Mutex};
use vcore::seqx::{self, Caps, Step, Sut};
use vcore::{Ctx, Outcome, Violation};
use vds::cells::Cell;
use vds::{default_rows, snap, VersionSnap};

#[derive(Clone, Debug, Serialize, Deserialize)]
pub enum Op {
    Append,
    Delete,
    Update,
    Compact,
    CreateIndex,
    Tag,
    AddColumn,
    Restore,
}

struct DirGuard(tempfile::TempDir);

impl DirGuard {
    fn new() -> Arc<Self> {
        Arc::new(Self(
            tempfile::Builder::new()
                .prefix("vx_evo_c42_")
                .tempdir_in("/tmp")
                .unwrap_or_else(|e| vcore::machinery_error(&format!("cannot create temp dir: {e}"))),
        ))
    }
    fn tbl(&self) -> PathBuf {
        self.0.path().join("tbl")
    }
}

#[derive(Clone)]
pub struct St {
    stable: bool,
    dir: Arc<DirGuard>,
    versions: BTreeMap<u64, VersionSnap>,
    tags: BTreeMap<String, u64>,
    next_uid: i32,
    has_index: bool,
    has_n1: bool,
    depth: usize,
}

fn copy_tree(from: &Path, to: &Path) -> std::io::Result<(usize, u64)> {
    std::fs::create_dir_all(to)?;
    let mut files = 0;
    let mut bytes = 0;
    let mut names: Vec<_> = std::fs::read_dir(from)?.collect::<Result<Vec<_>, _>>()?;
    names.sort_by_key(|e| e.file_name());
    for e in names {
        let p = e.path();
        let dest = to.join(e.file_name());
        if e.file_type()?.is_dir() {
            let (f, b) = copy_tree(&p, &dest)?;
            files += f;
            bytes += b;
        } else {
            let data = std::fs::read(&p)?;
            bytes += data.len() as u64;
            std::fs::write(&dest, &data)?;
            files += 1;
        }
    }
    Ok((files, bytes))
}

async fn open(path: &Path) -> lance::Result<Dataset> {
    DatasetBuilder::from_uri(path.to_str().unwrap())
        .with_session(Arc::new(Session::default()))
        .load()
        .await
}

fn wparams(mode: WriteMode, stable: bool) -> WriteParams {
    WriteParams {
        mode,
        enable_stable_row_ids: stable,
        enable_v2_manifest_paths: true,
        session: Some(Arc::new(Session::default())),
        ..Default::default()
    }
}

async fn write(path: &Path, uids: std::ops::Range<i32>, mode: WriteMode, stable: bool, with_n1: bool) -> lance::Result<Dataset> {
    let rows = default_rows(uids);
    let mut b = vds::base_batch(&rows);
    if with_n1 {
        // the table has the added column n1 (= uid + 100, int64 as DataFusion types it): supply it for new rows
        let ds = open(path).await?;
        let arrow: arrow_schema::Schema = ds.schema().into();
        let f = arrow.field_with_name("n1").map_err(|e| lance::Error::invalid_input(e.to_string(), snafu::location!()))?;
        let vals: arrow_array::ArrayRef = match f.data_type() {
            arrow_schema::DataType::Int32 => Arc::new(rows.iter().map(|r| Some(r.uid + 100)).collect::<arrow_array::Int32Array>()),
            _ => Arc::new(rows.iter().map(|r| Some(r.uid as i64 + 100)).collect::<arrow_array::Int64Array>()),
        };
        let mut fields: Vec<arrow_schema::Field> = b.schema().fields().iter().map(|x| x.as_ref().clone()).collect();
        fields.push(f.clone());
        let mut cols = b.columns().to_vec();
        cols.push(vals);
        b = arrow_array::RecordBatch::try_new(Arc::new(arrow_schema::Schema::new(fields)), cols)
            .map_err(|e| lance::Error::invalid_input(e.to_string(), snafu::location!()))?;
    }
    let schema = b.schema();
    let reader = arrow_array::RecordBatchIterator::new(vec![Ok(b)], schema);
    Dataset::write(reader, path.to_str().unwrap(), Some(wparams(mode, stable))).await
}

struct Sys {
    roots: Vec<(String, bool)>,
    stats: Mutex<BTreeMap<String, u64>>,
    foreign: Mutex<BTreeSet<String>>,
    /// engine-internal wall cap: transitions that would start after it are skipped and counted
    start: std::time::Instant,
    wall_s: f64,
    max_depth: usize,
}

impl Sys {
    fn bump(&self, k: &str, n: u64) {
        *self.stats.lock().unwrap().entry(k.to_string()).or_insert(0) += n;
    }

    /// All observations of one table location, each taken under `catch` through one fresh session:
    /// name -> {"ok": payload} | {"error": text} | {"panic": text}. Texts are normalised (digits and
    /// the temp-directory name removed) so that the same failure at two locations compares equal.
    fn observe(&self, st: &St, dir: &DirGuard) -> BTreeMap<String, Value> {
        let path = dir.tbl();
        let dir_name = dir.0.path().file_name().map(|n| n.to_string_lossy().to_string()).unwrap_or_default();
        let norm = move |m: &str| -> String {
            m.replace(&dir_name, "<dir>").chars().filter(|c| !c.is_ascii_digit()).take(160).collect()
        };
        let mut obs: BTreeMap<String, Value> = BTreeMap::new();
        fn put<T: serde::Serialize>(obs: &mut BTreeMap<String, Value>, norm: &dyn Fn(&str) -> String, name: &str, r: Result<lance::Result<T>, String>) {
            let v = match r {
                Ok(Ok(t)) => json!({"ok": t}),
                Ok(Err(e)) => json!({"error": format!("{}: {}", vds::err_class(&e), norm(&e.to_string()))}),
                Err(p) => json!({"panic": norm(&p)}),
            };
            obs.insert(name.to_string(), v);
        }
        let ds = match vds::run_catch(open(&path)) {
            Ok(Ok(d)) => {
                obs.insert("open".into(), json!({"ok": d.version().version}));
                d
            }
            other => {
                put(&mut obs, &norm, "open", other.map(|r| r.map(|d| d.version().version)));
                return obs;
            }
        };
        put(&mut obs, &norm, "versions", vds::run_catch(async { ds.versions().await.map(|v| v.iter().map(|x| x.version).collect::<Vec<u64>>()) }));
        let mut vers: BTreeSet<u64> = st.versions.keys().copied().collect();
        if let Some(l) = obs["versions"].get("ok").and_then(|v| v.as_array()) {
            vers.extend(l.iter().filter_map(|x| x.as_u64()));
        }
        for v in vers {
            put(&mut obs, &norm, &format!("version/{v}"), vds::run_catch(async { snap(&ds.checkout_version(v).await?).await }));
            self.bump("version_observations", 1);
        }
        put(
            &mut obs,
            &norm,
            "tags",
            vds::run_catch(async { ds.tags().list().await.map(|t| t.iter().map(|(k, c)| (k.clone(), c.version)).collect::<BTreeMap<String, u64>>()) }),
        );
        let mut tags: BTreeSet<String> = st.tags.keys().cloned().collect();
        if let Some(m) = obs["tags"].get("ok").and_then(|v| v.as_object()) {
            tags.extend(m.keys().cloned());
        }
        for t in tags {
            put(&mut obs, &norm, &format!("tag/{t}"), vds::run_catch(async { snap(&ds.checkout_version(t.as_str()).await?).await }));
            self.bump("tag_checkouts", 1);
        }
        put(&mut obs, &norm, "filter-k-eq-1", vds::run_catch(vds::scan_filter_cells(&ds, "k = 1")));
        put(
            &mut obs,
            &norm,
            "filter-plan-uses-index",
            vds::run_catch(async {
                let mut sc = ds.scan();
                sc.filter("k = 1")?;
                Ok(sc.explain_plan(false).await?.contains("ScalarIndexQuery"))
            }),
        );
        if obs["filter-plan-uses-index"].get("ok").and_then(|v| v.as_bool()) == Some(true) {
            self.bump("indexed_queries_using_the_index", 1);
        }
        put(
            &mut obs,
            &norm,
            "indices",
            vds::run_catch(async { ds.load_indices().await.map(|ix| ix.iter().map(|i| i.name.clone()).collect::<BTreeSet<String>>()) }),
        );
        let n = st.versions.values().last().map(|s| s.rows.len()).unwrap_or(0);
        if n > 0 {
            let offs = vec![(n - 1) as u64, 0];
            put(
                &mut obs,
                &norm,
                "take",
                vds::run_catch(async {
                    let pr = ProjectionRequest::from_columns(["uid", "k", "v"], ds.schema());
                    ds.take(&offs, pr).await.map(|b| vds::cells::batch_rows(&b))
                }),
            );
            put(
                &mut obs,
                &norm,
                "take_rows",
                vds::run_catch(async {
                    let (_, rows) = vds::scan_cells(&ds, true, false).await?;
                    let ids: Vec<u64> = rows.iter().filter_map(|r| if let Some(Cell::U(x)) = r.last() { Some(*x) } else { None }).collect();
                    if ids.is_empty() {
                        return Ok(vec![]);
                    }
                    let keys = vec![ids[ids.len() - 1], ids[0]];
                    let pr = ProjectionRequest::from_columns(["uid"], ds.schema());
                    ds.take_rows(&keys, pr).await.map(|b| vds::cells::batch_rows(&b))
                }),
            );
        }
        put(&mut obs, &norm, "validate", vds::run_catch(ds.validate()));
        obs
    }

    /// what the model expects the *original* to show (only for observations the model knows)
    fn expected(&self, st: &St) -> BTreeMap<String, Value> {
        let mut e: BTreeMap<String, Value> = BTreeMap::new();
        e.insert("versions".into(), json!({"ok": st.versions.keys().collect::<Vec<_>>()}));
        for (v, s) in &st.versions {
            e.insert(format!("version/{v}"), json!({"ok": s}));
        }
        e.insert("tags".into(), json!({"ok": st.tags}));
        for (t, v) in &st.tags {
            if let Some(s) = st.versions.get(v) {
                e.insert(format!("tag/{t}"), json!({"ok": s}));
            }
        }
        let latest = st.versions.values().last().unwrap();
        let k1: Vec<Vec<Cell>> = latest.rows.iter().filter(|r| r[1] == Cell::I(1)).cloned().collect();
        e.insert("filter-k-eq-1".into(), json!({"ok": k1}));
        let n = latest.rows.len();
        if n > 0 {
            e.insert("take".into(), json!({"ok": [latest.rows[n - 1][..3].to_vec(), latest.rows[0][..3].to_vec()]}));
            e.insert("take_rows".into(), json!({"ok": [[latest.rows[n - 1][0].clone()], [latest.rows[0][0].clone()]]}));
        }
        e.insert("validate".into(), json!({"ok": null}));
        if st.has_index {
            e.insert("filter-plan-uses-index".into(), json!({"ok": true}));
        }
        e
    }
}

fn obs_kind(name: &str) -> &str {
    name.split('/').next().unwrap_or(name)
}

fn obs_class(v: &Value) -> &'static str {
    if v.get("ok").is_some() {
        "ok"
    } else if v.get("error").is_some() {
        "error"
    } else {
        "panic"
    }
}

fn kind(op: &Op) -> &'static str {
    match op {
        Op::Append => "append",
        Op::Delete => "delete",
        Op::Update => "update",
        Op::Compact => "compact",
        Op::CreateIndex => "create_index",
        Op::Tag => "tag",
        Op::AddColumn => "add_column",
        Op::Restore => "restore",
    }
}

impl Sut for Sys {
    type State = St;
    type Op = Op;
    fn init(&self) -> Vec<(String, St)> {
        let mut out = vec![];
        for (label, stable) in &self.roots {
            let dir = DirGuard::new();
            let path = dir.tbl();
            let r = vds::run_catch(async {
                write(&path, 0..3, WriteMode::Create, *stable, false).await?;
                let d1 = open(&path).await?;
                let s1 = snap(&d1).await?;
                write(&path, 3..6, WriteMode::Append, *stable, false).await?;
                let d2 = open(&path).await?;
                let s2 = snap(&d2).await?;
                lance::Result::Ok((s1, s2))
            });
            let (s1, s2) = match r {
                Ok(Ok(x)) => x,
                other => vcore::machinery_error(&format!("cannot create base table: {:?}", other.map(|x| x.map(|_| ())))),
            };
            let mut versions = BTreeMap::new();
            versions.insert(1, s1);
            versions.insert(2, s2);
            out.push((
                label.clone(),
                St { stable: *stable, dir, versions, tags: BTreeMap::new(), next_uid: 6, has_index: false, has_n1: false, depth: 0 },
            ));
        }
        out
    }
    fn ops(&self, st: &St, _depth: usize) -> Vec<Op> {
        let latest = st.versions.values().last().unwrap();
        let mut v = vec![Op::Append];
        if !latest.rows.is_empty() {
            v.push(Op::Delete);
            v.push(Op::Update);
        }
        v.push(Op::Compact);
        if !st.has_index {
            v.push(Op::CreateIndex);
        }
        let lv = *st.versions.keys().last().unwrap();
        if !st.tags.contains_key(&format!("t{lv}")) {
            v.push(Op::Tag);
        }
        if !st.has_n1 {
            v.push(Op::AddColumn);
        }
        v.push(Op::Restore);
        v
    }
    fn op_kind(&self, op: &Op) -> String {
        kind(op).to_string()
    }
    fn canon(&self, st: &St) -> u64 {
        // versions' values + tags (+ flags); directory names are not part of the state
        let vs: Vec<(&u64, &String, &Vec<Vec<Cell>>, usize, &Vec<String>)> = st.versions.iter().map(|(k, s)| (k, &s.schema, &s.rows, s.deleted_rows, &s.indices)).collect();
        vcore::hash64(json!([st.stable, vs, st.tags, st.has_index, st.has_n1, st.next_uid]).to_string().as_bytes())
    }
    fn step(&self, st: &St, op: &Op) -> Step<St> {
        if self.start.elapsed().as_secs_f64() > self.wall_s {
            self.bump("transitions_skipped_by_wall_cap", 1);
            return Step { next: None, outcome: "skipped-by-wall-cap".into(), violations: vec![] };
        }
        let work = DirGuard::new();
        let dest = DirGuard::new();
        let mode = if st.stable { "stable" } else { "plain" };
        if let Err(e) = copy_tree(&st.dir.tbl(), &work.tbl()) {
            vcore::machinery_error(&format!("copy to working dir failed: {e}"));
        }
        let path = work.tbl();
        let latest_rows = st.versions.values().last().unwrap().rows.clone();
        let stable = st.stable;
        let has_n1 = st.has_n1;
        let next_uid = st.next_uid;
        let prev_latest = *st.versions.keys().last().unwrap();
        let op2 = op.clone();
        let r = vds::run_catch(async {
            let mut ds = open(&path).await?;
            let first_uid = latest_rows.first().map(|r| r[0].as_i64().unwrap_or(-1)).unwrap_or(-1);
            let last_uid = latest_rows.last().map(|r| r[0].as_i64().unwrap_or(-1)).unwrap_or(-1);
            match op2 {
                Op::Append => {
                    write(&path, next_uid..next_uid + 2, WriteMode::Append, stable, has_n1).await?;
                }
                Op::Delete => ds.delete(&format!("uid = {first_uid}")).await?,
                Op::Update => {
                    UpdateBuilder::new(Arc::new(ds.clone()))
                        .update_where(&format!("uid = {last_uid}"))?
                        .set("k", "k + 10")?
                        .build()?
                        .execute()
                        .await?;
                }
                Op::Compact => {
                    let o = CompactionOptions { materialize_deletions_threshold: 0.0, ..Default::default() };
                    compact_files(&mut ds, o, None).await?;
                }
                Op::CreateIndex => {
                    ds.create_index(&["k"], IndexType::BTree, Some("k_idx".into()), &ScalarIndexParams::default(), true).await?;
                }
                Op::Tag => {
                    let v = ds.version().version;
                    ds.tags().create(&format!("t{v}"), v).await?;
                }
                Op::AddColumn => {
                    ds.add_columns(NewColumnTransform::SqlExpressions(vec![("n1".into(), "uid + 100".into())]), None, None).await?;
                }
                Op::Restore => {
                    let mut old = ds.checkout_version(1).await?;
                    old.restore().await?;
                }
            }
            // every version the op created (an op may commit more than once)
            let d = open(&path).await?;
            let mut new_snaps = vec![];
            for v in d.versions().await? {
                if v.version > prev_latest {
                    let dv = d.checkout_version(v.version).await?;
                    new_snaps.push(snap(&dv).await?);
                }
            }
            lance::Result::Ok(new_snaps)
        });
        let new_snaps = match r {
            Ok(Ok(s)) => s,
            Ok(Err(e)) => {
                return Step { next: None, outcome: format!("rejected:{}", vds::err_class(&e)), violations: vec![] };
            }
            Err(p) => {
                self.foreign.lock().unwrap().insert(format!("panic in {}: {}", kind(op), p.chars().take(80).collect::<String>()));
                return Step { next: None, outcome: "op-panic".into(), violations: vec![] };
            }
        };
        let mut next = st.clone();
        match op {
            Op::Tag => {
                next.tags.insert(format!("t{prev_latest}"), prev_latest);
            }
            _ => {
                if new_snaps.is_empty() {
                    // e.g. compaction with nothing to do: same state
                    return Step { next: None, outcome: "no-new-version".into(), violations: vec![] };
                }
            }
        }
        self.bump(&format!("versions_created_by_{}", kind(op)), new_snaps.len() as u64);
        for s in &new_snaps {
            next.versions.insert(s.version, s.clone());
        }
        let latest_snap = next.versions.values().last().unwrap().clone();
        match op {
            Op::Append => next.next_uid += 2,
            Op::CreateIndex => next.has_index = true,
            Op::AddColumn => next.has_n1 = true,
            Op::Restore => {
                // the restored version carries whatever v1 had
                next.has_index = latest_snap.indices.iter().any(|i| i.starts_with("k_idx"));
                next.has_n1 = latest_snap.schema.contains("n1");
            }
            _ => {}
        }
        // byte-for-byte copy; the ORIGINAL is observed through a fresh session, then removed; the COPY is
        // observed the same way and must show exactly what the original showed (outcome class and payload)
        let copied = copy_tree(&work.tbl(), &dest.tbl());
        let (files, bytes) = match copied {
            Ok(x) => x,
            Err(e) => vcore::machinery_error(&format!("copy failed: {e}")),
        };
        self.bump("files_copied", files as u64);
        self.bump("bytes_copied", bytes);
        let orig = self.observe(&next, &work);
        drop(work);
        let copy = self.observe(&next, &dest);
        let mut viol = vec![];
        let names: BTreeSet<&String> = orig.keys().chain(copy.keys()).collect();
        for name in names {
            self.bump("observations_compared", 1);
            let (o, c) = (orig.get(name), copy.get(name));
            if o != c {
                let oc = o.map(obs_class).unwrap_or("absent");
                let cc = c.map(obs_class).unwrap_or("absent");
                let short = |v: Option<&Value>| v.map(|x| x.to_string().chars().take(300).collect::<String>()).unwrap_or("<absent>".into());
                viol.push(Violation::new(
                    "copy-vs-original",
                    &format!("{mode}/copy-differs/{}/{oc}-vs-{cc}", obs_kind(name)),
                    format!("after {}: observation {name}: original {} but copy {}", kind(op), short(o), short(c)),
                    json!({"observation": name, "original": o, "copy": c}),
                ));
            }
        }
        // what the original itself gets wrong with respect to the model belongs to other properties
        for (name, exp) in self.expected(&next) {
            if let Some(o) = orig.get(&name) {
                if *o != exp {
                    let detail: String = match o.get("ok") {
                        Some(_) => "differs from the model".to_string(),
                        None => o.to_string().chars().take(120).collect(),
                    };
                    self.foreign.lock().unwrap().insert(format!(
                        "original table ({mode}) after {}: {} {}",
                        kind(op),
                        obs_kind(&name),
                        detail
                    ));
                    self.bump("original_disagrees_with_model", 1);
                }
            }
        }
        let (_, problems) = match vds::run_catch(async {
            let d = open(&dest.tbl()).await?;
            lance::Result::Ok(vds::structure::check_struct(&d).await)
        }) {
            Ok(Ok(x)) => x,
            _ => (None, vec![]),
        };
        for p in problems {
            let p: String = p.chars().filter(|c| !c.is_ascii_digit()).take(90).collect();
            self.foreign.lock().unwrap().insert(format!("C05 O-struct on the copy: {p}"));
        }
        next.depth = st.depth + 1;
        if next.depth >= self.max_depth {
            // a state of the last level is never expanded: remove its directory now (in this worker)
            // instead of keeping hundreds of directories until the end; the state keeps an empty dir
            drop(dest);
            next.dir = DirGuard::new();
        } else {
            next.dir = dest;
        }
        Step { next: Some(next), outcome: "ok".into(), violations: viol }
    }
}

pub fn run(ctx: &Ctx) -> Outcome {
    let mut out = Outcome::new("model_checking");
    let sys = Sys {
        roots: vec![("plain".into(), false), ("stable".into(), true)],
        stats: Mutex::new(BTreeMap::new()),
        foreign: Mutex::new(BTreeSet::new()),
        start: std::time::Instant::now(),
        wall_s: if ctx.replay.is_some() { 1e9 } else { ctx.tier.pick(28.0, 760.0) },
        max_depth: if ctx.replay.is_some() { usize::MAX } else { ctx.tier.pick(3, 4) },
    };
    if let Some(art) = ctx.replay_case() {
        let key = art["key"].as_str().unwrap_or("").to_string();
        match seqx::replay(&sys, &art["case"]) {
            Ok(v) => out.violations.extend(v.into_iter().filter(|x| key.is_empty() || x.key == key)),
            Err(e) => vcore::machinery_error(&format!("replay failed: {e}")),
        }
        out.set("states", 1u64);
        out.set("transitions", 1u64);
        out.set("traces_validated_against_impl", 1u64);
        out.set("samples", json!([art["case"]]));
        out.set("exhaustive", false);
        return out;
    }
    let caps = Caps { max_depth: ctx.tier.pick(3, 4), max_states: 100_000, wall_s: ctx.tier.pick(35.0, 780.0) };
    let rep = seqx::explore(&sys, &caps, ctx.workers);
    out.violations.extend(rep.violations.iter().cloned());
    rep.fill(&mut out);
    let skipped = sys.stats.lock().unwrap().get("transitions_skipped_by_wall_cap").copied().unwrap_or(0);
    if skipped > 0 {
        out.set("exhaustive", false);
        out.set("cap_hit", format!("engine wall cap: {skipped} depth-{} transitions skipped (counted in transitions with outcome skipped-by-wall-cap, not validated)", rep.max_depth));
        let done = rep.transitions.saturating_sub(skipped);
        out.set("transitions", done);
        out.set("traces_validated_against_impl", done);
    }
    out.set("copy_stats", json!(*sys.stats.lock().unwrap()));
    out.set("foreign_findings", json!(*sys.foreign.lock().unwrap()));
    out.assume("snapshots are value snapshots (schema, ordered rows, deleted-row count, config, index names) taken where each version was written");
    out.assume("real local file system under /tmp; copies are plain recursive file copies (no links, no metadata)");
    out.assume("histories contain no branches / shallow clones (excluded by the property statement)");
    out
}
