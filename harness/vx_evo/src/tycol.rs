//! Typed test columns for C11: one extra column of a given Arrow type next to `uid:int32`.
//!
//! A row is identified by its `uid`; its value in the typed column is variant `uid % NV` of the
//! type's fixed list of boundary values (or NULL when the validity pattern says so). Everything is
//! deterministic; no random values.

use arrow_array::builder::*;
use arrow_array::types::*;
use arrow_array::*;
use arrow_buffer::NullBuffer;
use arrow_schema::{DataType, Field, Fields, Schema as ArrowSchema, TimeUnit};
use lance_encoding::version::LanceFileVersion;
use serde::{Deserialize, Serialize};
use std::sync::Arc;

pub const NV: usize = 6;

#[derive(Clone, Copy, Debug, PartialEq, Eq, Hash, PartialOrd, Ord, Serialize, Deserialize)]
pub enum Ty {
    I8,
    I16,
    I32,
    I64,
    U8,
    U64,
    F32,
    F64,
    Bool,
    Utf8,
    LargeUtf8,
    Binary,
    LargeBinary,
    Fsb3,
    Date32,
    TsUs,
    Dec128,
    DictI8Utf8,
    ListI32,
    LargeListUtf8,
    FslF32x3,
    StructAB,
    StructL,
    Null,
    /// `int32 not null` declared field (only all-valid patterns are generated for it)
    I32NotNull,
}

impl Ty {
    pub fn all() -> Vec<Ty> {
        use Ty::*;
        vec![
            I8, I16, I32, I64, U8, U64, F32, F64, Bool, Utf8, LargeUtf8, Binary, LargeBinary, Fsb3, Date32,
            TsUs, Dec128, DictI8Utf8, ListI32, LargeListUtf8, FslF32x3, StructAB, StructL, Null, I32NotNull,
        ]
    }
    /// reduced set for the deep sequence profile
    pub fn reduced() -> Vec<Ty> {
        use Ty::*;
        vec![I32, F32, Utf8, Binary, DictI8Utf8, ListI32, FslF32x3, StructAB]
    }
    pub fn name(&self) -> String {
        format!("{self:?}")
    }
    pub fn nullable(&self) -> bool {
        !matches!(self, Ty::I32NotNull)
    }
    pub fn data_type(&self) -> DataType {
        use Ty::*;
        match self {
            I8 => DataType::Int8,
            I16 => DataType::Int16,
            I32 | I32NotNull => DataType::Int32,
            I64 => DataType::Int64,
            U8 => DataType::UInt8,
            U64 => DataType::UInt64,
            F32 => DataType::Float32,
            F64 => DataType::Float64,
            Bool => DataType::Boolean,
            Utf8 => DataType::Utf8,
            LargeUtf8 => DataType::LargeUtf8,
            Binary => DataType::Binary,
            LargeBinary => DataType::LargeBinary,
            Fsb3 => DataType::FixedSizeBinary(3),
            Date32 => DataType::Date32,
            TsUs => DataType::Timestamp(TimeUnit::Microsecond, None),
            Dec128 => DataType::Decimal128(9, 2),
            DictI8Utf8 => DataType::Dictionary(Box::new(DataType::Int8), Box::new(DataType::Utf8)),
            ListI32 => DataType::List(Arc::new(Field::new("item", DataType::Int32, true))),
            LargeListUtf8 => DataType::LargeList(Arc::new(Field::new("item", DataType::Utf8, true))),
            FslF32x3 => DataType::FixedSizeList(Arc::new(Field::new("item", DataType::Float32, true)), 3),
            StructAB => DataType::Struct(Self::ab_fields()),
            StructL => DataType::Struct(Self::l_fields()),
            Null => DataType::Null,
        }
    }
    fn ab_fields() -> Fields {
        Fields::from(vec![
            Field::new("a", DataType::Int32, true),
            Field::new("b", DataType::Utf8, true),
        ])
    }
    fn l_fields() -> Fields {
        Fields::from(vec![Field::new(
            "l",
            DataType::List(Arc::new(Field::new("item", DataType::Int32, true))),
            true,
        )])
    }
    pub fn schema(&self) -> Arc<ArrowSchema> {
        Arc::new(ArrowSchema::new(vec![
            Field::new("uid", DataType::Int32, false),
            Field::new("x", self.data_type(), self.nullable()),
        ]))
    }
}

const STRS: [&str; NV] = ["", "a", "é✓", "a\0b", "the quick brown fox jumps over the lazy dog 0123456789", "b"];
const BINS: [&[u8]; NV] = [&[], &[0], &[255, 0, 1], &[b'x'], &[1, 2, 3, 4, 5, 6, 7, 8, 9, 10, 11, 12, 13, 14, 15, 16, 17], &[0, 0]];

fn prim<T: ArrowPrimitiveType>(vals: &[Option<usize>], table: [T::Native; NV]) -> PrimitiveArray<T> {
    vals.iter().map(|v| v.map(|i| table[i % NV])).collect()
}

fn list_i32(vals: &[Option<usize>]) -> ListArray {
    let table: [Vec<Option<i32>>; NV] = [
        vec![],
        vec![Some(1)],
        vec![None, Some(2)],
        vec![Some(3), Some(4), Some(5)],
        vec![None],
        vec![Some(i32::MIN), Some(i32::MAX)],
    ];
    ListArray::from_iter_primitive::<Int32Type, _, _>(vals.iter().map(|v| v.map(|i| table[i % NV].clone())))
}

/// Build the typed column for the given rows (`None` = NULL row, `Some(i)` = value variant i).
pub fn make_col(ty: Ty, vals: &[Option<usize>]) -> ArrayRef {
    use Ty::*;
    match ty {
        I8 => Arc::new(prim::<Int8Type>(vals, [0, 1, -1, i8::MIN, i8::MAX, 7])),
        I16 => Arc::new(prim::<Int16Type>(vals, [0, 1, -1, i16::MIN, i16::MAX, 300])),
        I32 | I32NotNull => Arc::new(prim::<Int32Type>(vals, [0, 1, -1, i32::MIN, i32::MAX, 70000])),
        I64 => Arc::new(prim::<Int64Type>(vals, [0, 1, -1, i64::MIN, i64::MAX, 1 << 40])),
        U8 => Arc::new(prim::<UInt8Type>(vals, [0, 1, 2, 128, u8::MAX, 7])),
        U64 => Arc::new(prim::<UInt64Type>(vals, [0, 1, 2, 1 << 63, u64::MAX, 1 << 40])),
        F32 => Arc::new(prim::<Float32Type>(
            vals,
            [0.0, -0.0, 1.5, f32::NAN, f32::NEG_INFINITY, f32::MIN_POSITIVE],
        )),
        F64 => Arc::new(prim::<Float64Type>(
            vals,
            [0.0, -0.0, 1.5, f64::NAN, f64::INFINITY, f64::MAX],
        )),
        Bool => Arc::new(
            vals.iter()
                .map(|v| v.map(|i| [true, false, false, true, true, false][i % NV]))
                .collect::<BooleanArray>(),
        ),
        Utf8 => Arc::new(vals.iter().map(|v| v.map(|i| STRS[i % NV])).collect::<StringArray>()),
        LargeUtf8 => Arc::new(
            vals.iter()
                .map(|v| v.map(|i| STRS[i % NV]))
                .collect::<LargeStringArray>(),
        ),
        Binary => Arc::new(vals.iter().map(|v| v.map(|i| BINS[i % NV])).collect::<BinaryArray>()),
        LargeBinary => Arc::new(
            vals.iter()
                .map(|v| v.map(|i| BINS[i % NV]))
                .collect::<LargeBinaryArray>(),
        ),
        Fsb3 => {
            let table: [[u8; 3]; NV] = [[0, 0, 0], [1, 2, 3], [255, 255, 255], [0, 1, 0], [b'a', b'b', b'c'], [9, 0, 9]];
            let mut b = FixedSizeBinaryBuilder::new(3);
            for v in vals {
                match v {
                    Some(i) => b.append_value(table[i % NV]).unwrap(),
                    None => b.append_null(),
                }
            }
            Arc::new(b.finish())
        }
        Date32 => Arc::new(prim::<Date32Type>(vals, [0, 1, -1, i32::MIN, i32::MAX, 19000])),
        TsUs => Arc::new(prim::<TimestampMicrosecondType>(
            vals,
            [0, 1, -1, i64::MIN, i64::MAX, 1_700_000_000_000_000],
        )),
        Dec128 => Arc::new(
            prim::<Decimal128Type>(vals, [0, 1, -1, 999_999_999, -999_999_999, 12345])
                .with_precision_and_scale(9, 2)
                .unwrap(),
        ),
        DictI8Utf8 => Arc::new(
            vals.iter()
                .map(|v| v.map(|i| STRS[i % NV]))
                .collect::<DictionaryArray<Int8Type>>(),
        ),
        ListI32 => Arc::new(list_i32(vals)),
        LargeListUtf8 => {
            let table: [Vec<Option<&str>>; NV] = [
                vec![],
                vec![Some("a")],
                vec![None, Some("")],
                vec![Some("x"), Some("yy"), Some("zzz")],
                vec![None],
                vec![Some(STRS[4])],
            ];
            let mut b = LargeListBuilder::new(StringBuilder::new());
            for v in vals {
                match v {
                    Some(i) => {
                        for it in &table[i % NV] {
                            b.values().append_option(*it);
                        }
                        b.append(true);
                    }
                    None => b.append(false),
                }
            }
            Arc::new(b.finish())
        }
        FslF32x3 => {
            let table: [[Option<f32>; 3]; NV] = [
                [Some(0.0), Some(1.0), Some(2.0)],
                [Some(f32::NAN), Some(-0.0), Some(f32::INFINITY)],
                [Some(-1.5), Some(2.5), Some(3.5)],
                [Some(f32::MAX), Some(f32::MIN), Some(0.0)],
                [Some(1e-10), Some(1e10), Some(-1e10)],
                [Some(7.0), Some(7.0), Some(7.0)],
            ];
            Arc::new(FixedSizeListArray::from_iter_primitive::<Float32Type, _, _>(
                vals.iter().map(|v| v.map(|i| table[i % NV].to_vec())),
                3,
            ))
        }
        StructAB => {
            let a_t: [Option<i32>; NV] = [Some(1), None, Some(2), None, Some(i32::MIN), Some(0)];
            let b_t: [Option<&str>; NV] = [Some("x"), Some("y"), None, None, Some(""), Some(STRS[4])];
            // children carry their variant value also under a NULL parent (not observable logically)
            let a: Int32Array = vals.iter().enumerate().map(|(r, v)| a_t[v.unwrap_or(r) % NV]).collect();
            let b: StringArray = vals.iter().enumerate().map(|(r, v)| b_t[v.unwrap_or(r) % NV]).collect();
            let nulls = NullBuffer::from(vals.iter().map(|v| v.is_some()).collect::<Vec<bool>>());
            Arc::new(StructArray::new(
                Ty::ab_fields(),
                vec![Arc::new(a), Arc::new(b)],
                Some(nulls),
            ))
        }
        StructL => {
            let inner: Vec<Option<usize>> = vals
                .iter()
                .map(|v| match v {
                    // variant 4 has a NULL list inside a valid struct
                    Some(i) if i % NV == 4 => None,
                    Some(i) => Some(*i),
                    None => None,
                })
                .collect();
            let l = list_i32(&inner);
            let nulls = NullBuffer::from(vals.iter().map(|v| v.is_some()).collect::<Vec<bool>>());
            Arc::new(StructArray::new(Ty::l_fields(), vec![Arc::new(l)], Some(nulls)))
        }
        Null => Arc::new(NullArray::new(vals.len())),
    }
}

/// One batch of rows `uids` with validity `valid` (true = value present).
pub fn make_batch(ty: Ty, uids: &[i32], valid: &[bool]) -> RecordBatch {
    let vals: Vec<Option<usize>> = uids
        .iter()
        .zip(valid.iter())
        .map(|(u, ok)| if *ok { Some(*u as usize) } else { None })
        .collect();
    RecordBatch::try_new(
        ty.schema(),
        vec![Arc::new(Int32Array::from(uids.to_vec())), make_col(ty, &vals)],
    )
    .expect("batch")
}

#[derive(Clone, Copy, Debug, PartialEq, Eq, Hash, PartialOrd, Ord, Serialize, Deserialize)]
pub enum Ver {
    Legacy,
    V2_0,
    V2_1,
    V2_2,
}

impl Ver {
    pub fn all() -> Vec<Ver> {
        vec![Ver::Legacy, Ver::V2_0, Ver::V2_1, Ver::V2_2]
    }
    pub fn lance(&self) -> LanceFileVersion {
        match self {
            Ver::Legacy => LanceFileVersion::Legacy,
            Ver::V2_0 => LanceFileVersion::V2_0,
            Ver::V2_1 => LanceFileVersion::V2_1,
            Ver::V2_2 => LanceFileVersion::V2_2,
        }
    }
    pub fn name(&self) -> String {
        format!("{self:?}")
    }
}
