//! vx_evo: see /verif/harness/AGENTS-GUIDE.md; one module per property, dispatched on the property id.

mod c11;
mod c14;
mod c15;
mod c42;
mod tycol;

use vcore::{machinery_error, Ctx};

fn main() {
    let ctx = Ctx::from_args();
    if !ctx.opts.contains_key("loud") {
        vcore::quiet_panics();
    }
    #[allow(clippy::match_single_binding)]
    let out: vcore::Outcome = match ctx.id.as_str() {
        "C11" => c11::run(&ctx),
        "C14" => c14::run(&ctx),
        "C15" => c15::run(&ctx),
        "C42" => c42::run(&ctx),
        other => machinery_error(&format!("vx_evo does not implement {other}")),
    };
    #[allow(unreachable_code)]
    vcore::finish(&ctx, out);
}
