//! K3/K4: stateless, preemption- and deviation-bounded search over the order (and the answers) of
//! gated storage calls made by 1..n actors that run the real code on one current-thread runtime.
//!
//! An *actor* is an ordinary future. Every storage call it makes through a `MemStore::view(actor,
//! gate.controller())` first asks the gate: un-gated calls proceed at once, gated calls park until
//! the explorer releases them with an `Answer`. A decision point exists only when every unfinished
//! actor is parked; the explorer releases exactly one call and waits for its effect (`Done`) before
//! looking at the next decision point, so the order of effects is a function of the choice list
//! only. Default policy: keep running the current actor, else lowest id, answer `Normal`.
//! Switching away from an actor whose call is still enabled costs one preemption; a non-`Normal`
//! answer costs one deviation. All executions within the two budgets are enumerated (DFS over
//! replay prefixes, in parallel over worker threads).

use crate::{Answer, Call, Controller};
use async_trait::async_trait;
use futures::FutureExt;
use serde::{Deserialize, Serialize};
use serde_json::{json, Value};
use std::collections::{BTreeMap, HashSet};
use std::future::Future;
use std::pin::Pin;
use std::sync::{Arc, Mutex};
use std::time::{Duration, Instant};
use tokio::sync::{mpsc, oneshot};
use vcore::Violation;

pub type ActorFut = Pin<Box<dyn Future<Output = ActorResult> + Send>>;

#[derive(Clone, Debug, Serialize, Deserialize)]
pub struct ActorResult {
    pub ok: bool,
    /// outcome class ("ok", "conflict", "error:...")
    pub label: String,
    pub detail: Value,
}

impl ActorResult {
    pub fn ok(detail: Value) -> Self {
        Self {
            ok: true,
            label: "ok".into(),
            detail,
        }
    }
    pub fn err(label: impl Into<String>, detail: Value) -> Self {
        Self {
            ok: false,
            label: label.into(),
            detail,
        }
    }
}

#[derive(Clone, Debug, Serialize, Deserialize)]
pub enum ActorEnd {
    Finished(ActorResult),
    Crashed,
    Panicked(String),
}

enum Event {
    Arrive {
        actor: usize,
        call: Call,
        reply: oneshot::Sender<Answer>,
    },
    Done {
        actor: usize,
    },
    Finished {
        actor: usize,
        end: ActorEnd,
    },
}

pub type GateFn = Arc<dyn Fn(usize, &Call) -> bool + Send + Sync>;

#[derive(Clone)]
pub struct Gate {
    tx: mpsc::UnboundedSender<Event>,
    gated: GateFn,
}

impl std::fmt::Debug for Gate {
    fn fmt(&self, f: &mut std::fmt::Formatter<'_>) -> std::fmt::Result {
        write!(f, "Gate")
    }
}

impl Gate {
    pub fn controller(&self) -> Arc<dyn Controller> {
        Arc::new(self.clone())
    }
    /// For non-object-store components (external manifest store, locks): ask for permission to
    /// perform `call`; must be followed by `done` once the effect has been applied.
    pub async fn enter(&self, actor: usize, call: &Call) -> Answer {
        self.before(actor, call).await
    }
    pub fn done(&self, actor: usize, call: &Call) {
        self.after(actor, call, true)
    }
}

#[async_trait]
impl Controller for Gate {
    async fn before(&self, actor: usize, call: &Call) -> Answer {
        if !(self.gated)(actor, call) {
            return Answer::Normal;
        }
        let (rtx, rrx) = oneshot::channel();
        if self
            .tx
            .send(Event::Arrive {
                actor,
                call: call.clone(),
                reply: rtx,
            })
            .is_err()
        {
            // explorer is gone (execution torn down): never proceed
            futures::future::pending::<()>().await;
        }
        match rrx.await {
            Ok(a) => a,
            Err(_) => {
                futures::future::pending::<()>().await;
                unreachable!()
            }
        }
    }
    fn after(&self, actor: usize, call: &Call, _ok: bool) {
        if (self.gated)(actor, call) {
            let _ = self.tx.send(Event::Done { actor });
        }
    }
}

/// One decision point of one execution.
#[derive(Clone, Debug, Serialize, Deserialize)]
pub struct PointRec {
    /// parked actors in canonical order (running actor first if still enabled, then ascending id)
    pub enabled: Vec<(usize, Call)>,
    /// per enabled actor: answers available (index 0 is always Normal)
    pub answers: Vec<Vec<Answer>>,
    pub chosen: usize,
    pub answer: usize,
    pub running_still_enabled: bool,
}

impl PointRec {
    pub fn actor(&self) -> usize {
        self.enabled[self.chosen].0
    }
    pub fn call(&self) -> &Call {
        &self.enabled[self.chosen].1
    }
    pub fn ans(&self) -> Answer {
        self.answers[self.chosen][self.answer]
    }
    pub fn norm(&self) -> String {
        format!("a{} {} [{:?}]", self.actor(), self.call().norm(), self.ans())
    }
}

pub struct Exec {
    pub points: Vec<PointRec>,
    pub ends: Vec<Option<ActorEnd>>,
    pub violations: Vec<Violation>,
    pub hang: Option<String>,
    pub state_hashes: Vec<u64>,
}

impl Exec {
    pub fn choices(&self) -> Vec<(usize, usize)> {
        self.points.iter().map(|p| (p.chosen, p.answer)).collect()
    }
    pub fn trace(&self) -> Vec<String> {
        self.points.iter().map(|p| p.norm()).collect()
    }
    pub fn outcome_label(&self) -> String {
        self.ends
            .iter()
            .map(|e| match e {
                Some(ActorEnd::Finished(r)) => r.label.clone(),
                Some(ActorEnd::Crashed) => "crashed".into(),
                Some(ActorEnd::Panicked(_)) => "panicked".into(),
                None => "unfinished".into(),
            })
            .collect::<Vec<_>>()
            .join("|")
    }
}

/// A closed system: fresh world + actors per execution, gating rule, deviations, oracles.
/// `async fn`s here run on the explorer's current-thread runtime (no `Send` needed).
#[allow(async_fn_in_trait)]
pub trait Scenario: Sync {
    type World;
    fn name(&self) -> String;
    /// build a fresh world (restore snapshots...) and the actors; actors must route their storage
    /// through `MemStore::view(actor_id, Some(gate.controller()))`
    async fn setup(&self, gate: &Gate) -> (Self::World, Vec<ActorFut>);
    /// which calls are decision points (with the independence argument documented at the impl);
    /// a pure function of (actor, call)
    fn gate_rule(&self) -> GateFn;
    /// non-Normal answers the environment may give to this call (each costs one deviation)
    fn deviations(&self, _actor: usize, _call: &Call) -> Vec<Answer> {
        vec![]
    }
    /// invariant evaluated after every released call has taken effect
    async fn monitor(&self, _w: &Self::World, _p: &PointRec) -> Vec<Violation> {
        vec![]
    }
    /// oracle at the end of the execution
    async fn final_check(&self, w: &Self::World, exec: &Exec) -> Vec<Violation>;
    /// guard of a parked call: a call whose guard is false is blocked and cannot be released
    /// (blocking primitives such as a lock that waits for its holder); all unfinished actors
    /// blocked = deadlock, reported as a hang
    fn enabled(&self, _w: &Self::World, _actor: usize, _call: &Call) -> bool {
        true
    }
    /// fingerprint of the world for the states/transitions count (over-fine is fine)
    fn state_hash(&self, _w: &Self::World) -> u64 {
        0
    }
    /// is "some actor never finishes" a violation of the property (liveness) or a machinery error?
    fn hang_is_violation(&self) -> bool {
        false
    }
}

#[derive(Clone, Debug)]
pub struct Bounds {
    pub preemptions: usize,
    pub deviations: usize,
    pub max_schedules: u64,
    pub wall_s: f64,
    pub hang_s: f64,
    pub max_points: usize,
}

impl Default for Bounds {
    fn default() -> Self {
        Self {
            preemptions: 2,
            deviations: 0,
            max_schedules: 200_000,
            wall_s: 45.0,
            hang_s: 20.0,
            max_points: 400,
        }
    }
}

#[derive(Default, Debug)]
pub struct SchedReport {
    pub schedules: u64,
    pub steps: u64,
    pub states: u64,
    pub transitions: u64,
    pub max_points: usize,
    pub outcomes: BTreeMap<String, u64>,
    pub distinct_traces: u64,
    pub violations: Vec<Violation>,
    pub samples: Vec<Value>,
    pub cap_hit: Option<String>,
    pub bounds: String,
    pub machinery_errors: Vec<String>,
}

impl SchedReport {
    pub fn merge(&mut self, o: SchedReport) {
        self.schedules += o.schedules;
        self.steps += o.steps;
        self.states += o.states;
        self.transitions += o.transitions;
        self.max_points = self.max_points.max(o.max_points);
        for (k, v) in o.outcomes {
            *self.outcomes.entry(k).or_insert(0) += v;
        }
        self.distinct_traces += o.distinct_traces;
        self.violations.extend(o.violations);
        for s in o.samples {
            if self.samples.len() < 8 {
                self.samples.push(s);
            }
        }
        if self.cap_hit.is_none() {
            self.cap_hit = o.cap_hit;
        }
        if self.bounds.is_empty() {
            self.bounds = o.bounds;
        } else if !o.bounds.is_empty() && !self.bounds.contains(&o.bounds) {
            self.bounds = format!("{}; {}", self.bounds, o.bounds);
        }
        self.machinery_errors.extend(o.machinery_errors);
    }
    pub fn fill(&self, out: &mut vcore::Outcome) {
        out.set("states", self.states.max(1));
        out.set("transitions", self.transitions.max(1));
        out.set("traces_validated_against_impl", self.schedules);
        out.set("schedules", self.schedules);
        out.set("released_calls", self.steps);
        out.set("distinct_traces", self.distinct_traces);
        out.set("max_decision_points", self.max_points as u64);
        out.set("distinct_outcomes", json!(self.outcomes));
        out.set("samples", Value::Array(self.samples.clone()));
        out.set("bounds_completed", self.bounds.clone());
        out.set("exhaustive", self.cap_hit.is_none());
        if let Some(c) = &self.cap_hit {
            out.set("cap_hit", c.clone());
        }
    }
}

/// Execute one schedule: follow `prefix`, then the default policy.
pub async fn run_one<S: Scenario>(scn: &S, prefix: &[(usize, usize)], b: &Bounds) -> Exec {
    let (tx, mut rx) = mpsc::unbounded_channel::<Event>();
    let gated: GateFn = scn.gate_rule();
    let gate = Gate { tx: tx.clone(), gated };
    let (world, actors) = scn.setup(&gate).await;
    let n = actors.len();
    let mut handles = vec![];
    for (i, fut) in actors.into_iter().enumerate() {
        let tx = tx.clone();
        handles.push(tokio::spawn(async move {
            let end = match std::panic::AssertUnwindSafe(fut).catch_unwind().await {
                Ok(r) => ActorEnd::Finished(r),
                Err(e) => ActorEnd::Panicked(vcore::panic_message(&e)),
            };
            let _ = tx.send(Event::Finished { actor: i, end });
        }));
    }
    drop(tx);
    let mut ends: Vec<Option<ActorEnd>> = vec![None; n];
    let mut parked: BTreeMap<usize, (Call, oneshot::Sender<Answer>)> = BTreeMap::new();
    let mut points: Vec<PointRec> = vec![];
    let mut violations = vec![];
    let mut hang = None;
    let mut running: Option<usize> = None;
    let mut state_hashes = vec![scn.state_hash(&world)];
    let mut awaiting_done: Option<usize> = None;
    'outer: loop {
        // wait until every unfinished actor is parked and no released call is still in flight
        while awaiting_done.is_some()
            || parked.len() + ends.iter().filter(|e| e.is_some()).count() < n
        {
            let ev = tokio::time::timeout(Duration::from_secs_f64(b.hang_s), rx.recv()).await;
            match ev {
                Err(_) => {
                    hang = Some(format!(
                        "no progress for {}s: parked={:?} finished={:?} awaiting_done={:?}",
                        b.hang_s,
                        parked.keys().collect::<Vec<_>>(),
                        ends.iter().map(|e| e.is_some()).collect::<Vec<_>>(),
                        awaiting_done
                    ));
                    break 'outer;
                }
                Ok(None) => break 'outer,
                Ok(Some(Event::Arrive { actor, call, reply })) => {
                    parked.insert(actor, (call, reply));
                }
                Ok(Some(Event::Done { actor })) => {
                    if awaiting_done == Some(actor) {
                        awaiting_done = None;
                        let p = points.last().unwrap();
                        if matches!(p.ans(), Answer::CrashBefore | Answer::CrashAfter) {
                            handles[actor].abort();
                            ends[actor] = Some(ActorEnd::Crashed);
                        }
                        violations.extend(scn.monitor(&world, p).await);
                        state_hashes.push(scn.state_hash(&world));
                    }
                }
                Ok(Some(Event::Finished { actor, end })) => {
                    if ends[actor].is_none() {
                        ends[actor] = Some(end);
                    }
                }
            }
        }
        if parked.is_empty() {
            break;
        }
        if points.len() >= b.max_points {
            hang = Some(format!("horizon of {} decision points exceeded", b.max_points));
            break;
        }
        // canonical order over the parked calls whose guard holds (e.g. a lock acquire is enabled
        // only while the lock is free); parked calls with a false guard are blocked
        let mut ids: Vec<usize> = parked
            .iter()
            .filter(|(a, (c, _))| scn.enabled(&world, **a, c))
            .map(|(a, _)| *a)
            .collect();
        if ids.is_empty() {
            hang = Some(format!(
                "deadlock: every unfinished actor is blocked: {:?}",
                parked.iter().map(|(a, (c, _))| format!("a{a} {}", c.norm())).collect::<Vec<_>>()
            ));
            break;
        }
        let running_still_enabled = running.map(|r| ids.contains(&r)).unwrap_or(false);
        if running_still_enabled {
            let r = running.unwrap();
            ids.retain(|x| *x != r);
            ids.insert(0, r);
        }
        let enabled: Vec<(usize, Call)> = ids.iter().map(|i| (*i, parked[i].0.clone())).collect();
        let answers: Vec<Vec<Answer>> = enabled
            .iter()
            .map(|(a, c)| {
                let mut v = vec![Answer::Normal];
                v.extend(scn.deviations(*a, c));
                v
            })
            .collect();
        let idx = points.len();
        let (chosen, answer) = if idx < prefix.len() {
            let (c, a) = prefix[idx];
            if c >= enabled.len() || a >= answers[c].len() {
                hang = Some(format!(
                    "REPLAY-DIVERGENCE at point {idx}: choice {:?} out of range (enabled {}, answers {:?})",
                    prefix[idx],
                    enabled.len(),
                    answers.get(c).map(|v| v.len())
                ));
                break;
            }
            (c, a)
        } else {
            (0, 0)
        };
        let rec = PointRec {
            enabled,
            answers,
            chosen,
            answer,
            running_still_enabled,
        };
        let actor = rec.actor();
        let ans = rec.ans();
        points.push(rec);
        let (_, reply) = parked.remove(&actor).unwrap();
        running = Some(actor);
        awaiting_done = Some(actor);
        let _ = reply.send(ans);
    }
    for h in &handles {
        h.abort();
    }
    let mut exec = Exec {
        points,
        ends,
        violations,
        hang,
        state_hashes,
    };
    if exec.hang.is_none() {
        let v = scn.final_check(&world, &exec).await;
        exec.violations.extend(v);
    }
    drop(world);
    exec
}

fn costs(points: &[PointRec], upto: usize) -> (usize, usize) {
    let mut pre = 0;
    let mut dev = 0;
    for p in &points[..upto] {
        if p.chosen != 0 && p.running_still_enabled {
            pre += 1;
        }
        if p.answer != 0 {
            dev += 1;
        }
    }
    (pre, dev)
}

/// Enumerate every execution within the bounds. Runs on `workers` OS threads, each with its own
/// current-thread runtime (`crate::block_on`).
pub fn explore<S: Scenario>(scn: &S, b: &Bounds, workers: usize) -> SchedReport {
    let start = Instant::now();
    let stack: Mutex<Vec<Vec<(usize, usize)>>> = Mutex::new(vec![vec![]]);
    let active = std::sync::atomic::AtomicUsize::new(0);
    let rep = Mutex::new(SchedReport::default());
    let states: Mutex<HashSet<u64>> = Mutex::new(HashSet::new());
    let edges: Mutex<HashSet<(u64, u64, u64)>> = Mutex::new(HashSet::new());
    let traces: Mutex<HashSet<u64>> = Mutex::new(HashSet::new());
    let stop = std::sync::atomic::AtomicBool::new(false);
    use std::sync::atomic::Ordering::SeqCst;

    // determinism self-check on the default schedule
    {
        let a = crate::block_on(run_one(scn, &[], b));
        let c = crate::block_on(run_one(scn, &a.choices(), b));
        if a.trace() != c.trace() {
            let mut r = SchedReport::default();
            r.machinery_errors.push(format!(
                "default schedule does not replay deterministically: {:?} vs {:?}",
                a.trace(),
                c.trace()
            ));
            return r;
        }
    }

    std::thread::scope(|s| {
        for _ in 0..workers.max(1) {
            s.spawn(|| loop {
                if stop.load(SeqCst) {
                    break;
                }
                let item = {
                    let mut st = stack.lock().unwrap();
                    let it = st.pop();
                    if it.is_some() {
                        active.fetch_add(1, SeqCst);
                    }
                    it
                };
                let prefix = match item {
                    Some(p) => p,
                    None => {
                        if active.load(SeqCst) == 0 {
                            break;
                        }
                        std::thread::sleep(Duration::from_millis(1));
                        continue;
                    }
                };
                let exec = crate::block_on(run_one(scn, &prefix, b));
                // children
                let mut children = vec![];
                let choices = exec.choices();
                for i in prefix.len()..exec.points.len() {
                    let p = &exec.points[i];
                    let (pre, dev) = costs(&exec.points, i);
                    for a in 0..p.enabled.len() {
                        for ans in 0..p.answers[a].len() {
                            if a == 0 && ans == 0 {
                                continue;
                            }
                            let cp = pre + usize::from(a != 0 && p.running_still_enabled);
                            let cd = dev + usize::from(ans != 0);
                            if cp > b.preemptions || cd > b.deviations {
                                continue;
                            }
                            let mut c = choices[..i].to_vec();
                            c.push((a, ans));
                            children.push(c);
                        }
                    }
                }
                {
                    let mut r = rep.lock().unwrap();
                    r.schedules += 1;
                    r.steps += exec.points.len() as u64;
                    r.max_points = r.max_points.max(exec.points.len());
                    *r.outcomes.entry(exec.outcome_label()).or_insert(0) += 1;
                    let tr = exec.trace();
                    let th = vcore::hash64(tr.join("\n").as_bytes());
                    if traces.lock().unwrap().insert(th) && r.samples.len() < 6 {
                        r.samples.push(json!({"choices": choices, "trace": tr, "outcome": exec.outcome_label()}));
                    }
                    if let Some(h) = &exec.hang {
                        if h.starts_with("REPLAY-DIVERGENCE") || !scn.hang_is_violation() {
                            r.machinery_errors.push(format!("{h} (choices {choices:?})"));
                        } else {
                            r.violations.push(Violation::new(
                                "liveness",
                                "hang",
                                h.clone(),
                                json!({"scenario": scn.name(), "choices": choices, "trace": tr}),
                            ));
                        }
                    }
                    for mut v in exec.violations {
                        v.case = json!({"scenario": scn.name(), "choices": choices, "trace": tr, "detail": v.case});
                        r.violations.push(v);
                    }
                    if r.schedules >= b.max_schedules {
                        r.cap_hit = Some(format!("schedule cap {} reached", b.max_schedules));
                        stop.store(true, SeqCst);
                    }
                    if start.elapsed().as_secs_f64() > b.wall_s {
                        r.cap_hit = Some(format!("wall cap {}s reached", b.wall_s));
                        stop.store(true, SeqCst);
                    }
                }
                {
                    let mut st = states.lock().unwrap();
                    let mut ed = edges.lock().unwrap();
                    for (i, h) in exec.state_hashes.iter().enumerate() {
                        // program counters are part of the state: mix in the per-actor progress
                        st.insert(*h ^ (i as u64).wrapping_mul(0x9e3779b97f4a7c15));
                        if i + 1 < exec.state_hashes.len() && i < exec.points.len() {
                            let p = &exec.points[i];
                            ed.insert((
                                *h,
                                (p.actor() as u64) << 8 | p.answer as u64,
                                exec.state_hashes[i + 1],
                            ));
                        }
                    }
                }
                {
                    let mut st = stack.lock().unwrap();
                    // push in reverse so that the simplest alternative is explored first
                    for c in children.into_iter().rev() {
                        st.push(c);
                    }
                    active.fetch_sub(1, SeqCst);
                }
            });
        }
    });
    let mut r = rep.into_inner().unwrap();
    r.states = states.into_inner().unwrap().len() as u64;
    r.transitions = edges.into_inner().unwrap().len() as u64;
    r.distinct_traces = traces.into_inner().unwrap().len() as u64;
    r.bounds = format!(
        "{}: preemptions<={} deviations<={}{}",
        scn.name(),
        b.preemptions,
        b.deviations,
        if r.cap_hit.is_some() { " (CAPPED)" } else { "" }
    );
    // confirm determinism of the first violating schedule
    if let Some(v) = r.violations.first() {
        if let Some(ch) = v.case.get("choices") {
            if let Ok(choices) = serde_json::from_value::<Vec<(usize, usize)>>(ch.clone()) {
                let a = crate::block_on(run_one(scn, &choices, b));
                let c = crate::block_on(run_one(scn, &choices, b));
                if a.trace() != c.trace() {
                    r.machinery_errors.push(format!(
                        "violating schedule does not replay deterministically: {choices:?}"
                    ));
                }
            }
        }
    }
    r
}

/// Replay one recorded choice list.
pub fn replay<S: Scenario>(scn: &S, choices: &[(usize, usize)], b: &Bounds) -> Exec {
    crate::block_on(run_one(scn, choices, b))
}
