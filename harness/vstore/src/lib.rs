//! vstore: the in-memory model of the `object_store` contract that every storage-level
//! exploration runs on, plus the cooperative scheduler / fault injector (K3/K4).
//!
//! * `MemStore`   – from-scratch `ObjectStore` (atomic put / put-if-absent / copy / rename-if-absent,
//!                  strongly consistent list, multipart invisible until complete), cheap snapshots,
//!                  harness-controlled `last_modified`, op log.
//! * `Controller` – hook consulted before every call (gate / fail / crash) and after it.
//! * `MemWrapper` – `WrappingObjectStore` that ignores the store it is given and returns the MemStore
//!                  (the public `ObjectStoreParams.object_store_wrapper` seam; no source change).
//! * `sched`      – stateless preemption- and deviation-bounded DFS over gated calls.

pub mod sched;

use async_trait::async_trait;
use bytes::Bytes;
use chrono::{DateTime, Duration, Utc};
use futures::stream::BoxStream;
use futures::StreamExt;
use object_store::path::Path;
use object_store::{
    Attributes, Error as OsError, GetOptions, GetResult, GetResultPayload, ListResult,
    MultipartUpload, ObjectMeta, ObjectStore, PutMode, PutMultipartOptions, PutOptions, PutPayload,
    PutResult, Result as OsResult, UploadPart,
};
use serde::{Deserialize, Serialize};
use std::collections::{BTreeMap, BTreeSet};
use std::future::Future;
use std::sync::{Arc, Mutex};

#[derive(Clone, Copy, Debug, PartialEq, Eq, Hash, Serialize, Deserialize, PartialOrd, Ord)]
pub enum Verb {
    Put,
    PutCreate,
    PutUpdate,
    Get,
    Head,
    List,
    ListDelim,
    Delete,
    Copy,
    CopyIfNotExists,
    Rename,
    RenameIfNotExists,
    MultipartCreate,
    MultipartPart,
    MultipartComplete,
    MultipartAbort,
    /// calls of non-object-store components that take part in the same schedule
    ExtGet,
    ExtGetLatest,
    ExtPutIfNotExists,
    ExtPutIfExists,
    ExtDelete,
    LockAcquire,
    LockRelease,
    Custom,
}

impl Verb {
    pub fn mutating(&self) -> bool {
        !matches!(
            self,
            Verb::Get | Verb::Head | Verb::List | Verb::ListDelim | Verb::ExtGet | Verb::ExtGetLatest
        )
    }
}

#[derive(Clone, Debug, Serialize, Deserialize, PartialEq, Eq, Hash)]
pub struct Call {
    pub verb: Verb,
    pub path: String,
    pub to: Option<String>,
}

impl Call {
    pub fn new(verb: Verb, path: impl Into<String>) -> Self {
        Self {
            verb,
            path: path.into(),
            to: None,
        }
    }
    pub fn norm(&self) -> String {
        match &self.to {
            Some(t) => format!("{:?} {} -> {}", self.verb, norm_path(&self.path), norm_path(t)),
            None => format!("{:?} {}", self.verb, norm_path(&self.path)),
        }
    }
}

/// Replace uuid-looking and long hex/digit runs by `U` so that traces and state fingerprints do not
/// depend on random file names.
pub fn norm_path(p: &str) -> String {
    let b = p.as_bytes();
    let mut out = String::with_capacity(p.len());
    let mut i = 0;
    while i < b.len() {
        // a run of [0-9a-f-] of length >= 16 that contains at least one hex letter or dash => U
        let mut j = i;
        while j < b.len() && (b[j].is_ascii_hexdigit() || b[j] == b'-') {
            j += 1;
        }
        let looks_random = b[i..j].iter().any(|c| c.is_ascii_alphabetic() || *c == b'-');
        if j - i >= 20 && looks_random {
            out.push('U');
            i = j;
        } else if j > i {
            out.push_str(&p[i..j]);
            i = j;
        } else {
            out.push(b[i] as char);
            i += 1;
        }
    }
    out
}

/// What the environment answers to one call.
#[derive(Clone, Copy, Debug, PartialEq, Eq, Hash, Serialize, Deserialize, PartialOrd, Ord)]
pub enum Answer {
    /// perform the call and return its result
    Normal,
    /// return an error, effect not applied
    FailBefore,
    /// apply the effect, then return an error (lost reply / the error a duplicate would see)
    FailAfter,
    /// the calling actor stops here; effect not applied
    CrashBefore,
    /// effect applied, then the calling actor stops
    CrashAfter,
    /// (read calls of an eventually consistent component) answer with the previous value
    Stale,
}

#[async_trait]
pub trait Controller: Send + Sync + std::fmt::Debug {
    /// Called before the call takes effect. May park (gating). Returns the environment's answer.
    async fn before(&self, actor: usize, call: &Call) -> Answer;
    /// Called after the effect was applied (or skipped) and the result is about to be returned.
    fn after(&self, actor: usize, call: &Call, ok: bool);
}

#[derive(Clone, Debug)]
pub struct Entry {
    pub data: Bytes,
    pub last_modified: DateTime<Utc>,
    pub e_tag: u64,
}

#[derive(Clone, Debug, Serialize, Deserialize)]
pub struct OpRec {
    pub actor: usize,
    pub call: Call,
    pub ok: bool,
    pub answer: Answer,
}

#[derive(Default)]
struct Inner {
    map: BTreeMap<Path, Entry>,
    next_etag: u64,
    /// added to `Utc::now()` when stamping new objects
    skew: Duration,
    log: Vec<OpRec>,
    log_enabled: bool,
    /// when set, `list` returns entries in this order of ranks instead of lexical order:
    /// position i of the lexical listing is emitted at rank list_perm[i % len]
    list_perm: Option<Vec<usize>>,
    uploads: BTreeMap<u64, Vec<Option<Bytes>>>,
}

/// A frozen copy of the whole store (cheap: `Bytes` is ref-counted).
#[derive(Clone, Default)]
pub struct Snapshot {
    map: BTreeMap<Path, Entry>,
    next_etag: u64,
}

impl Snapshot {
    pub fn paths(&self) -> Vec<String> {
        self.map.keys().map(|p| p.to_string()).collect()
    }
    pub fn get(&self, p: &str) -> Option<Bytes> {
        self.map.get(&Path::from(p)).map(|e| e.data.clone())
    }
    pub fn len(&self) -> usize {
        self.map.len()
    }
    pub fn is_empty(&self) -> bool {
        self.map.is_empty()
    }
    pub fn iter(&self) -> impl Iterator<Item = (String, &Entry)> {
        self.map.iter().map(|(k, v)| (k.to_string(), v))
    }
}

#[derive(Clone)]
pub struct MemStore {
    inner: Arc<Mutex<Inner>>,
    actor: usize,
    ctl: Option<Arc<dyn Controller>>,
}

impl std::fmt::Debug for MemStore {
    fn fmt(&self, f: &mut std::fmt::Formatter<'_>) -> std::fmt::Result {
        write!(f, "MemStore(actor={})", self.actor)
    }
}
impl std::fmt::Display for MemStore {
    fn fmt(&self, f: &mut std::fmt::Formatter<'_>) -> std::fmt::Result {
        write!(f, "MemStore(actor={})", self.actor)
    }
}

impl Default for MemStore {
    fn default() -> Self {
        Self::new()
    }
}

impl MemStore {
    pub fn new() -> Self {
        Self {
            inner: Arc::new(Mutex::new(Inner::default())),
            actor: 0,
            ctl: None,
        }
    }
    pub fn from_snapshot(s: &Snapshot) -> Self {
        let st = Self::new();
        st.restore(s);
        st
    }
    /// Same underlying store, calls attributed to `actor` and routed through `ctl`.
    pub fn view(&self, actor: usize, ctl: Option<Arc<dyn Controller>>) -> Self {
        Self {
            inner: self.inner.clone(),
            actor,
            ctl,
        }
    }
    pub fn snapshot(&self) -> Snapshot {
        let g = self.inner.lock().unwrap();
        Snapshot {
            map: g.map.clone(),
            next_etag: g.next_etag,
        }
    }
    pub fn restore(&self, s: &Snapshot) {
        let mut g = self.inner.lock().unwrap();
        g.map = s.map.clone();
        g.next_etag = s.next_etag;
        g.uploads.clear();
    }
    pub fn enable_log(&self, on: bool) {
        self.inner.lock().unwrap().log_enabled = on;
    }
    pub fn take_log(&self) -> Vec<OpRec> {
        std::mem::take(&mut self.inner.lock().unwrap().log)
    }
    pub fn set_list_perm(&self, p: Option<Vec<usize>>) {
        self.inner.lock().unwrap().list_perm = p;
    }
    /// Make every object currently in the store `d` older.
    pub fn age_all(&self, d: Duration) {
        let mut g = self.inner.lock().unwrap();
        for e in g.map.values_mut() {
            e.last_modified -= d;
        }
    }
    /// New objects are stamped `now + skew`.
    pub fn set_skew(&self, d: Duration) {
        self.inner.lock().unwrap().skew = d;
    }
    pub fn paths(&self) -> Vec<String> {
        self.inner
            .lock()
            .unwrap()
            .map
            .keys()
            .map(|p| p.to_string())
            .collect()
    }
    pub fn paths_under(&self, prefix: &str) -> Vec<String> {
        self.paths()
            .into_iter()
            .filter(|p| p.starts_with(prefix))
            .collect()
    }
    pub fn read(&self, p: &str) -> Option<Bytes> {
        self.inner
            .lock()
            .unwrap()
            .map
            .get(&Path::from(p))
            .map(|e| e.data.clone())
    }
    pub fn exists(&self, p: &str) -> bool {
        self.inner.lock().unwrap().map.contains_key(&Path::from(p))
    }
    /// Direct (un-gated, un-logged) write used by harnesses to forge objects.
    pub fn write_raw(&self, p: &str, data: Bytes) {
        let mut g = self.inner.lock().unwrap();
        let e = g.next_etag;
        g.next_etag += 1;
        let lm = Utc::now() + g.skew;
        g.map.insert(
            Path::from(p),
            Entry {
                data,
                last_modified: lm,
                e_tag: e,
            },
        );
    }
    pub fn remove_raw(&self, p: &str) -> bool {
        self.inner.lock().unwrap().map.remove(&Path::from(p)).is_some()
    }
    /// Fingerprint of the store content that ignores random names: multiset of (normalised path, size).
    pub fn shape_hash(&self) -> u64 {
        let g = self.inner.lock().unwrap();
        let mut acc: u64 = 0;
        for (k, v) in g.map.iter() {
            let s = format!("{}#{}", norm_path(k.as_ref()), v.data.len());
            acc = acc.wrapping_add(vcore::hash64(s.as_bytes()).wrapping_mul(0x9e3779b97f4a7c15));
        }
        acc
    }

    async fn before(&self, call: &Call) -> Answer {
        match &self.ctl {
            Some(c) => c.before(self.actor, call).await,
            None => Answer::Normal,
        }
    }
    fn after(&self, call: &Call, ok: bool, answer: Answer) {
        {
            let mut g = self.inner.lock().unwrap();
            if g.log_enabled {
                g.log.push(OpRec {
                    actor: self.actor,
                    call: call.clone(),
                    ok,
                    answer,
                });
            }
        }
        if let Some(c) = &self.ctl {
            c.after(self.actor, call, ok);
        }
    }

    /// Run one call under the controller: `effect` applies the call atomically to the store.
    async fn run<T: Send>(
        &self,
        call: Call,
        effect: impl FnOnce(&mut Inner) -> OsResult<T> + Send,
    ) -> OsResult<T> {
        let ans = self.before(&call).await;
        match ans {
            Answer::Normal | Answer::Stale => {
                let r = {
                    let mut g = self.inner.lock().unwrap();
                    effect(&mut g)
                };
                self.after(&call, r.is_ok(), ans);
                r
            }
            Answer::FailBefore => {
                self.after(&call, false, ans);
                Err(injected(&call, "fail-before"))
            }
            Answer::FailAfter => {
                let r = {
                    let mut g = self.inner.lock().unwrap();
                    effect(&mut g)
                };
                self.after(&call, false, ans);
                match r {
                    // the effect itself failed: report the real error
                    Err(e) => Err(e),
                    Ok(_) => Err(injected(&call, "fail-after (reply lost)")),
                }
            }
            Answer::CrashBefore => {
                self.after(&call, false, ans);
                futures::future::pending::<()>().await;
                unreachable!()
            }
            Answer::CrashAfter => {
                let _ = {
                    let mut g = self.inner.lock().unwrap();
                    effect(&mut g)
                };
                self.after(&call, false, ans);
                futures::future::pending::<()>().await;
                unreachable!()
            }
        }
    }
}

pub fn injected(call: &Call, what: &str) -> OsError {
    OsError::Generic {
        store: "MemStore",
        source: format!("injected fault: {what} on {}", call.norm()).into(),
    }
}

impl Inner {
    fn stamp(&mut self, data: Bytes) -> Entry {
        let e = self.next_etag;
        self.next_etag += 1;
        Entry {
            data,
            last_modified: Utc::now() + self.skew,
            e_tag: e,
        }
    }
    fn entry(&self, p: &Path) -> OsResult<Entry> {
        self.map.get(p).cloned().ok_or_else(|| OsError::NotFound {
            path: p.to_string(),
            source: "not found in MemStore".into(),
        })
    }
    fn meta(p: &Path, e: &Entry) -> ObjectMeta {
        ObjectMeta {
            location: p.clone(),
            last_modified: e.last_modified,
            size: e.data.len() as u64,
            e_tag: Some(e.e_tag.to_string()),
            version: None,
        }
    }
    fn listing(&self, prefix: &Path) -> Vec<ObjectMeta> {
        let mut v: Vec<ObjectMeta> = self
            .map
            .range(prefix.clone()..)
            .take_while(|(k, _)| k.as_ref().starts_with(prefix.as_ref()))
            .filter(|(k, _)| {
                k.prefix_match(prefix)
                    .map(|mut x| x.next().is_some())
                    .unwrap_or(false)
            })
            .map(|(k, e)| Self::meta(k, e))
            .collect();
        if let Some(perm) = &self.list_perm {
            if !perm.is_empty() && v.len() > 1 {
                // stable re-ordering by the rank assigned to each lexical position
                let mut idx: Vec<usize> = (0..v.len()).collect();
                idx.sort_by_key(|i| (perm[*i % perm.len()], *i));
                let old = v.clone();
                v = idx.into_iter().map(|i| old[i].clone()).collect();
            }
        }
        v
    }
}

fn payload_bytes(p: PutPayload) -> Bytes {
    Bytes::from(p)
}

#[async_trait]
impl ObjectStore for MemStore {
    async fn put_opts(
        &self,
        location: &Path,
        payload: PutPayload,
        opts: PutOptions,
    ) -> OsResult<PutResult> {
        let verb = match opts.mode {
            PutMode::Overwrite => Verb::Put,
            PutMode::Create => Verb::PutCreate,
            PutMode::Update(_) => Verb::PutUpdate,
        };
        let data = payload_bytes(payload);
        let loc = location.clone();
        self.run(Call::new(verb, location.to_string()), move |g| {
            match opts.mode {
                PutMode::Overwrite => {}
                PutMode::Create => {
                    if g.map.contains_key(&loc) {
                        return Err(OsError::AlreadyExists {
                            path: loc.to_string(),
                            source: "exists".into(),
                        });
                    }
                }
                PutMode::Update(v) => {
                    let cur = g.map.get(&loc).ok_or_else(|| OsError::Precondition {
                        path: loc.to_string(),
                        source: "missing".into(),
                    })?;
                    if Some(cur.e_tag.to_string()) != v.e_tag {
                        return Err(OsError::Precondition {
                            path: loc.to_string(),
                            source: "etag mismatch".into(),
                        });
                    }
                }
            }
            let e = g.stamp(data);
            let tag = e.e_tag;
            g.map.insert(loc, e);
            Ok(PutResult {
                e_tag: Some(tag.to_string()),
                version: None,
            })
        })
        .await
    }

    async fn put_multipart_opts(
        &self,
        location: &Path,
        _opts: PutMultipartOptions,
    ) -> OsResult<Box<dyn MultipartUpload>> {
        let id = self
            .run(Call::new(Verb::MultipartCreate, location.to_string()), |g| {
                let id = g.next_etag;
                g.next_etag += 1;
                g.uploads.insert(id, vec![]);
                Ok(id)
            })
            .await?;
        Ok(Box::new(MemUpload {
            store: self.clone(),
            location: location.clone(),
            id,
            next_part: 0,
        }))
    }

    async fn get_opts(&self, location: &Path, options: GetOptions) -> OsResult<GetResult> {
        let loc = location.clone();
        let verb = if options.head { Verb::Head } else { Verb::Get };
        self.run(Call::new(verb, location.to_string()), move |g| {
            let entry = g.entry(&loc)?;
            let meta = Inner::meta(&loc, &entry);
            options.check_preconditions(&meta)?;
            let (range, data) = match options.range {
                Some(range) => {
                    let r = range
                        .as_range(entry.data.len() as u64)
                        .map_err(|source| OsError::Generic {
                            store: "MemStore",
                            source: Box::new(source),
                        })?;
                    (
                        r.clone(),
                        entry.data.slice(r.start as usize..r.end as usize),
                    )
                }
                None => (0..entry.data.len() as u64, entry.data.clone()),
            };
            let stream = futures::stream::once(futures::future::ready(Ok(data)));
            Ok(GetResult {
                payload: GetResultPayload::Stream(stream.boxed()),
                attributes: Attributes::default(),
                meta,
                range,
            })
        })
        .await
    }

    async fn head(&self, location: &Path) -> OsResult<ObjectMeta> {
        let loc = location.clone();
        self.run(Call::new(Verb::Head, location.to_string()), move |g| {
            let e = g.entry(&loc)?;
            Ok(Inner::meta(&loc, &e))
        })
        .await
    }

    async fn delete(&self, location: &Path) -> OsResult<()> {
        let loc = location.clone();
        self.run(Call::new(Verb::Delete, location.to_string()), move |g| {
            g.map.remove(&loc);
            Ok(())
        })
        .await
    }

    fn list(&self, prefix: Option<&Path>) -> BoxStream<'static, OsResult<ObjectMeta>> {
        let prefix = prefix.cloned().unwrap_or_default();
        let this = self.clone();
        futures::stream::once(async move {
            let p2 = prefix.clone();
            let r = this
                .run(Call::new(Verb::List, prefix.to_string()), move |g| {
                    Ok(g.listing(&p2))
                })
                .await;
            match r {
                Ok(v) => futures::stream::iter(v.into_iter().map(Ok)).boxed(),
                Err(e) => futures::stream::once(futures::future::ready(Err(e))).boxed(),
            }
        })
        .flatten()
        .boxed()
    }

    async fn list_with_delimiter(&self, prefix: Option<&Path>) -> OsResult<ListResult> {
        let prefix = prefix.cloned().unwrap_or_default();
        let p2 = prefix.clone();
        self.run(Call::new(Verb::ListDelim, prefix.to_string()), move |g| {
            let mut common_prefixes = BTreeSet::new();
            let mut objects = vec![];
            for (k, v) in g.map.range(p2.clone()..) {
                if !k.as_ref().starts_with(p2.as_ref()) {
                    break;
                }
                let mut parts = match k.prefix_match(&p2) {
                    Some(parts) => parts,
                    None => continue,
                };
                let common_prefix = match parts.next() {
                    Some(p) => p,
                    None => continue,
                };
                if parts.next().is_some() {
                    common_prefixes.insert(p2.child(common_prefix));
                } else {
                    objects.push(Inner::meta(k, v));
                }
            }
            Ok(ListResult {
                objects,
                common_prefixes: common_prefixes.into_iter().collect(),
            })
        })
        .await
    }

    async fn copy(&self, from: &Path, to: &Path) -> OsResult<()> {
        let (f, t) = (from.clone(), to.clone());
        let mut call = Call::new(Verb::Copy, from.to_string());
        call.to = Some(to.to_string());
        self.run(call, move |g| {
            let e = g.entry(&f)?;
            let ne = g.stamp(e.data);
            g.map.insert(t, ne);
            Ok(())
        })
        .await
    }

    async fn rename(&self, from: &Path, to: &Path) -> OsResult<()> {
        let (f, t) = (from.clone(), to.clone());
        let mut call = Call::new(Verb::Rename, from.to_string());
        call.to = Some(to.to_string());
        self.run(call, move |g| {
            let e = g.entry(&f)?;
            let ne = g.stamp(e.data);
            g.map.remove(&f);
            g.map.insert(t, ne);
            Ok(())
        })
        .await
    }

    async fn copy_if_not_exists(&self, from: &Path, to: &Path) -> OsResult<()> {
        let (f, t) = (from.clone(), to.clone());
        let mut call = Call::new(Verb::CopyIfNotExists, from.to_string());
        call.to = Some(to.to_string());
        self.run(call, move |g| {
            let e = g.entry(&f)?;
            if g.map.contains_key(&t) {
                return Err(OsError::AlreadyExists {
                    path: t.to_string(),
                    source: "exists".into(),
                });
            }
            let ne = g.stamp(e.data);
            g.map.insert(t, ne);
            Ok(())
        })
        .await
    }

    async fn rename_if_not_exists(&self, from: &Path, to: &Path) -> OsResult<()> {
        let (f, t) = (from.clone(), to.clone());
        let mut call = Call::new(Verb::RenameIfNotExists, from.to_string());
        call.to = Some(to.to_string());
        self.run(call, move |g| {
            let e = g.entry(&f)?;
            if g.map.contains_key(&t) {
                return Err(OsError::AlreadyExists {
                    path: t.to_string(),
                    source: "exists".into(),
                });
            }
            let ne = g.stamp(e.data);
            g.map.remove(&f);
            g.map.insert(t, ne);
            Ok(())
        })
        .await
    }
}

#[derive(Debug)]
struct MemUpload {
    store: MemStore,
    location: Path,
    id: u64,
    next_part: usize,
}

#[async_trait]
impl MultipartUpload for MemUpload {
    fn put_part(&mut self, payload: PutPayload) -> UploadPart {
        let idx = self.next_part;
        self.next_part += 1;
        let store = self.store.clone();
        let id = self.id;
        let loc = self.location.to_string();
        let data = payload_bytes(payload);
        Box::pin(async move {
            store
                .run(Call::new(Verb::MultipartPart, loc), move |g| {
                    let parts = g.uploads.get_mut(&id).ok_or_else(|| OsError::Generic {
                        store: "MemStore",
                        source: "upload aborted or unknown".into(),
                    })?;
                    if parts.len() <= idx {
                        parts.resize(idx + 1, None);
                    }
                    parts[idx] = Some(data);
                    Ok(())
                })
                .await
        })
    }

    async fn complete(&mut self) -> OsResult<PutResult> {
        let id = self.id;
        let loc = self.location.clone();
        self.store
            .run(
                Call::new(Verb::MultipartComplete, self.location.to_string()),
                move |g| {
                    let parts = g.uploads.remove(&id).ok_or_else(|| OsError::Generic {
                        store: "MemStore",
                        source: "upload aborted or unknown".into(),
                    })?;
                    let mut buf = Vec::new();
                    for (i, p) in parts.into_iter().enumerate() {
                        match p {
                            Some(b) => buf.extend_from_slice(&b),
                            None => {
                                return Err(OsError::Generic {
                                    store: "MemStore",
                                    source: format!("part {i} missing at complete").into(),
                                })
                            }
                        }
                    }
                    let e = g.stamp(Bytes::from(buf));
                    let tag = e.e_tag;
                    g.map.insert(loc, e);
                    Ok(PutResult {
                        e_tag: Some(tag.to_string()),
                        version: None,
                    })
                },
            )
            .await
    }

    async fn abort(&mut self) -> OsResult<()> {
        let id = self.id;
        self.store
            .run(
                Call::new(Verb::MultipartAbort, self.location.to_string()),
                move |g| {
                    g.uploads.remove(&id);
                    Ok(())
                },
            )
            .await
    }
}

/// The public seam: `ObjectStoreParams.object_store_wrapper = Some(Arc::new(MemWrapper(store)))`.
#[derive(Debug, Clone)]
pub struct MemWrapper(pub MemStore);

impl lance_io::object_store::WrappingObjectStore for MemWrapper {
    fn wrap(&self, _prefix: &str, _original: Arc<dyn ObjectStore>) -> Arc<dyn ObjectStore> {
        Arc::new(self.0.clone())
    }
}

thread_local! {
    static RT: tokio::runtime::Runtime = tokio::runtime::Builder::new_current_thread()
        .enable_all()
        .build()
        .expect("tokio runtime");
}

/// Run a future to completion on this thread's private current-thread runtime.
pub fn block_on<F: Future>(f: F) -> F::Output {
    RT.with(|rt| rt.block_on(f))
}
