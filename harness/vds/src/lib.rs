//! vds: fixtures shared by every dataset-level exploration.
//!
//! * `Env`      – a MemStore plus the Lance parameters that route *all* I/O of a table to it
//! * base table – `uid:int32 not null` (identity, never rewritten), `k:int32?`, `v:utf8?`
//! * `snap`     – value snapshot of one checked-out version (schema, ordered rows, config, indices)
//! * `structure`– O-struct (C05) and a normalised structural summary used in canonical state forms
//! * `cells`/`pred` – plain-Rust values and the three-valued reference evaluator

pub mod cells;
pub mod pred;
pub mod structure;

use arrow_array::{Int32Array, RecordBatch, RecordBatchIterator, StringArray};
use arrow_schema::{DataType, Field, Schema as ArrowSchema};
use cells::Cell;
use futures::TryStreamExt;
use lance::dataset::builder::DatasetBuilder;
use lance::dataset::{ReadParams, WriteMode, WriteParams};
use lance::session::Session;
use lance::Dataset;
use lance_io::object_store::ObjectStoreParams;
use serde::{Deserialize, Serialize};
use std::collections::BTreeMap;
use std::sync::Arc;
use vstore::{Controller, MemStore, MemWrapper};

pub use vstore::block_on;

pub type LResult<T> = lance::Result<T>;

/// One shared in-memory object store and the parameters that make Lance use it.
#[derive(Clone)]
pub struct Env {
    pub store: MemStore,
}

impl Default for Env {
    fn default() -> Self {
        Self::new()
    }
}

impl Env {
    pub fn new() -> Self {
        Self {
            store: MemStore::new(),
        }
    }
    pub fn from_store(store: MemStore) -> Self {
        Self { store }
    }
    /// Same store seen by `actor` through `ctl` (gating / fault injection).
    pub fn actor(&self, actor: usize, ctl: Option<Arc<dyn Controller>>) -> Self {
        Self {
            store: self.store.view(actor, ctl),
        }
    }
    pub fn store_params(&self) -> ObjectStoreParams {
        ObjectStoreParams {
            object_store_wrapper: Some(Arc::new(MemWrapper(self.store.clone()))),
            ..Default::default()
        }
    }
    /// Fresh default session (nothing cached from earlier steps).
    pub fn fresh_session(&self) -> Arc<Session> {
        Arc::new(Session::default())
    }
    pub fn write_params(&self, mode: WriteMode) -> WriteParams {
        WriteParams {
            mode,
            store_params: Some(self.store_params()),
            session: Some(self.fresh_session()),
            ..Default::default()
        }
    }
    pub fn read_params(&self) -> ReadParams {
        ReadParams {
            store_options: Some(self.store_params()),
            session: Some(self.fresh_session()),
            ..Default::default()
        }
    }
    pub fn builder(&self, uri: &str) -> DatasetBuilder {
        DatasetBuilder::from_uri(uri).with_read_params(self.read_params())
    }
    pub async fn open(&self, uri: &str) -> LResult<Dataset> {
        self.builder(uri).load().await
    }
    pub async fn open_version(&self, uri: &str, v: u64) -> LResult<Dataset> {
        self.builder(uri).with_version(v).load().await
    }
    pub async fn open_with_session(&self, uri: &str, session: Arc<Session>) -> LResult<Dataset> {
        let rp = ReadParams {
            store_options: Some(self.store_params()),
            session: Some(session),
            ..Default::default()
        };
        DatasetBuilder::from_uri(uri).with_read_params(rp).load().await
    }
    /// Create / append / overwrite with explicit params (`p.store_params` is overwritten).
    pub async fn write(&self, uri: &str, batches: Vec<RecordBatch>, mut p: WriteParams) -> LResult<Dataset> {
        p.store_params = Some(self.store_params());
        if p.session.is_none() {
            p.session = Some(self.fresh_session());
        }
        let schema = batches
            .first()
            .map(|b| b.schema())
            .unwrap_or_else(|| Arc::new(base_schema()));
        let reader = RecordBatchIterator::new(batches.into_iter().map(Ok), schema);
        Dataset::write(reader, uri, Some(p)).await
    }
}

pub const URI: &str = "memory://tbl";

// ------------------------------------------------------------------------------------------------
// base table family

pub fn base_schema() -> ArrowSchema {
    ArrowSchema::new(vec![
        Field::new("uid", DataType::Int32, false),
        Field::new("k", DataType::Int32, true),
        Field::new("v", DataType::Utf8, true),
    ])
}

#[derive(Clone, Debug, PartialEq, Eq, Hash, PartialOrd, Ord, Serialize, Deserialize)]
pub struct MRow {
    pub uid: i32,
    pub k: Option<i32>,
    pub v: Option<String>,
}

impl MRow {
    pub fn new(uid: i32, k: Option<i32>, v: Option<&str>) -> Self {
        Self {
            uid,
            k,
            v: v.map(|s| s.to_string()),
        }
    }
    pub fn cells(&self) -> Vec<Cell> {
        vec![
            Cell::I(self.uid as i64),
            self.k.map(|x| Cell::I(x as i64)).unwrap_or(Cell::Null),
            self.v.clone().map(Cell::S).unwrap_or(Cell::Null),
        ]
    }
    pub fn get(&self, col: &str) -> Cell {
        match col {
            "uid" => Cell::I(self.uid as i64),
            "k" => self.k.map(|x| Cell::I(x as i64)).unwrap_or(Cell::Null),
            "v" => self.v.clone().map(Cell::S).unwrap_or(Cell::Null),
            _ => Cell::Big(format!("<no column {col}>")),
        }
    }
    pub fn from_cells(c: &[Cell]) -> Option<Self> {
        Some(Self {
            uid: c.first()?.as_i64()? as i32,
            k: match c.get(1)? {
                Cell::Null => None,
                x => Some(x.as_i64()? as i32),
            },
            v: match c.get(2)? {
                Cell::Null => None,
                x => Some(x.as_str()?.to_string()),
            },
        })
    }
}

pub fn base_batch(rows: &[MRow]) -> RecordBatch {
    RecordBatch::try_new(
        Arc::new(base_schema()),
        vec![
            Arc::new(Int32Array::from(rows.iter().map(|r| r.uid).collect::<Vec<_>>())),
            Arc::new(Int32Array::from(rows.iter().map(|r| r.k).collect::<Vec<_>>())),
            Arc::new(StringArray::from(
                rows.iter().map(|r| r.v.clone()).collect::<Vec<_>>(),
            )),
        ],
    )
    .unwrap()
}

/// Deterministic default content for a fresh uid: k cycles through {0,1,2,NULL}, v through {"a","b",NULL,""}.
pub fn default_row(uid: i32) -> MRow {
    let k = match uid.rem_euclid(4) {
        0 => Some(0),
        1 => Some(1),
        2 => Some(2),
        _ => None,
    };
    let v = match (uid / 2).rem_euclid(4) {
        0 => Some("a"),
        1 => Some("b"),
        2 => None,
        _ => Some(""),
    };
    MRow::new(uid, k, v)
}

pub fn default_rows(uids: std::ops::Range<i32>) -> Vec<MRow> {
    uids.map(default_row).collect()
}

/// Base layouts: (label, fragments as uid ranges)
pub fn layout(name: &str) -> Vec<std::ops::Range<i32>> {
    match name {
        "L1" => vec![0..3],
        "L2" => vec![0..3, 3..6],
        "L3" => vec![0..2, 2..4, 4..6],
        _ => panic!("unknown layout {name}"),
    }
}

#[derive(Clone, Debug)]
pub struct TableOpts {
    pub stable_row_ids: bool,
    pub storage_version: Option<lance_file::version::LanceFileVersion>,
    pub v2_manifest_paths: bool,
}

impl Default for TableOpts {
    fn default() -> Self {
        Self {
            stable_row_ids: false,
            storage_version: None,
            v2_manifest_paths: true,
        }
    }
}

/// Create the base table with one fragment per uid range (create + appends => versions 1..=n).
pub async fn create_base(env: &Env, uri: &str, frags: &[std::ops::Range<i32>], o: &TableOpts) -> LResult<Dataset> {
    let mut ds = None;
    for (i, r) in frags.iter().enumerate() {
        let mut p = env.write_params(if i == 0 { WriteMode::Create } else { WriteMode::Append });
        p.enable_stable_row_ids = o.stable_row_ids;
        p.data_storage_version = o.storage_version;
        p.enable_v2_manifest_paths = o.v2_manifest_paths;
        ds = Some(env.write(uri, vec![base_batch(&default_rows(r.clone()))], p).await?);
    }
    Ok(ds.expect("at least one fragment"))
}

// ------------------------------------------------------------------------------------------------
// reading

/// Ordered full scan as cells (columns in schema order), optionally with `_rowid` / `_rowaddr` appended.
pub async fn scan_cells(ds: &Dataset, with_row_id: bool, with_row_addr: bool) -> LResult<(Vec<String>, Vec<Vec<Cell>>)> {
    let mut sc = ds.scan();
    sc.scan_in_order(true);
    if with_row_id {
        sc.with_row_id();
    }
    if with_row_addr {
        sc.with_row_address();
    }
    let batches: Vec<RecordBatch> = sc.try_into_stream().await?.try_collect().await?;
    let cols = batches
        .first()
        .map(cells::batch_cols)
        .unwrap_or_else(|| ds.schema().fields.iter().map(|f| f.name.clone()).collect());
    Ok((cols, cells::batches_rows(&batches)))
}

pub async fn scan_filter_cells(ds: &Dataset, filter: &str) -> LResult<Vec<Vec<Cell>>> {
    let mut sc = ds.scan();
    sc.scan_in_order(true);
    sc.filter(filter)?;
    let batches: Vec<RecordBatch> = sc.try_into_stream().await?.try_collect().await?;
    Ok(cells::batches_rows(&batches))
}

/// Ordered scan of the base table as model rows.
pub async fn scan_base(ds: &Dataset) -> LResult<Vec<MRow>> {
    let (_, rows) = scan_cells(ds, false, false).await?;
    Ok(rows
        .iter()
        .map(|r| MRow::from_cells(r).expect("base table row"))
        .collect())
}

/// Value snapshot of one checked-out version.
#[derive(Clone, Debug, PartialEq, Eq, Hash, Serialize, Deserialize)]
pub struct VersionSnap {
    pub version: u64,
    pub schema: String,
    pub rows: Vec<Vec<Cell>>,
    pub deleted_rows: usize,
    pub config: BTreeMap<String, String>,
    pub indices: Vec<String>,
}

pub async fn snap(ds: &Dataset) -> LResult<VersionSnap> {
    use lance_index::DatasetIndexExt;
    let (_, rows) = scan_cells(ds, false, false).await?;
    let arrow: ArrowSchema = ds.schema().into();
    let mut indices: Vec<String> = ds
        .load_indices()
        .await?
        .iter()
        .map(|i| format!("{}:{:?}", i.name, i.fields))
        .collect();
    indices.sort();
    Ok(VersionSnap {
        version: ds.version().version,
        schema: cells::schema_sig(&arrow),
        rows,
        deleted_rows: ds.count_deleted_rows().await?,
        config: ds.config().iter().map(|(k, v)| (k.clone(), v.clone())).collect(),
        indices,
    })
}

/// Compare two snapshots ignoring the version number; returns a description of the first difference.
pub fn snap_diff(a: &VersionSnap, b: &VersionSnap) -> Option<String> {
    if a.schema != b.schema {
        return Some(format!("schema {} vs {}", a.schema, b.schema));
    }
    if a.rows != b.rows {
        return Some(format!("rows {:?} vs {:?}", a.rows, b.rows));
    }
    if a.deleted_rows != b.deleted_rows {
        return Some(format!("deleted {} vs {}", a.deleted_rows, b.deleted_rows));
    }
    if a.config != b.config {
        return Some(format!("config {:?} vs {:?}", a.config, b.config));
    }
    if a.indices != b.indices {
        return Some(format!("indices {:?} vs {:?}", a.indices, b.indices));
    }
    None
}

/// Error class of a Lance error (first path segment of the variant), for outcome histograms.
pub fn err_class(e: &lance::Error) -> String {
    let s = format!("{e:?}");
    s.split(|c: char| !c.is_alphanumeric())
        .next()
        .unwrap_or("Error")
        .to_string()
}

/// Run `f` on this thread's runtime, catching panics of the code under test.
pub fn run_catch<T>(f: impl std::future::Future<Output = T>) -> Result<T, String> {
    vcore::catch(|| block_on(f))
}
