//! O-struct: the structural well-formedness oracle of C05, evaluated on one checked-out version,
//! and a normalised structural summary (random names removed) for canonical state forms.

use lance::Dataset;
use lance_index::DatasetIndexExt;
use lance_table::format::RowIdMeta;
use serde::{Deserialize, Serialize};
use std::collections::{BTreeMap, BTreeSet};

#[derive(Clone, Debug, PartialEq, Eq, Hash, Serialize, Deserialize)]
pub struct FragSummary {
    pub id: u64,
    /// per data file: (field ids, major, minor)
    pub files: Vec<(Vec<i32>, u32, u32)>,
    pub physical_rows: Option<usize>,
    pub deleted: Vec<u32>,
    pub row_ids: Option<Vec<u64>>,
}

#[derive(Clone, Debug, PartialEq, Eq, Hash, Serialize, Deserialize)]
pub struct StructSummary {
    pub field_ids: Vec<(i32, String)>,
    pub frags: Vec<FragSummary>,
    pub max_fragment_id: Option<u32>,
    pub next_row_id: u64,
    pub reader_flags: u64,
    pub writer_flags: u64,
    /// (name, fields, fragment bitmap, dataset_version)
    pub indices: Vec<(String, Vec<i32>, Option<Vec<u32>>, u64)>,
    pub config: BTreeMap<String, String>,
}

/// Load the structural summary and, on the way, evaluate every O-struct rule.
/// Returns (summary, problems). `problems` empty = version is well formed.
pub async fn check_struct(ds: &Dataset) -> (Option<StructSummary>, Vec<String>) {
    let mut problems = vec![];
    let m = ds.manifest();
    let stable = m.uses_stable_row_ids();

    // schema field ids unique
    let mut field_ids: Vec<(i32, String)> = vec![];
    let mut seen = BTreeSet::new();
    for f in m.schema.fields_pre_order() {
        if !seen.insert(f.id) {
            problems.push(format!("duplicate schema field id {} ({})", f.id, f.name));
        }
        field_ids.push((f.id, f.name.clone()));
    }
    let live_ids: BTreeSet<i32> = seen.clone();

    let mut frags = vec![];
    let mut prev_id: Option<u64> = None;
    let mut all_row_ids: BTreeMap<u64, u64> = BTreeMap::new();
    for frag in m.fragments.iter() {
        if let Some(p) = prev_id {
            if frag.id <= p {
                problems.push(format!("fragment ids not strictly increasing: {} after {}", frag.id, p));
            }
        }
        prev_id = Some(frag.id);
        match m.max_fragment_id {
            Some(mx) if frag.id > mx as u64 => problems.push(format!(
                "fragment id {} above recorded max_fragment_id {}",
                frag.id, mx
            )),
            None => problems.push(format!("fragment {} present but max_fragment_id is None", frag.id)),
            _ => {}
        }
        // no live field stored by two data files
        let mut stored: BTreeSet<i32> = BTreeSet::new();
        for df in &frag.files {
            for fid in &df.fields {
                if *fid >= 0 && live_ids.contains(fid) && !stored.insert(*fid) {
                    problems.push(format!(
                        "fragment {}: live field id {} stored by two data files",
                        frag.id, fid
                    ));
                }
            }
        }
        // (a schema field stored by no data file is legitimate: metadata-only all-null columns)
        let ff = match ds.get_fragment(frag.id as usize) {
            Some(ff) => ff,
            None => {
                problems.push(format!("fragment {} not retrievable", frag.id));
                continue;
            }
        };
        // data files' row count == physical_rows (FileFragment::validate checks all files agree)
        if let Err(e) = ff.validate().await {
            problems.push(format!("fragment {} fails validate(): {e}", frag.id));
        }
        let phys = frag.physical_rows;
        if phys.is_none() {
            problems.push(format!("fragment {} has no physical_rows", frag.id));
        }
        let mut deleted: Vec<u32> = vec![];
        match ff.get_deletion_vector().await {
            Ok(Some(dv)) => {
                deleted = dv.to_sorted_iter().collect();
                if let Some(p) = phys {
                    if let Some(bad) = deleted.iter().find(|d| (**d as usize) >= p) {
                        problems.push(format!(
                            "fragment {}: deletion vector names row {} >= physical_rows {}",
                            frag.id, bad, p
                        ));
                    }
                }
                if let Some(df) = &frag.deletion_file {
                    if let Some(n) = df.num_deleted_rows {
                        if n != deleted.len() {
                            problems.push(format!(
                                "fragment {}: deletion file says {} rows, vector has {}",
                                frag.id,
                                n,
                                deleted.len()
                            ));
                        }
                    }
                }
            }
            Ok(None) => {
                if frag.deletion_file.is_some() {
                    problems.push(format!("fragment {}: deletion file named but no vector loaded", frag.id));
                }
            }
            Err(e) => problems.push(format!("fragment {}: deletion vector unreadable: {e}", frag.id)),
        }
        // stable row ids: exactly one id per physical row, < next_row_id, unique across fragments
        let mut row_ids = None;
        if stable {
            match &frag.row_id_meta {
                None => problems.push(format!("fragment {}: stable row ids on but no row id sequence", frag.id)),
                Some(RowIdMeta::Inline(data)) => match lance_table::rowids::read_row_ids(data) {
                    Ok(seq) => {
                        let ids: Vec<u64> = seq.iter().collect();
                        if let Some(p) = phys {
                            // the sequence covers the *live* rows or all physical rows depending on
                            // whether deletions were applied to it; both occur legitimately
                            let live = p - deleted.len();
                            if ids.len() != p && ids.len() != live {
                                problems.push(format!(
                                    "fragment {}: {} row ids for {} physical / {} live rows",
                                    frag.id,
                                    ids.len(),
                                    p,
                                    live
                                ));
                            }
                        }
                        for (pos, id) in ids.iter().enumerate() {
                            if *id >= m.next_row_id {
                                problems.push(format!(
                                    "fragment {}: row id {} >= next_row_id {}",
                                    frag.id, id, m.next_row_id
                                ));
                            }
                            // ids of deleted positions may legitimately be re-homed by an update
                            let is_deleted = ids.len() == phys.unwrap_or(usize::MAX)
                                && deleted.binary_search(&(pos as u32)).is_ok();
                            if !is_deleted {
                                if let Some(other) = all_row_ids.insert(*id, frag.id) {
                                    problems.push(format!(
                                        "row id {} live in two places (fragments {} and {})",
                                        id, other, frag.id
                                    ));
                                }
                            }
                        }
                        row_ids = Some(ids);
                    }
                    Err(e) => problems.push(format!("fragment {}: row id sequence unreadable: {e}", frag.id)),
                },
                Some(RowIdMeta::External(_)) => {}
            }
        }
        frags.push(FragSummary {
            id: frag.id,
            files: frag
                .files
                .iter()
                .map(|d| (d.fields.clone(), d.file_major_version, d.file_minor_version))
                .collect(),
            physical_rows: phys,
            deleted,
            row_ids,
        });
    }

    // index metadata names only schema fields
    let mut indices = vec![];
    match ds.load_indices().await {
        Ok(idx) => {
            for i in idx.iter() {
                for f in &i.fields {
                    if !live_ids.contains(f) {
                        problems.push(format!("index {} names field id {} not in schema", i.name, f));
                    }
                }
                indices.push((
                    i.name.clone(),
                    i.fields.clone(),
                    i.fragment_bitmap.as_ref().map(|b| b.iter().collect::<Vec<u32>>()),
                    i.dataset_version,
                ));
            }
        }
        Err(e) => problems.push(format!("load_indices failed: {e}")),
    }
    indices.sort();

    if let Err(e) = ds.validate().await {
        problems.push(format!("validate() failed: {e}"));
    }

    // count_rows == sum(physical - deleted)
    let expect: usize = frags
        .iter()
        .map(|f| f.physical_rows.unwrap_or(0) - f.deleted.len().min(f.physical_rows.unwrap_or(0)))
        .sum();
    match ds.count_rows(None).await {
        Ok(n) if n != expect => problems.push(format!(
            "count_rows {} != sum(physical - deleted) {}",
            n, expect
        )),
        Err(e) => problems.push(format!("count_rows failed: {e}")),
        _ => {}
    }

    let summary = StructSummary {
        field_ids,
        frags,
        max_fragment_id: m.max_fragment_id,
        next_row_id: m.next_row_id,
        reader_flags: m.reader_feature_flags,
        writer_flags: m.writer_feature_flags,
        indices,
        config: m.config.iter().map(|(k, v)| (k.clone(), v.clone())).collect(),
    };
    (Some(summary), problems)
}

pub fn hash_of<T: Serialize>(t: &T) -> u64 {
    vcore::hash64(serde_json::to_string(t).unwrap_or_default().as_bytes())
}
