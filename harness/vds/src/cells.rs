//! Arrow <-> plain-Rust value conversion used by every reference model.

use arrow_array::cast::AsArray;
use arrow_array::types::*;
use arrow_array::{Array, ArrayRef, RecordBatch};
use arrow_schema::DataType;
use serde::{Deserialize, Serialize};

/// A logical value. Floats are kept as canonical f64 bit patterns so that `Cell` is `Eq + Ord + Hash`
/// (all NaNs are one value; -0.0 and +0.0 stay distinct).
#[derive(Clone, Debug, PartialEq, Eq, Hash, PartialOrd, Ord, Serialize, Deserialize)]
pub enum Cell {
    Null,
    Bool(bool),
    I(i64),
    U(u64),
    F(u64),
    S(String),
    B(Vec<u8>),
    /// i128 decimals and anything else wide, rendered as text
    Big(String),
    L(Vec<Cell>),
    St(Vec<(String, Cell)>),
}

impl Cell {
    pub fn f(v: f64) -> Self {
        if v.is_nan() {
            Cell::F(f64::NAN.to_bits())
        } else {
            Cell::F(v.to_bits())
        }
    }
    pub fn s(v: &str) -> Self {
        Cell::S(v.to_string())
    }
    pub fn as_f64(&self) -> Option<f64> {
        match self {
            Cell::F(b) => Some(f64::from_bits(*b)),
            Cell::I(i) => Some(*i as f64),
            Cell::U(u) => Some(*u as f64),
            _ => None,
        }
    }
    pub fn as_i64(&self) -> Option<i64> {
        match self {
            Cell::I(i) => Some(*i),
            Cell::U(u) => i64::try_from(*u).ok(),
            _ => None,
        }
    }
    pub fn as_str(&self) -> Option<&str> {
        match self {
            Cell::S(s) => Some(s),
            _ => None,
        }
    }
    pub fn is_null(&self) -> bool {
        matches!(self, Cell::Null)
    }
}

macro_rules! prim {
    ($arr:expr, $t:ty, $f:expr) => {{
        let a = $arr.as_primitive::<$t>();
        (0..a.len())
            .map(|i| if a.is_null(i) { Cell::Null } else { $f(a.value(i)) })
            .collect()
    }};
}

/// Convert any supported Arrow array to cells (logical values; offsets/garbage are not observable).
pub fn array_to_cells(arr: &dyn Array) -> Vec<Cell> {
    match arr.data_type() {
        DataType::Null => vec![Cell::Null; arr.len()],
        DataType::Boolean => {
            let a = arr.as_boolean();
            (0..a.len())
                .map(|i| if a.is_null(i) { Cell::Null } else { Cell::Bool(a.value(i)) })
                .collect()
        }
        DataType::Int8 => prim!(arr, Int8Type, |v| Cell::I(v as i64)),
        DataType::Int16 => prim!(arr, Int16Type, |v| Cell::I(v as i64)),
        DataType::Int32 => prim!(arr, Int32Type, |v| Cell::I(v as i64)),
        DataType::Int64 => prim!(arr, Int64Type, Cell::I),
        DataType::UInt8 => prim!(arr, UInt8Type, |v| Cell::U(v as u64)),
        DataType::UInt16 => prim!(arr, UInt16Type, |v| Cell::U(v as u64)),
        DataType::UInt32 => prim!(arr, UInt32Type, |v| Cell::U(v as u64)),
        DataType::UInt64 => prim!(arr, UInt64Type, Cell::U),
        DataType::Float16 => prim!(arr, Float16Type, |v: half::f16| Cell::f(v.to_f64())),
        DataType::Float32 => prim!(arr, Float32Type, |v: f32| Cell::f(v as f64)),
        DataType::Float64 => prim!(arr, Float64Type, Cell::f),
        DataType::Date32 => prim!(arr, Date32Type, |v| Cell::I(v as i64)),
        DataType::Date64 => prim!(arr, Date64Type, Cell::I),
        DataType::Time32(arrow_schema::TimeUnit::Second) => {
            prim!(arr, Time32SecondType, |v| Cell::I(v as i64))
        }
        DataType::Time32(_) => prim!(arr, Time32MillisecondType, |v| Cell::I(v as i64)),
        DataType::Time64(arrow_schema::TimeUnit::Microsecond) => {
            prim!(arr, Time64MicrosecondType, Cell::I)
        }
        DataType::Time64(_) => prim!(arr, Time64NanosecondType, Cell::I),
        DataType::Timestamp(u, _) => match u {
            arrow_schema::TimeUnit::Second => prim!(arr, TimestampSecondType, Cell::I),
            arrow_schema::TimeUnit::Millisecond => prim!(arr, TimestampMillisecondType, Cell::I),
            arrow_schema::TimeUnit::Microsecond => prim!(arr, TimestampMicrosecondType, Cell::I),
            arrow_schema::TimeUnit::Nanosecond => prim!(arr, TimestampNanosecondType, Cell::I),
        },
        DataType::Duration(u) => match u {
            arrow_schema::TimeUnit::Second => prim!(arr, DurationSecondType, Cell::I),
            arrow_schema::TimeUnit::Millisecond => prim!(arr, DurationMillisecondType, Cell::I),
            arrow_schema::TimeUnit::Microsecond => prim!(arr, DurationMicrosecondType, Cell::I),
            arrow_schema::TimeUnit::Nanosecond => prim!(arr, DurationNanosecondType, Cell::I),
        },
        DataType::Decimal128(_, _) => {
            prim!(arr, Decimal128Type, |v: i128| Cell::Big(v.to_string()))
        }
        DataType::Decimal256(_, _) => {
            prim!(arr, Decimal256Type, |v: arrow_buffer::i256| Cell::Big(v.to_string()))
        }
        DataType::Utf8 => {
            let a = arr.as_string::<i32>();
            (0..a.len())
                .map(|i| if a.is_null(i) { Cell::Null } else { Cell::s(a.value(i)) })
                .collect()
        }
        DataType::LargeUtf8 => {
            let a = arr.as_string::<i64>();
            (0..a.len())
                .map(|i| if a.is_null(i) { Cell::Null } else { Cell::s(a.value(i)) })
                .collect()
        }
        DataType::Utf8View => {
            let a = arr.as_string_view();
            (0..a.len())
                .map(|i| if a.is_null(i) { Cell::Null } else { Cell::s(a.value(i)) })
                .collect()
        }
        DataType::Binary => {
            let a = arr.as_binary::<i32>();
            (0..a.len())
                .map(|i| if a.is_null(i) { Cell::Null } else { Cell::B(a.value(i).to_vec()) })
                .collect()
        }
        DataType::LargeBinary => {
            let a = arr.as_binary::<i64>();
            (0..a.len())
                .map(|i| if a.is_null(i) { Cell::Null } else { Cell::B(a.value(i).to_vec()) })
                .collect()
        }
        DataType::BinaryView => {
            let a = arr.as_binary_view();
            (0..a.len())
                .map(|i| if a.is_null(i) { Cell::Null } else { Cell::B(a.value(i).to_vec()) })
                .collect()
        }
        DataType::FixedSizeBinary(_) => {
            let a = arr.as_fixed_size_binary();
            (0..a.len())
                .map(|i| if a.is_null(i) { Cell::Null } else { Cell::B(a.value(i).to_vec()) })
                .collect()
        }
        DataType::Dictionary(_, value_type) => {
            match arrow_cast::cast(arr, value_type) {
                Ok(c) => array_to_cells(c.as_ref()),
                Err(e) => vec![Cell::Big(format!("<dictionary cast failed: {e}>")); arr.len()],
            }
        }
        DataType::List(_) => {
            let a = arr.as_list::<i32>();
            (0..a.len())
                .map(|i| {
                    if a.is_null(i) {
                        Cell::Null
                    } else {
                        Cell::L(array_to_cells(a.value(i).as_ref()))
                    }
                })
                .collect()
        }
        DataType::LargeList(_) => {
            let a = arr.as_list::<i64>();
            (0..a.len())
                .map(|i| {
                    if a.is_null(i) {
                        Cell::Null
                    } else {
                        Cell::L(array_to_cells(a.value(i).as_ref()))
                    }
                })
                .collect()
        }
        DataType::FixedSizeList(_, _) => {
            let a = arr.as_fixed_size_list();
            (0..a.len())
                .map(|i| {
                    if a.is_null(i) {
                        Cell::Null
                    } else {
                        Cell::L(array_to_cells(a.value(i).as_ref()))
                    }
                })
                .collect()
        }
        DataType::Struct(fields) => {
            let a = arr.as_struct();
            let cols: Vec<Vec<Cell>> = a.columns().iter().map(|c| array_to_cells(c.as_ref())).collect();
            (0..a.len())
                .map(|i| {
                    if a.is_null(i) {
                        Cell::Null
                    } else {
                        Cell::St(
                            fields
                                .iter()
                                .enumerate()
                                .map(|(j, f)| (f.name().clone(), cols[j][i].clone()))
                                .collect(),
                        )
                    }
                })
                .collect()
        }
        other => vec![Cell::Big(format!("<unsupported type {other}>")); arr.len()],
    }
}

pub fn column_cells(arr: &ArrayRef) -> Vec<Cell> {
    array_to_cells(arr.as_ref())
}

/// Rows of a batch: one Vec<Cell> per row, columns in schema order.
pub fn batch_rows(b: &RecordBatch) -> Vec<Vec<Cell>> {
    let cols: Vec<Vec<Cell>> = b.columns().iter().map(column_cells).collect();
    (0..b.num_rows())
        .map(|i| cols.iter().map(|c| c[i].clone()).collect())
        .collect()
}

pub fn batches_rows(bs: &[RecordBatch]) -> Vec<Vec<Cell>> {
    bs.iter().flat_map(batch_rows).collect()
}

/// Column names of a batch (top level).
pub fn batch_cols(b: &RecordBatch) -> Vec<String> {
    b.schema().fields().iter().map(|f| f.name().clone()).collect()
}

/// Sorted copy (bag comparison).
pub fn bag(mut rows: Vec<Vec<Cell>>) -> Vec<Vec<Cell>> {
    rows.sort();
    rows
}

/// Type signature of a schema without metadata (names, types, nullability), for snapshots.
pub fn schema_sig(s: &arrow_schema::Schema) -> String {
    fn f(fld: &arrow_schema::Field) -> String {
        format!(
            "{}:{}{}",
            fld.name(),
            dt(fld.data_type()),
            if fld.is_nullable() { "?" } else { "" }
        )
    }
    fn dt(d: &DataType) -> String {
        match d {
            DataType::Struct(fs) => format!(
                "struct<{}>",
                fs.iter().map(|x| f(x)).collect::<Vec<_>>().join(",")
            ),
            DataType::List(x) => format!("list<{}>", f(x)),
            DataType::LargeList(x) => format!("large_list<{}>", f(x)),
            DataType::FixedSizeList(x, n) => format!("fsl<{};{}>", f(x), n),
            other => format!("{other}"),
        }
    }
    s.fields().iter().map(|x| f(x)).collect::<Vec<_>>().join(",")
}
