//! A tiny predicate / expression AST with a Kleene three-valued evaluator written here (it does not
//! call DataFusion) and a printer to Lance's SQL dialect. Oracle for C12/C16/C19/C20/C29 and for
//! every history exploration that deletes or updates by predicate.
//!
//! Conventions (confirmed by probe on the pinned tree): floats compare by Arrow's total order
//! (NaN = NaN, NaN greatest, -0 < +0); NULL handling is standard Kleene logic.

use crate::cells::Cell;
use serde::{Deserialize, Serialize};
use std::cmp::Ordering;

#[derive(Clone, Debug, PartialEq, Eq, Hash, Serialize, Deserialize)]
pub enum Expr {
    Col(String),
    Lit(Cell),
    /// integer addition (NULL-propagating, i64 wrapping is out of the alphabets used)
    Add(Box<Expr>, Box<Expr>),
    /// string concatenation
    Concat(Box<Expr>, Box<Expr>),
}

#[derive(Clone, Copy, Debug, PartialEq, Eq, Hash, Serialize, Deserialize)]
pub enum CmpOp {
    Eq,
    Ne,
    Lt,
    Le,
    Gt,
    Ge,
}

#[derive(Clone, Debug, PartialEq, Eq, Hash, Serialize, Deserialize)]
pub enum Pred {
    True,
    False,
    Cmp(Expr, CmpOp, Expr),
    IsNull(Expr),
    IsNotNull(Expr),
    In(Expr, Vec<Cell>),
    Between(Expr, Cell, Cell),
    Not(Box<Pred>),
    And(Box<Pred>, Box<Pred>),
    Or(Box<Pred>, Box<Pred>),
    /// `(p) IS TRUE` / `(p) IS FALSE`  (two-valued results)
    IsTrue(Box<Pred>),
    IsFalse(Box<Pred>),
    /// boolean column used as a predicate
    BoolCol(String),
}

pub fn col(n: &str) -> Expr {
    Expr::Col(n.to_string())
}
pub fn lit_i(v: i64) -> Expr {
    Expr::Lit(Cell::I(v))
}
pub fn lit_s(v: &str) -> Expr {
    Expr::Lit(Cell::s(v))
}

/// total order on comparable cells; None when not comparable / NULL involved
pub fn cell_cmp(a: &Cell, b: &Cell) -> Option<Ordering> {
    use Cell::*;
    match (a, b) {
        (Null, _) | (_, Null) => None,
        (I(x), I(y)) => Some(x.cmp(y)),
        (U(x), U(y)) => Some(x.cmp(y)),
        (I(x), U(y)) => Some((*x as i128).cmp(&(*y as i128))),
        (U(x), I(y)) => Some((*x as i128).cmp(&(*y as i128))),
        (F(x), F(y)) => Some(f64::from_bits(*x).total_cmp(&f64::from_bits(*y))),
        (F(x), I(y)) => Some(f64::from_bits(*x).total_cmp(&(*y as f64))),
        (I(x), F(y)) => Some((*x as f64).total_cmp(&f64::from_bits(*y))),
        (F(x), U(y)) => Some(f64::from_bits(*x).total_cmp(&(*y as f64))),
        (U(x), F(y)) => Some((*x as f64).total_cmp(&f64::from_bits(*y))),
        (S(x), S(y)) => Some(x.as_bytes().cmp(y.as_bytes())),
        (B(x), B(y)) => Some(x.cmp(y)),
        (Bool(x), Bool(y)) => Some(x.cmp(y)),
        (Big(x), Big(y)) => match (x.parse::<i128>(), y.parse::<i128>()) {
            (Ok(p), Ok(q)) => Some(p.cmp(&q)),
            _ => None,
        },
        _ => None,
    }
}

impl Expr {
    pub fn eval(&self, row: &dyn Fn(&str) -> Cell) -> Cell {
        match self {
            Expr::Col(c) => row(c),
            Expr::Lit(v) => v.clone(),
            Expr::Add(a, b) => match (a.eval(row), b.eval(row)) {
                (Cell::I(x), Cell::I(y)) => Cell::I(x.wrapping_add(y)),
                (Cell::F(x), Cell::F(y)) => Cell::f(f64::from_bits(x) + f64::from_bits(y)),
                (Cell::Null, _) | (_, Cell::Null) => Cell::Null,
                (x, y) => Cell::Big(format!("<bad add {x:?} {y:?}>")),
            },
            Expr::Concat(a, b) => match (a.eval(row), b.eval(row)) {
                (Cell::S(x), Cell::S(y)) => Cell::S(format!("{x}{y}")),
                (Cell::Null, _) | (_, Cell::Null) => Cell::Null,
                (x, y) => Cell::Big(format!("<bad concat {x:?} {y:?}>")),
            },
        }
    }
    pub fn sql(&self) -> String {
        match self {
            Expr::Col(c) => c.clone(),
            Expr::Lit(v) => lit_sql(v),
            Expr::Add(a, b) => format!("({} + {})", a.sql(), b.sql()),
            Expr::Concat(a, b) => format!("({} || {})", a.sql(), b.sql()),
        }
    }
    pub fn columns(&self, out: &mut Vec<String>) {
        match self {
            Expr::Col(c) => out.push(c.clone()),
            Expr::Lit(_) => {}
            Expr::Add(a, b) | Expr::Concat(a, b) => {
                a.columns(out);
                b.columns(out);
            }
        }
    }
}

pub fn lit_sql(v: &Cell) -> String {
    match v {
        Cell::Null => "NULL".into(),
        Cell::Bool(b) => if *b { "TRUE" } else { "FALSE" }.into(),
        Cell::I(i) => i.to_string(),
        Cell::U(u) => u.to_string(),
        Cell::F(b) => {
            let f = f64::from_bits(*b);
            if f.is_nan() {
                "CAST('NaN' AS DOUBLE)".into()
            } else if f.is_infinite() {
                if f > 0.0 {
                    "CAST('inf' AS DOUBLE)".into()
                } else {
                    "CAST('-inf' AS DOUBLE)".into()
                }
            } else if f == 0.0 && f.is_sign_negative() {
                "-0.0".into()
            } else {
                format!("{f:?}")
            }
        }
        Cell::S(s) => format!("'{}'", s.replace('\'', "''")),
        Cell::B(b) => format!("X'{}'", b.iter().map(|x| format!("{x:02x}")).collect::<String>()),
        Cell::Big(s) => s.clone(),
        Cell::L(_) | Cell::St(_) => "<unsupported literal>".into(),
    }
}

impl Pred {
    /// Kleene evaluation: Some(true) / Some(false) / None (= NULL)
    pub fn eval(&self, row: &dyn Fn(&str) -> Cell) -> Option<bool> {
        match self {
            Pred::True => Some(true),
            Pred::False => Some(false),
            Pred::Cmp(a, op, b) => {
                let o = cell_cmp(&a.eval(row), &b.eval(row))?;
                Some(match op {
                    CmpOp::Eq => o == Ordering::Equal,
                    CmpOp::Ne => o != Ordering::Equal,
                    CmpOp::Lt => o == Ordering::Less,
                    CmpOp::Le => o != Ordering::Greater,
                    CmpOp::Gt => o == Ordering::Greater,
                    CmpOp::Ge => o != Ordering::Less,
                })
            }
            Pred::IsNull(e) => Some(e.eval(row).is_null()),
            Pred::IsNotNull(e) => Some(!e.eval(row).is_null()),
            Pred::In(e, list) => {
                let v = e.eval(row);
                if v.is_null() {
                    return None;
                }
                let mut saw_null = false;
                for l in list {
                    if l.is_null() {
                        saw_null = true;
                    } else if cell_cmp(&v, l) == Some(Ordering::Equal) {
                        return Some(true);
                    }
                }
                if saw_null {
                    None
                } else {
                    Some(false)
                }
            }
            Pred::Between(e, lo, hi) => {
                let v = e.eval(row);
                let a = cell_cmp(&v, lo).map(|o| o != Ordering::Less);
                let b = cell_cmp(&v, hi).map(|o| o != Ordering::Greater);
                and3(a, b)
            }
            Pred::Not(p) => p.eval(row).map(|b| !b),
            Pred::And(a, b) => and3(a.eval(row), b.eval(row)),
            Pred::Or(a, b) => or3(a.eval(row), b.eval(row)),
            Pred::IsTrue(p) => Some(p.eval(row) == Some(true)),
            Pred::IsFalse(p) => Some(p.eval(row) == Some(false)),
            Pred::BoolCol(c) => match row(c) {
                Cell::Bool(b) => Some(b),
                _ => None,
            },
        }
    }

    pub fn sql(&self) -> String {
        match self {
            Pred::True => "true".into(),
            Pred::False => "false".into(),
            Pred::Cmp(a, op, b) => {
                let o = match op {
                    CmpOp::Eq => "=",
                    CmpOp::Ne => "<>",
                    CmpOp::Lt => "<",
                    CmpOp::Le => "<=",
                    CmpOp::Gt => ">",
                    CmpOp::Ge => ">=",
                };
                format!("({} {} {})", a.sql(), o, b.sql())
            }
            Pred::IsNull(e) => format!("({} IS NULL)", e.sql()),
            Pred::IsNotNull(e) => format!("({} IS NOT NULL)", e.sql()),
            Pred::In(e, l) => format!(
                "({} IN ({}))",
                e.sql(),
                l.iter().map(lit_sql).collect::<Vec<_>>().join(", ")
            ),
            Pred::Between(e, lo, hi) => {
                format!("({} BETWEEN {} AND {})", e.sql(), lit_sql(lo), lit_sql(hi))
            }
            Pred::Not(p) => format!("(NOT {})", p.sql()),
            Pred::And(a, b) => format!("({} AND {})", a.sql(), b.sql()),
            Pred::Or(a, b) => format!("({} OR {})", a.sql(), b.sql()),
            Pred::IsTrue(p) => format!("({} IS TRUE)", p.sql()),
            Pred::IsFalse(p) => format!("({} IS FALSE)", p.sql()),
            Pred::BoolCol(c) => c.clone(),
        }
    }

    pub fn has_negation(&self) -> bool {
        match self {
            Pred::Not(_) | Pred::Cmp(_, CmpOp::Ne, _) | Pred::IsFalse(_) => true,
            Pred::And(a, b) | Pred::Or(a, b) => a.has_negation() || b.has_negation(),
            Pred::IsTrue(p) => p.has_negation(),
            _ => false,
        }
    }

    pub fn columns(&self) -> Vec<String> {
        fn go(p: &Pred, out: &mut Vec<String>) {
            match p {
                Pred::True | Pred::False => {}
                Pred::Cmp(a, _, b) => {
                    a.columns(out);
                    b.columns(out);
                }
                Pred::IsNull(e) | Pred::IsNotNull(e) | Pred::In(e, _) | Pred::Between(e, _, _) => {
                    e.columns(out)
                }
                Pred::Not(p) | Pred::IsTrue(p) | Pred::IsFalse(p) => go(p, out),
                Pred::And(a, b) | Pred::Or(a, b) => {
                    go(a, out);
                    go(b, out);
                }
                Pred::BoolCol(c) => out.push(c.clone()),
            }
        }
        let mut v = vec![];
        go(self, &mut v);
        v.sort();
        v.dedup();
        v
    }
}

pub fn and3(a: Option<bool>, b: Option<bool>) -> Option<bool> {
    match (a, b) {
        (Some(false), _) | (_, Some(false)) => Some(false),
        (Some(true), Some(true)) => Some(true),
        _ => None,
    }
}
pub fn or3(a: Option<bool>, b: Option<bool>) -> Option<bool> {
    match (a, b) {
        (Some(true), _) | (_, Some(true)) => Some(true),
        (Some(false), Some(false)) => Some(false),
        _ => None,
    }
}

#[cfg(test)]
mod tests {
    use super::*;
    #[test]
    fn kleene() {
        let row = |c: &str| if c == "k" { Cell::Null } else { Cell::I(1) };
        let p = Pred::Cmp(col("k"), CmpOp::Eq, lit_i(1));
        assert_eq!(p.eval(&row), None);
        assert_eq!(Pred::Not(Box::new(p.clone())).eval(&row), None);
        assert_eq!(
            Pred::Or(Box::new(p.clone()), Box::new(Pred::True)).eval(&row),
            Some(true)
        );
        assert_eq!(Pred::IsTrue(Box::new(p)).eval(&row), Some(false));
    }
}
