//! C04 – no lost updates (K2).
//!
//! Row sets include "whole fragment + part of the other" ({0,1,2,3}, {2,3,4,5}).
//! All ordered pairs (quick) and triples over a reduced set alphabet (thorough) of
//! delete(S) / update(S) / merge_insert(keys S; full = RewriteRows, partial = RewriteColumns) on
//! stale handles pinned at the base version of L2 (uids 0-2 | 3-5), stable row ids on/off,
//! `conflict_retries` 0 (raw verdict) and default (re-execution allowed).

use crate::k2::*;
use vcore::{Ctx, Outcome};

pub fn sets_full() -> Vec<Vec<i32>> {
    vec![
        vec![0],
        vec![0, 1],
        vec![1, 2],
        vec![2, 3],
        vec![0, 1, 2],
        vec![3, 4, 5],
        vec![],
        vec![0, 1, 2, 3, 4, 5],
        // a whole fragment plus part of the other one: the transaction drops fragment X entirely
        // (removed_fragment_ids) and rewrites only the deletion vector of Y
        vec![0, 1, 2, 3],
        vec![2, 3, 4, 5],
    ]
}

pub fn sets_small() -> Vec<Vec<i32>> {
    vec![vec![0, 1], vec![2, 3], vec![0, 1, 2], vec![3, 4, 5]]
}

/// ops of one position (`pos` makes written values distinguishable between the writers)
pub fn alphabet(sets: &[Vec<i32>], pos: usize, with_delete_all: bool) -> Vec<Op> {
    let tag = 100 * (pos as i32 + 1);
    let mut v = vec![];
    for s in sets {
        v.push(Op::Delete { s: s.clone() });
    }
    if with_delete_all {
        v.push(Op::DeleteAll);
    }
    for s in sets {
        v.push(Op::Update { s: s.clone(), tag });
    }
    for s in sets {
        if !s.is_empty() {
            v.push(Op::Merge { s: s.clone(), tag, partial: false, insert: true });
        }
    }
    for s in sets {
        if !s.is_empty() {
            v.push(Op::Merge { s: s.clone(), tag, partial: true, insert: false });
        }
    }
    v
}

pub fn run(ctx: &Ctx) -> Outcome {
    let mut out = Outcome::new("model_checking");
    let bases = [make_base("L2", false, false), make_base("L2", true, false)];

    if let Some(art) = ctx.replay_case() {
        replay(&bases, &art, Prop::C04, &mut out);
        return out;
    }

    let wall_cap = ctx.tier.pick(55.0, 840.0);
    let mut hists: Vec<Hist> = vec![];
    let cfgs: Vec<Cfg> = [false, true]
        .iter()
        .flat_map(|st| {
            [Some(0), None].into_iter().map(move |r| Cfg { layout: "L2".into(), stable: *st, indexed: false, retries: r })
        })
        .collect();
    // pairs first (so that the shortest history of a violation key is reported)
    let full = sets_full();
    // quick: the full 39 x 39 product with the raw verdict (retries 0) in both id modes; with
    // default retries (re-execution path) the sets {0,1}, {2,3}, {0,1,2,3} on address ids only.
    // thorough: the full product in all four configurations.
    let retry_sets = vec![vec![0, 1], vec![2, 3], vec![0, 1, 2, 3]];
    for cfg in &cfgs {
        let reduced = ctx.quick() && cfg.retries.is_none();
        if reduced && cfg.stable {
            continue;
        }
        let (a0, a1) = if reduced {
            (alphabet(&retry_sets, 0, false), alphabet(&retry_sets, 1, false))
        } else {
            (alphabet(&full, 0, true), alphabet(&full, 1, true))
        };
        for a in &a0 {
            for b in &a1 {
                hists.push(Hist { cfg: cfg.clone(), steps: vec![(0, a.clone()), (1, b.clone())] });
            }
        }
    }
    let n_pairs = hists.len();
    if !ctx.quick() {
        let small = sets_small();
        for cfg in &cfgs {
            for a in alphabet(&small, 0, false) {
                for b in alphabet(&small, 1, false) {
                    for c in alphabet(&small, 2, false) {
                        hists.push(Hist {
                            cfg: cfg.clone(),
                            steps: vec![(0, a.clone()), (1, b.clone()), (2, c.clone())],
                        });
                    }
                }
            }
        }
    }
    let total = hists.len();
    let (agg, skipped) = run_all(&bases, hists, Prop::C04, ctx, wall_cap);
    if ctx.opts.contains_key("debug") {
        eprintln!("outcomes {:?}", agg.outcomes);
        for v in agg.violations.iter().take(5) {
            eprintln!("V {} :: {} :: {}", v.key, v.what, v.case);
        }
    }
    // vacuity guard: real conflicts and real rebases must have been reached
    if agg.conflicts == 0 || agg.rebased_ok == 0 {
        vcore::machinery_error(&format!(
            "vacuous exploration: {} conflicts, {} rebased commits reached",
            agg.conflicts, agg.rebased_ok
        ));
    }
    agg.fill(&mut out);
    out.set("pairs_enumerated", n_pairs as u64);
    out.set("triples_enumerated", (total - n_pairs) as u64);
    out.set("exhaustive", skipped == 0);
    if skipped > 0 {
        out.set("cap_hit", format!("wall cap {wall_cap}s: {skipped} of {total} histories not run"));
    }
    out.set(
        "bound_completed",
        if ctx.quick() {
            "all ordered pairs over 39 ops x {stable ids on/off} x retries 0; all ordered pairs over 12 ops (sets {0,1},{2,3},{0,1,2,3}) x address ids x default retries"
        } else {
            "all ordered pairs over 39 ops + all ordered triples over 16 ops, x {stable ids on/off} x {retries 0, default}"
        },
    );
    out.assume("every handle reads the base version (read versions differ from the latest only through the other handles' commits)");
    out.assume("model: a transaction's effect is the uid-level effect computed at its read version; overlap of touched uids with an intervening commit = must-fail; spurious conflicts are accepted");
    out.assume("MemStore implements the object_store contract (atomic put-if-absent, consistent list)");
    out.violations = agg.violations;
    out
}
