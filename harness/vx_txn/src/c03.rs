//! C03 – concurrent transactions serialise (K2).
//!
//! 19-op alphabet on stale handles pinned at the base version (L2 + a btree index `k_idx` that
//! covers fragment 0 only, so that optimize_indices has work): all ordered pairs = every cell of
//! the compatibility matrix in both orders, stable row ids on/off, `conflict_retries` 0 (raw
//! verdict) and default (final semantics). Thorough: + layout L3, + all triples over the 10
//! data-touching ops on three handles, + a forked profile in which the read versions differ.

use crate::k2::*;
use serde_json::{json, Value};
use std::collections::BTreeMap;
use vcore::{Ctx, Outcome};

/// the 19 op kinds plus three row-level ops whose row set is a whole fragment plus part of
/// another one (the transaction drops fragment X and rewrites only Y's deletion vector)
pub fn alphabet(pos: usize) -> Vec<Op> {
    let tag = 100 * (pos as i32 + 1);
    let mut v = base_alphabet(pos);
    v.push(Op::Delete { s: vec![0, 1, 2, 3] });
    v.push(Op::Update { s: vec![2, 3, 4, 5], tag });
    v.push(Op::Merge { s: vec![0, 1, 2, 3], tag, partial: false, insert: false });
    v
}

pub fn base_alphabet(pos: usize) -> Vec<Op> {
    let p = pos as i32;
    let tag = 100 * (p + 1);
    vec![
        Op::Append { uids: vec![10 + 10 * p, 11 + 10 * p] },
        Op::Delete { s: vec![2, 3] },
        Op::Update { s: vec![1, 2], tag },
        Op::Merge { s: vec![1, 4, 40 + p], tag, partial: false, insert: true },
        Op::Merge { s: vec![0, 4], tag, partial: true, insert: false },
        Op::Compact { defer: false },
        Op::Compact { defer: true },
        Op::CreateIndex { col: "v".into(), name: "v_idx".into(), replace: false },
        Op::OptimizeIndices,
        Op::AddColumn,
        Op::DropColumn,
        Op::Rename,
        Op::Config { key: "a".into(), val: format!("a{tag}") },
        Op::Config { key: "b".into(), val: format!("b{tag}") },
        Op::SchemaMeta { val: format!("m{tag}") },
        Op::Overwrite { uids: vec![20 + 10 * p, 21 + 10 * p] },
        Op::Restore,
        Op::Reserve,
        Op::DataRepl { tag },
    ]
}

/// the 10 data-touching ops used for triples
pub fn data_alphabet(pos: usize) -> Vec<Op> {
    let all = base_alphabet(pos);
    all.into_iter()
        .filter(|o| {
            matches!(
                o,
                Op::Append { .. }
                    | Op::Delete { .. }
                    | Op::Update { .. }
                    | Op::Merge { .. }
                    | Op::Compact { .. }
                    | Op::Overwrite { .. }
                    | Op::Restore
                    | Op::DataRepl { .. }
            )
        })
        .collect()
}

fn doc_class(kind: &str) -> Option<&'static str> {
    Some(match kind {
        "append" => "Append",
        "delete" | "update" | "upsert_full" | "merge_update_full" | "merge_partial" => "Delete/Update",
        "overwrite" => "Overwrite",
        "create_index_v" | "optimize_indices" => "CreateIndex",
        "compact" | "compact_defer" => "Rewrite",
        "add_column" => "Merge",
        "drop_column" | "rename" => "Project",
        "config_a" | "config_b" | "schema_meta" => "UpdateConfig",
        "data_replacement" => "DataReplacement",
        _ => return None,
    })
}

/// documented matrix of rust/lance/src/dataset/transaction.rs: [checked][applied] -> ok | no | cond
fn documented(checked: &str, applied: &str) -> &'static str {
    let cols = [
        "Append", "Delete/Update", "Overwrite", "CreateIndex", "Rewrite", "Merge", "Project", "UpdateConfig",
        "DataReplacement",
    ];
    let rows: [(&str, [&str; 9]); 9] = [
        ("Append", ["ok", "ok", "no", "ok", "ok", "no", "no", "ok", "ok"]),
        ("Delete/Update", ["ok", "cond", "no", "ok", "cond", "no", "no", "ok", "ok"]),
        ("Overwrite", ["ok", "ok", "ok", "ok", "ok", "ok", "ok", "cond", "ok"]),
        ("CreateIndex", ["ok", "ok", "no", "ok", "ok", "ok", "ok", "ok", "cond"]),
        ("Rewrite", ["ok", "cond", "no", "no", "cond", "no", "no", "ok", "cond"]),
        ("Merge", ["no", "no", "no", "no", "ok", "no", "no", "ok", "ok"]),
        ("Project", ["ok", "ok", "no", "no", "ok", "no", "ok", "ok", "ok"]),
        ("UpdateConfig", ["ok", "ok", "cond", "ok", "ok", "ok", "ok", "cond", "ok"]),
        ("DataReplacement", ["ok", "ok", "no", "cond", "cond", "ok", "cond", "ok", "cond"]),
    ];
    let ci = cols.iter().position(|c| *c == applied);
    let r = rows.iter().find(|(n, _)| *n == checked);
    match (r, ci) {
        (Some((_, cells)), Some(i)) => cells[i],
        _ => "undocumented",
    }
}

pub fn run(ctx: &Ctx) -> Outcome {
    let mut out = Outcome::new("model_checking");
    let quick = ctx.quick();
    let mut bases = vec![make_base("L2", false, true), make_base("L2", true, true)];
    if !quick || ctx.replay.is_some() {
        bases.push(make_base("L3", false, true));
        bases.push(make_base("L3", true, true));
    }
    if let Some(art) = ctx.replay_case() {
        replay(&bases, &art, Prop::C03, &mut out);
        return out;
    }
    let wall_cap = ctx.tier.pick(55.0, 840.0);
    let layouts: Vec<&str> = if quick { vec!["L2"] } else { vec!["L2", "L3"] };
    let mut cfgs = vec![];
    for l in &layouts {
        for st in [false, true] {
            for r in [Some(0), None] {
                cfgs.push(Cfg { layout: l.to_string(), stable: st, indexed: true, retries: r });
            }
        }
    }
    let mut hists: Vec<Hist> = vec![];
    for cfg in &cfgs {
        // default retries only change the outcome of ops the API re-executes; quick runs that
        // column of the matrix on address ids only (thorough: everything)
        let reduced = quick && cfg.retries.is_none();
        if reduced && cfg.stable {
            continue;
        }
        // quick, stable row ids: the cells between data-touching ops (row ids do not matter for
        // metadata-only transactions)
        let data_only = quick && cfg.stable;
        let is_data = |o: &Op| {
            matches!(
                o,
                Op::Append { .. }
                    | Op::Delete { .. }
                    | Op::Update { .. }
                    | Op::Merge { .. }
                    | Op::Compact { .. }
                    | Op::Overwrite { .. }
                    | Op::Restore
                    | Op::DataRepl { .. }
            )
        };
        for a in alphabet(0) {
            for b in alphabet(1) {
                if reduced && !b.reexecutes() {
                    continue;
                }
                if data_only && !(is_data(&a) && is_data(&b)) {
                    continue;
                }
                hists.push(Hist { cfg: cfg.clone(), steps: vec![(0, a.clone()), (1, b.clone())] });
            }
        }
    }
    let n_pairs = hists.len();
    let mut n_triples = 0usize;
    let mut n_forked = 0usize;
    if !quick {
        for cfg in cfgs.iter().filter(|c| c.layout == "L2") {
            for a in data_alphabet(0) {
                for b in data_alphabet(1) {
                    for c in data_alphabet(2) {
                        hists.push(Hist {
                            cfg: cfg.clone(),
                            steps: vec![(0, a.clone()), (1, b.clone()), (2, c.clone())],
                        });
                        n_triples += 1;
                        // the harness builds the replacement file for the base layout of fragment 0,
                        // so data replacement is only issued from handles at the base version
                        if matches!(c, Op::DataRepl { .. }) {
                            continue;
                        }
                        // forked profile: handle 1 reads the version committed by a, handle 0 stays at the base
                        hists.push(Hist {
                            cfg: cfg.clone(),
                            steps: vec![(0, a.clone()), (1, Op::Refresh), (0, b.clone()), (1, c.clone())],
                        });
                        n_forked += 1;
                    }
                }
            }
        }
    }
    let total = hists.len();
    let (agg, skipped) = run_all(&bases, hists, Prop::C03, ctx, wall_cap);
    if ctx.opts.contains_key("debug") {
        eprintln!("outcomes {:?}", agg.outcomes);
        let mut keys: BTreeMap<String, (usize, String)> = BTreeMap::new();
        for v in &agg.violations {
            let e = keys.entry(v.key.clone()).or_insert((0, format!("{} :: {}", v.what, v.case)));
            e.0 += 1;
        }
        for (k, (n, w)) in keys {
            eprintln!("V[{n}] {k} :: {}", w.chars().take(700).collect::<String>());
        }
    }
    if agg.conflicts == 0 || agg.rebased_ok == 0 {
        vcore::machinery_error(&format!(
            "vacuous exploration: {} conflicts, {} rebased commits reached",
            agg.conflicts, agg.rebased_ok
        ));
    }
    agg.fill(&mut out);
    out.set("pairs_enumerated", n_pairs as u64);
    out.set("triples_enumerated", n_triples as u64);
    out.set("forked_histories_enumerated", n_forked as u64);
    // observed compatibility matrix next to the documented one
    let cell = |m: &BTreeMap<String, std::collections::BTreeSet<String>>| -> Value {
        json!(m.iter().map(|(k, v)| (k.clone(), v.iter().cloned().collect::<Vec<_>>().join("|"))).collect::<BTreeMap<_, _>>())
    };
    out.set("observed_matrix_raw", cell(&agg.matrix_raw));
    out.set("observed_matrix_final", cell(&agg.matrix_final));
    let mut less = vec![];
    let mut more = vec![];
    for (k, labels) in &agg.matrix_raw {
        let (a, b) = k.split_once(" then ").unwrap_or(("", ""));
        if let (Some(ca), Some(cb)) = (doc_class(a), doc_class(b)) {
            let d = documented(cb, ca);
            let any_ok = labels.iter().any(|l| l.starts_with("ok"));
            let any_conflict = labels.iter().any(|l| l.starts_with("conflict") || l.starts_with("spurious"));
            if d == "no" && any_ok {
                less.push(format!("{k}: documented conflict, observed {labels:?}"));
            }
            if d == "ok" && any_conflict {
                more.push(format!("{k}: documented compatible, observed {labels:?}"));
            }
        }
    }
    out.set("less_conservative_than_documented", json!(less));
    out.set("more_conservative_than_documented", json!(more));
    out.set("exhaustive", skipped == 0);
    if skipped > 0 {
        out.set("cap_hit", format!("wall cap {wall_cap}s: {skipped} of {total} histories not run"));
    }
    out.set(
        "bound_completed",
        if quick {
            "all ordered pairs over the 22-op alphabet (19 kinds + 3 whole-fragment-plus-part row sets) on L2+k_idx x address ids x retries 0; the 13 x 13 cells between data-touching ops also with stable row ids; with default retries every pair whose second op is re-executed by the API (7 ops), address ids"
        } else {
            "all ordered pairs over the 22-op alphabet (19 kinds + 3 whole-fragment-plus-part row sets) on {L2,L3}+k_idx; all triples and all forked (a; refresh h1; b on h0; c on h1) histories over the 10 data-touching ops on L2; x {stable ids on/off} x {retries 0, default}"
        },
    );
    out.assume("every handle reads the base version unless refreshed; restore reads the latest version by construction of the API");
    out.assume("model: uid-level effect computed at the read version, applied to the latest table; Ok must equal it (or, with default retries, the re-execution at the latest version for delete/update/merge_insert); any error must leave version and content unchanged; spurious conflicts and refusals are accepted");
    out.assume("secondary attributes (config, schema metadata, index names) follow the sequential behaviour: overwrite keeps config and drops schema metadata and indices; restore brings back everything of the restored version");
    out.assume("MemStore implements the object_store contract (atomic put-if-absent, consistent list)");
    out.violations = agg.violations;
    out
}
