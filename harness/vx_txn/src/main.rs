//! vx_txn: K2 stale-handle transaction histories; one module per property, dispatched on the property id.
mod c03;
mod c04;
mod c18;
mod c24;
mod c39;
mod k2;
mod model;

use vcore::{machinery_error, Ctx};

fn main() {
    let ctx = Ctx::from_args();
    vcore::quiet_panics();
    let out: vcore::Outcome = match ctx.id.as_str() {
        "C03" => c03::run(&ctx),
        "C04" => c04::run(&ctx),
        "C18" => c18::run(&ctx),
        "C24" => c24::run(&ctx),
        "C39" => c39::run(&ctx),
        other => machinery_error(&format!("vx_txn does not implement {other}")),
    };
    vcore::finish(&ctx, out);
}
