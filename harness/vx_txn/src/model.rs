//! Reference model for K2 stale-handle histories.
//!
//! A table is a bag of rows keyed by the hidden identity column `uid` (column id 0, never written
//! by any op after insertion). Columns are identified by a model column id (`cid`) so that a rename
//! keeps identity. An `Effect` is what one transaction computed at its *read version*; `apply` puts
//! it on top of the latest table and decides
//!   * `MustFail`  – the effect touches a uid that an intervening committed effect also touched
//!                   (C04: at most one of them may commit) or it cannot be applied at all,
//!   * `May(t)`    – the transaction may commit (then the table must equal `t`) or may be refused
//!                   (spurious conflicts are allowed; then the table must be unchanged).

use serde::{Deserialize, Serialize};
use std::collections::{BTreeMap, BTreeSet};
use vds::cells::Cell;

pub const UID: u32 = 0;
pub const K: u32 = 1;
pub const V: u32 = 2;

#[derive(Clone, Debug, PartialEq, Eq, Hash, Serialize, Deserialize)]
pub struct Col {
    pub cid: u32,
    pub name: String,
}

pub type Row = BTreeMap<u32, Cell>;

#[derive(Clone, Debug, PartialEq, Eq, Hash, Serialize, Deserialize)]
pub struct MTable {
    pub cols: Vec<Col>,
    pub rows: Vec<Row>,
    pub config: BTreeMap<String, String>,
    pub schema_meta: BTreeMap<String, String>,
    /// index name -> indexed column cid
    pub indices: BTreeMap<String, u32>,
}

pub fn uid_of(r: &Row) -> i32 {
    r.get(&UID).and_then(|c| c.as_i64()).unwrap_or(-999) as i32
}

pub fn base_row(m: &vds::MRow) -> Row {
    let c = m.cells();
    let mut r = Row::new();
    r.insert(UID, c[0].clone());
    r.insert(K, c[1].clone());
    r.insert(V, c[2].clone());
    r
}

impl MTable {
    pub fn base(rows: &[vds::MRow]) -> Self {
        Self {
            cols: vec![
                Col { cid: UID, name: "uid".into() },
                Col { cid: K, name: "k".into() },
                Col { cid: V, name: "v".into() },
            ],
            rows: rows.iter().map(base_row).collect(),
            config: BTreeMap::new(),
            schema_meta: BTreeMap::new(),
            indices: BTreeMap::new(),
        }
    }
    pub fn uids(&self) -> BTreeSet<i32> {
        self.rows.iter().map(uid_of).collect()
    }
    pub fn col_names(&self) -> Vec<String> {
        self.cols.iter().map(|c| c.name.clone()).collect()
    }
    pub fn cid(&self, name: &str) -> Option<u32> {
        self.cols.iter().find(|c| c.name == name).map(|c| c.cid)
    }
    pub fn get(&self, uid: i32) -> Option<&Row> {
        self.rows.iter().find(|r| uid_of(r) == uid)
    }
    /// rows as cell vectors in schema order, sorted (bag form)
    pub fn bag(&self) -> Vec<Vec<Cell>> {
        let mut v: Vec<Vec<Cell>> = self
            .rows
            .iter()
            .map(|r| {
                self.cols
                    .iter()
                    .map(|c| r.get(&c.cid).cloned().unwrap_or(Cell::Big("<missing>".into())))
                    .collect()
            })
            .collect();
        v.sort();
        v
    }
    pub fn canon(&self) -> u64 {
        let mut t = self.clone();
        t.rows.sort_by(|a, b| format!("{a:?}").cmp(&format!("{b:?}")));
        vcore::hash64(serde_json::to_string(&t).unwrap_or_default().as_bytes())
    }
}

/// What one transaction computed at its read version.
#[derive(Clone, Debug, Default, PartialEq, Eq, Serialize, Deserialize)]
pub struct Effect {
    pub kind: String,
    pub deleted: BTreeSet<i32>,
    /// uid -> (cid -> new value) for the columns the transaction wrote
    pub updated: BTreeMap<i32, BTreeMap<u32, Cell>>,
    /// updated rows are moved (delete + re-insert of the whole image read at the read version)
    pub moves_rows: bool,
    /// rows inserted (cid -> value, in the read version's schema)
    pub inserted: Vec<Row>,
    /// columns added with their per-uid values (defined for the uids of the read version only)
    pub add_cols: Vec<(Col, BTreeMap<i32, Cell>)>,
    pub drop_cols: Vec<u32>,
    pub rename_cols: Vec<(u32, String)>,
    pub config_set: BTreeMap<String, String>,
    pub config_del: BTreeSet<String>,
    pub schema_meta_set: BTreeMap<String, String>,
    pub index_add: BTreeMap<String, u32>,
    /// whole table replaced (overwrite / restore); `keep_config` = the config map of the latest
    /// table survives (overwrite), otherwise everything comes from the replacement (restore)
    pub replace: Option<Box<MTable>>,
    pub replace_keeps_config: bool,
    /// the op rewrites stored data of these uids without changing values (compaction, data
    /// replacement of a column with identical semantics handled through `updated`)
    pub relocates: BTreeSet<i32>,
    /// column cids whose stored values the effect reads as a whole at the read version (index build)
    pub reads_cols: BTreeSet<u32>,
}

impl Effect {
    pub fn new(kind: &str) -> Self {
        Self { kind: kind.to_string(), ..Default::default() }
    }
    /// uids whose row image this effect deletes or replaces
    pub fn touched(&self) -> BTreeSet<i32> {
        let mut t = self.deleted.clone();
        t.extend(self.updated.keys().copied());
        t
    }
    pub fn is_noop(&self) -> bool {
        let mut e = self.clone();
        e.kind = String::new();
        e.moves_rows = false;
        e.reads_cols.clear();
        e == Effect::default()
    }
}

/// What a committed version did (for judging later stale commits).
#[derive(Clone, Debug, Default, PartialEq, Eq, Serialize, Deserialize)]
pub struct Committed {
    pub kind: String,
    pub touched: BTreeSet<i32>,
    pub deleted: BTreeSet<i32>,
    pub inserted: BTreeSet<i32>,
    pub relocated: BTreeSet<i32>,
    pub replaced: bool,
    pub schema_changed: bool,
    pub cols_added: bool,
    pub cols_written: BTreeSet<u32>,
}

impl Committed {
    pub fn of(e: &Effect) -> Self {
        let mut cols_written = BTreeSet::new();
        for u in e.updated.values() {
            cols_written.extend(u.keys().copied());
        }
        Self {
            kind: e.kind.clone(),
            touched: e.touched(),
            deleted: e.deleted.clone(),
            inserted: e.inserted.iter().map(uid_of).collect(),
            relocated: e.relocates.clone(),
            replaced: e.replace.is_some(),
            schema_changed: !e.add_cols.is_empty() || !e.drop_cols.is_empty() || !e.rename_cols.is_empty(),
            cols_added: !e.add_cols.is_empty(),
            cols_written,
        }
    }
}

#[derive(Clone, Debug)]
pub enum Verdict {
    MustFail(String),
    May(MTable),
}

/// The part of `e` that can still take effect after `between`: a positional column-file swap
/// (data replacement) has no effect on rows a concurrent commit deleted; those uids stay deleted
/// and are not counted as rows both transactions changed.
pub fn effective<'a>(e: &'a Effect, between: &[Committed]) -> std::borrow::Cow<'a, Effect> {
    let mut e = std::borrow::Cow::Borrowed(e);
    if e.kind == "data_replacement" {
        let gone: BTreeSet<i32> = between.iter().flat_map(|c| c.deleted.iter().copied()).collect();
        if e.updated.keys().any(|u| gone.contains(u)) {
            e.to_mut().updated.retain(|u, _| !gone.contains(u));
        }
    }
    e
}

/// Apply `e` (computed at a read version whose table was `read`) on top of `latest`, given what
/// was committed in between.
pub fn apply(e: &Effect, read: &MTable, latest: &MTable, between: &[Committed]) -> Verdict {
    if let Some(t) = &e.replace {
        // overwrite / restore do not depend on what is there
        let mut t = (**t).clone();
        if e.replace_keeps_config {
            t.config = latest.config.clone();
        }
        return Verdict::May(t);
    }
    let e = effective(e, between);
    let e: &Effect = &e;
    let touched = e.touched();
    let mut their_touched: BTreeSet<i32> = BTreeSet::new();
    let mut replaced = false;
    let mut schema_changed = false;
    let mut their_inserted: BTreeSet<i32> = BTreeSet::new();
    for c in between {
        their_touched.extend(c.touched.iter().copied());
        their_inserted.extend(c.inserted.iter().copied());
        replaced |= c.replaced;
        schema_changed |= c.cols_added;
    }
    let common: Vec<i32> = touched.intersection(&their_touched).copied().collect();
    if !common.is_empty() {
        return Verdict::MustFail(format!("uids {common:?} also modified by an intervening commit"));
    }
    let row_level = !touched.is_empty() || !e.inserted.is_empty() || !e.add_cols.is_empty() || !e.relocates.is_empty();
    if replaced && row_level {
        return Verdict::MustFail("row-level effect computed against a table that was replaced since".into());
    }
    let mut t = latest.clone();
    // deletions / updates: every touched uid must still be there exactly once
    for u in &touched {
        if t.rows.iter().filter(|r| uid_of(r) == *u).count() != 1 {
            return Verdict::MustFail(format!("uid {u} not present exactly once in the latest table"));
        }
    }
    t.rows.retain(|r| !e.deleted.contains(&uid_of(r)));
    for (u, ch) in &e.updated {
        for r in t.rows.iter_mut().filter(|r| uid_of(r) == *u) {
            for (cid, val) in ch {
                // a value written to a column that was dropped since vanishes with the column
                if t.cols.iter().any(|c| c.cid == *cid) {
                    r.insert(*cid, val.clone());
                }
            }
        }
    }
    if e.moves_rows && schema_changed && !e.updated.is_empty() {
        // a moved row image was read in the old schema
        return Verdict::MustFail("row images rewritten in a schema that changed since".into());
    }
    for ins in &e.inserted {
        let mut r = Row::new();
        for c in &t.cols {
            match ins.get(&c.cid) {
                Some(v) => {
                    r.insert(c.cid, v.clone());
                }
                // a column added by an intervening commit: the row was written without it
                None if !read.cols.iter().any(|x| x.cid == c.cid) => {
                    r.insert(c.cid, Cell::Null);
                }
                None => return Verdict::MustFail(format!("inserted row has no value for column {}", c.name)),
            }
        }
        t.rows.push(r);
    }
    for (col, vals) in &e.add_cols {
        if t.cols.iter().any(|c| c.name == col.name) {
            return Verdict::MustFail(format!("column {} already exists", col.name));
        }
        for r in t.rows.iter_mut() {
            match vals.get(&uid_of(r)) {
                Some(v) if !their_inserted.contains(&uid_of(r)) => {
                    r.insert(col.cid, v.clone());
                }
                _ => return Verdict::MustFail(format!("no value of new column {} for uid {}", col.name, uid_of(r))),
            }
        }
        t.cols.push(col.clone());
    }
    for cid in &e.drop_cols {
        if !t.cols.iter().any(|c| c.cid == *cid) {
            return Verdict::MustFail(format!("dropped column {cid} no longer exists"));
        }
        t.cols.retain(|c| c.cid != *cid);
        for r in t.rows.iter_mut() {
            r.remove(cid);
        }
        t.indices.retain(|_, c| c != cid);
    }
    for (cid, name) in &e.rename_cols {
        if t.cols.iter().any(|c| &c.name == name && c.cid != *cid) {
            return Verdict::MustFail(format!("column name {name} taken"));
        }
        match t.cols.iter_mut().find(|c| c.cid == *cid) {
            Some(c) => c.name = name.clone(),
            None => return Verdict::MustFail(format!("renamed column {cid} no longer exists")),
        }
    }
    for (k, v) in &e.config_set {
        t.config.insert(k.clone(), v.clone());
    }
    for k in &e.config_del {
        t.config.remove(k);
    }
    for (k, v) in &e.schema_meta_set {
        t.schema_meta.insert(k.clone(), v.clone());
    }
    for (n, c) in &e.index_add {
        // an index on a column that was dropped since vanishes with the column
        if t.cols.iter().any(|x| x.cid == *c) {
            t.indices.insert(n.clone(), *c);
        }
    }
    Verdict::May(t)
}
