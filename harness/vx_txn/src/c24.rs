//! C24 – index coverage never over-claimed (K2).
//!
//! A stale `create_index(k, btree)` / `optimize_indices` / `create_index(replace)` races with
//! operations that rewrite or move the values of `k` (partial-schema merge_insert = RewriteColumns,
//! update / full merge_insert = RewriteRows, data replacement, compaction, delete, append,
//! add/drop column), in both commit orders (quick) and with a third stale writer (thorough).
//! After every step, for every literal `c` that column `k` ever held and for `IS NULL`:
//! scan(`k = c`) with the scalar index == scan with `use_scalar_index(false)` == model.

use crate::k2::*;
use std::collections::BTreeMap;
use vcore::{Ctx, Outcome};

/// operations that write, move or remove values of k (pos makes values distinct)
pub fn writers(pos: usize) -> Vec<Op> {
    let p = pos as i32;
    let tag = 100 * (p + 1);
    vec![
        Op::Merge { s: vec![0, 1, 2], tag, partial: true, insert: false },
        Op::Merge { s: vec![0, 4], tag, partial: true, insert: false },
        Op::Merge { s: vec![4, 5], tag, partial: true, insert: false },
        Op::Update { s: vec![1, 2], tag },
        Op::Update { s: vec![3, 4, 5], tag },
        Op::Merge { s: vec![1, 4, 40 + p], tag, partial: false, insert: true },
        Op::DataRepl { tag },
        Op::Compact { defer: false },
        Op::Compact { defer: true },
        Op::Delete { s: vec![2, 3] },
        Op::Append { uids: vec![10 + 10 * p, 11 + 10 * p] },
        Op::AddColumn,
        Op::DropColumn,
    ]
}

pub fn index_ops(indexed: bool) -> Vec<Op> {
    if indexed {
        vec![
            Op::OptimizeIndices,
            Op::CreateIndex { col: "k".into(), name: "k_idx".into(), replace: true },
        ]
    } else {
        vec![Op::CreateIndex { col: "k".into(), name: "k_idx".into(), replace: false }]
    }
}

pub fn run(ctx: &Ctx) -> Outcome {
    let mut out = Outcome::new("model_checking");
    let quick = ctx.quick();
    let bases = vec![
        make_base("L2", false, false),
        make_base("L2", true, false),
        make_base("L2", false, true),
        make_base("L2", true, true),
    ];
    if let Some(art) = ctx.replay_case() {
        replay(&bases, &art, Prop::C24, &mut out);
        return out;
    }
    let wall_cap = ctx.tier.pick(40.0, 840.0);
    let mut cfgs = vec![];
    for indexed in [false, true] {
        for st in [false, true] {
            for r in [Some(0), None] {
                cfgs.push(Cfg { layout: "L2".into(), stable: st, indexed, retries: r });
            }
        }
    }
    let mut hists: Vec<Hist> = vec![];
    for cfg in &cfgs {
        for i in index_ops(cfg.indexed) {
            for w in writers(0) {
                // writer first, stale index op second; and the other way round
                hists.push(Hist { cfg: cfg.clone(), steps: vec![(0, w.clone()), (1, i.clone())] });
                hists.push(Hist { cfg: cfg.clone(), steps: vec![(0, i.clone()), (1, w.clone())] });
            }
        }
    }
    let n_pairs = hists.len();
    if !quick {
        for cfg in &cfgs {
            for i in index_ops(cfg.indexed) {
                for w in writers(0) {
                    for w2 in writers(1) {
                        // three stale handles: two writers and the index op in every position
                        hists.push(Hist {
                            cfg: cfg.clone(),
                            steps: vec![(0, w.clone()), (1, w2.clone()), (2, i.clone())],
                        });
                        hists.push(Hist {
                            cfg: cfg.clone(),
                            steps: vec![(0, w.clone()), (2, i.clone()), (1, w2.clone())],
                        });
                        hists.push(Hist {
                            cfg: cfg.clone(),
                            steps: vec![(2, i.clone()), (0, w.clone()), (1, w2.clone())],
                        });
                        // index maintenance afterwards from a refreshed handle
                        hists.push(Hist {
                            cfg: cfg.clone(),
                            steps: vec![
                                (0, w.clone()),
                                (1, i.clone()),
                                (2, Op::Refresh),
                                (2, Op::OptimizeIndices),
                                (0, w2.clone()),
                            ],
                        });
                    }
                }
            }
        }
    }
    let total = hists.len();
    let (agg, skipped) = run_all(&bases, hists, Prop::C24, ctx, wall_cap);
    if ctx.opts.contains_key("debug") {
        eprintln!("outcomes {:?}", agg.outcomes);
        let mut keys: BTreeMap<String, (usize, String)> = BTreeMap::new();
        for v in &agg.violations {
            let e = keys.entry(v.key.clone()).or_insert((0, format!("{} :: {}", v.what, v.case)));
            e.0 += 1;
        }
        for (k, (n, w)) in keys {
            eprintln!("V[{n}] {k} :: {}", w.chars().take(600).collect::<String>());
        }
    }
    // vacuity: index probes were made, and index commits were really rebased over writers
    let idx_rebased: u64 = agg
        .outcomes
        .iter()
        .filter(|(k, _)| (k.starts_with("create_index_k:") || k.starts_with("optimize_indices:")) && k.ends_with("ok-rebased"))
        .map(|(_, n)| *n)
        .sum();
    if agg.index_probes == 0 || idx_rebased == 0 {
        vcore::machinery_error(&format!(
            "vacuous exploration: {} index probes, {} index commits rebased over a concurrent writer",
            agg.index_probes, idx_rebased
        ));
    }
    agg.fill(&mut out);
    out.set("pairs_enumerated", n_pairs as u64);
    out.set("longer_histories_enumerated", (total - n_pairs) as u64);
    out.set("index_probes", agg.index_probes);
    out.set("index_probe_disagreements", agg.index_stale_hits);
    out.set("index_commits_rebased_over_writer", idx_rebased);
    out.set("exhaustive", skipped == 0);
    if skipped > 0 {
        out.set("cap_hit", format!("wall cap {wall_cap}s: {skipped} of {total} histories not run"));
    }
    out.set(
        "bound_completed",
        if quick {
            "both commit orders of {create_index(k) | optimize_indices, create_index(k, replace)} x 13 writers on L2 x {indexed base or not} x {stable ids on/off} x {retries 0, default}"
        } else {
            "quick space + all placements of the index op among two stale writers (13 x 13) + (writer; index op; optimize from a fresh handle; second stale writer)"
        },
    );
    out.assume("probe literals: every value column k held in any version of the history, and IS NULL; btree index only");
    out.assume("scan with use_scalar_index(false) is trusted only as far as it agrees with the uid-level model (three-way comparison)");
    out.assume("MemStore implements the object_store contract");
    out.violations = agg.violations;
    out
}
