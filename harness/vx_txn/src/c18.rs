//! C18 – stable row ids are stable, unique and resolvable.
//!
//! Two explorations on tables with stable row ids, the same O-rowid oracle after every step
//! (through a fresh open): (a) uid <-> _rowid of a uid that lives on through a commit never
//! changes (update, merge_insert update, compaction, rebased commits), (b) no two visible rows
//! share a _rowid, (c) take_rows(all visible ids) returns exactly the scanned rows.
//!  1. sequential histories (vcore::seqx, breadth first, canonical-state de-duplication) over
//!     {append, update, merge_insert full/partial, compact, delete, delete-all, update_config,
//!     restore} up to depth 3;
//!  2. K2: all ordered pairs (thorough: triples) of those ops on stale handles.

use crate::k2::*;
use crate::model::*;
use serde_json::json;
use std::sync::Arc;
use vcore::seqx::{self, Caps, Step, Sut};
use vcore::{Ctx, Outcome};
use vds::*;
use vstore::{MemStore, Snapshot};

#[derive(Clone)]
pub struct SeqState {
    snap: Snapshot,
    world: World,
    hash: u64,
    base: usize,
}

pub struct SeqSut {
    bases: Vec<Base>,
}

impl Sut for SeqSut {
    type State = SeqState;
    type Op = Op;

    fn init(&self) -> Vec<(String, SeqState)> {
        let mut v = vec![];
        for (i, b) in self.bases.iter().enumerate() {
            let env = Env::from_store(MemStore::from_snapshot(&b.snapshot));
            let world = match block_on(World::new(b, &env, 1)) {
                Ok(w) => w,
                Err(e) => vcore::machinery_error(&e),
            };
            let hash = world.canon() ^ (i as u64);
            v.push((format!("{}/stable", b.layout), SeqState { snap: b.snapshot.clone(), world, hash, base: i }));
        }
        v
    }

    fn ops(&self, st: &SeqState, depth: usize) -> Vec<Op> {
        let t = st.world.tables.last().unwrap();
        let next = t.uids().iter().max().copied().unwrap_or(0).max(9) + 1;
        let tag = 100 * (depth as i32 + 1);
        vec![
            Op::Append { uids: vec![next, next + 1] },
            Op::Update { s: vec![1, 2], tag },
            Op::Update { s: vec![3, 4, 5], tag },
            Op::Merge { s: vec![1, 4, next + 5], tag, partial: false, insert: true },
            Op::Merge { s: vec![0, 4], tag, partial: true, insert: false },
            Op::Compact { defer: false },
            Op::Delete { s: vec![2, 3] },
            Op::Delete { s: vec![0, 1, 2] },
            Op::DeleteAll,
            Op::Config { key: "a".into(), val: format!("a{tag}") },
            Op::Restore,
        ]
    }

    fn step(&self, st: &SeqState, op: &Op) -> Step<SeqState> {
        let base = &self.bases[st.base];
        let cfg = Cfg { layout: base.layout.clone(), stable: true, indexed: base.indexed, retries: None };
        let r = vds::run_catch(async {
            let env = Env::from_store(MemStore::from_snapshot(&st.snap));
            let mut w = st.world.clone();
            let mut handles: Vec<Option<Arc<lance::Dataset>>> = vec![None];
            // sequential: the handle always reads the latest version
            let _ = w.step(base, &env, &mut handles, &cfg, Prop::C18, 0, &Op::Refresh, json!({})).await;
            let so = w
                .step(base, &env, &mut handles, &cfg, Prop::C18, 0, op, json!({"sequential": true}))
                .await;
            (env.store.snapshot(), w, so)
        });
        match r {
            Err(p) => vcore::machinery_error(&format!("harness panic in sequential step: {p}")),
            Ok((snap, mut world, so)) => {
                if let Some(m) = so.machinery {
                    vcore::machinery_error(&m);
                }
                // sequential exploration keeps no history of kinds beyond what the keys need
                let hash = so.state.unwrap_or(0) ^ world.canon();
                let next = if world.dead || so.state.is_none() {
                    None
                } else {
                    // bound the model history kept per state
                    if world.kinds.len() > 8 {
                        world.kinds.drain(..world.kinds.len() - 8);
                    }
                    Some(SeqState { snap, world, hash, base: st.base })
                };
                Step { next, outcome: so.outcome, violations: so.violations }
            }
        }
    }

    fn canon(&self, st: &SeqState) -> u64 {
        st.hash
    }

    fn op_kind(&self, op: &Op) -> String {
        op.kind()
    }
}

pub fn k2_alphabet(pos: usize) -> Vec<Op> {
    let p = pos as i32;
    let tag = 100 * (p + 1);
    vec![
        Op::Append { uids: vec![10 + 10 * p, 11 + 10 * p] },
        Op::Delete { s: vec![2, 3] },
        Op::Update { s: vec![1, 2], tag },
        Op::Update { s: vec![3, 4, 5], tag },
        Op::Merge { s: vec![1, 4, 40 + p], tag, partial: false, insert: true },
        Op::Merge { s: vec![0, 4], tag, partial: true, insert: false },
        Op::Merge { s: vec![0, 1, 2], tag, partial: true, insert: false },
        Op::Compact { defer: false },
        Op::Compact { defer: true },
        Op::Restore,
        Op::Overwrite { uids: vec![20 + 10 * p, 21 + 10 * p] },
        Op::DeleteAll,
        Op::Config { key: "a".into(), val: format!("a{tag}") },
    ]
}

pub fn run(ctx: &Ctx) -> Outcome {
    let mut out = Outcome::new("model_checking");
    let quick = ctx.quick();
    let bases = vec![make_base("L2", true, false), make_base("L3", true, false), make_base("L2", true, true)];

    if let Some(art) = ctx.replay_case() {
        if art["case"].get("hist").is_some() {
            replay(&bases, &art, Prop::C18, &mut out);
        } else {
            let sut = SeqSut { bases: bases[..2].to_vec() };
            match seqx::replay(&sut, &art["case"]) {
                Ok(v) => {
                    out.set("states", 1u64);
                    out.set("transitions", 1u64);
                    out.set("traces_validated_against_impl", 1u64);
                    out.set("samples", json!([art["case"].clone()]));
                    out.violations = v;
                }
                Err(e) => vcore::machinery_error(&format!("replay failed: {e}")),
            }
        }
        return out;
    }

    // 1. sequential histories
    let sut = SeqSut { bases: bases[..2].to_vec() };
    let caps = Caps { max_depth: ctx.tier.pick(3, 4), max_states: 200_000, wall_s: ctx.tier.pick(25.0, 400.0) };
    let rep = seqx::explore(&sut, &caps, ctx.workers);

    // 2. K2 histories
    let mut cfgs = vec![];
    for (l, idx) in [("L2", false), ("L3", false), ("L2", true)] {
        if quick && l == "L3" {
            continue;
        }
        for r in [Some(0), None] {
            cfgs.push(Cfg { layout: l.to_string(), stable: true, indexed: idx, retries: r });
        }
    }
    let mut hists = vec![];
    for cfg in &cfgs {
        for a in k2_alphabet(0) {
            for b in k2_alphabet(1) {
                hists.push(Hist { cfg: cfg.clone(), steps: vec![(0, a.clone()), (1, b.clone())] });
            }
        }
    }
    let n_pairs = hists.len();
    if !quick {
        for cfg in cfgs.iter().filter(|c| !c.indexed) {
            for a in k2_alphabet(0) {
                for b in k2_alphabet(1) {
                    for c in k2_alphabet(2) {
                        hists.push(Hist {
                            cfg: cfg.clone(),
                            steps: vec![(0, a.clone()), (1, b.clone()), (2, c.clone())],
                        });
                    }
                }
            }
        }
    }
    let total = hists.len();
    let wall_cap = ctx.tier.pick(40.0 - ctx.elapsed_s().min(30.0), 840.0 - ctx.elapsed_s().min(400.0));
    let (agg, skipped) = run_all(&bases, hists, Prop::C18, ctx, wall_cap);
    if ctx.opts.contains_key("debug") {
        eprintln!("seq: states {} transitions {} outcomes {:?} cap {:?}", rep.states, rep.transitions, rep.outcomes, rep.cap_hit);
        eprintln!("k2 outcomes {:?}", agg.outcomes);
        for v in rep.violations.iter().chain(agg.violations.iter()).take(8) {
            eprintln!("V {} :: {} :: {}", v.key, v.what.chars().take(300).collect::<String>(), v.case);
        }
    }
    if agg.rowid_checks == 0 || agg.rebased_ok == 0 {
        vcore::machinery_error(&format!(
            "vacuous exploration: {} row id checks, {} rebased commits",
            agg.rowid_checks, agg.rebased_ok
        ));
    }
    agg.fill(&mut out);
    // merge the sequential exploration into the model_checking keys
    out.set("states", agg.states.len() as u64 + rep.states);
    out.set("transitions", agg.transitions + rep.transitions);
    out.set("traces_validated_against_impl", agg.histories + rep.transitions);
    out.set("sequential_states", rep.states);
    out.set("sequential_transitions", rep.transitions);
    out.set("sequential_level_sizes", json!(rep.level_sizes));
    out.set("sequential_outcomes", json!(rep.outcomes));
    out.set("sequential_max_depth", rep.max_depth as u64);
    out.set("k2_pairs_enumerated", n_pairs as u64);
    out.set("k2_triples_enumerated", (total - n_pairs) as u64);
    out.set("rowid_checks", agg.rowid_checks + rep.transitions);
    let mut samples = agg.samples.clone();
    samples.extend(rep.samples.iter().cloned().take(3));
    out.set("samples", json!(samples));
    let exhaustive = skipped == 0 && rep.cap_hit.is_none();
    out.set("exhaustive", exhaustive);
    if !exhaustive {
        out.set(
            "cap_hit",
            format!("k2: {skipped} of {total} histories not run; sequential: {:?}", rep.cap_hit),
        );
    }
    out.set(
        "bound_completed",
        if quick {
            "sequential: all op sequences of depth <= 3 over 11 ops from L2 and L3 (stable ids); K2: all ordered pairs over 13 ops on L2 and L2+k_idx x {retries 0, default}"
        } else {
            "sequential: depth <= 4 over 11 ops from L2 and L3; K2: all ordered pairs over 13 ops on L2, L3, L2+k_idx and all triples on L2, L3 x {retries 0, default}"
        },
    );
    out.assume("row identity is tracked through the hidden uid column; a uid deleted and re-inserted is a new row");
    out.assume("after restore / overwrite only uniqueness and resolvability are required (no continuity across the replaced table)");
    out.assume("MemStore implements the object_store contract");
    let _ = UID;
    out.violations = rep.violations;
    out.violations.extend(agg.violations);
    out
}
