//! C39 – MemWAL index follows its state machine under concurrency (K2).
//!
//! Base: L1 table whose MemWAL index holds region R1 = {gen0 Merged, gen1 Flushed, gen2 Sealed,
//! gen3 Open} (built through the public API), region R2 absent. Every op of a history runs on a
//! handle pinned at an earlier version (stale unless refreshed); its arguments (generation, expected
//! owner) are derived from *the handle's view*, as a real writer would. After every step the raw
//! MemWAL list of the latest version (fresh open, decoded from the index details, not through the
//! de-duplicating map) is judged against a list model and the state-machine invariants.

use lance::dataset::{MergeInsertBuilder, WhenMatched, WhenNotMatched};
use lance::index::mem_wal::*;
use lance::Dataset;
use lance_index::mem_wal::{MemWalId, MemWalIndexDetails, State, MEM_WAL_INDEX_NAME};
use lance_index::DatasetIndexExt;
use serde::{Deserialize, Serialize};
use serde_json::{json, Value};
use std::collections::{BTreeMap, BTreeSet, HashSet};
use std::sync::Arc;
use vcore::{Ctx, Outcome, Violation};
use vds::*;
use vstore::{MemStore, Snapshot};

#[derive(Clone, Debug, PartialEq, Eq, Hash, PartialOrd, Ord, Serialize, Deserialize)]
pub struct MW {
    pub region: String,
    pub gen: u64,
    /// 0 Open, 1 Sealed, 2 Flushed, 3 Merged
    pub state: u8,
    pub owner: String,
    /// highest WAL entry id appended (0 = none)
    pub hi: u64,
}

fn st(s: &State) -> u8 {
    match s {
        State::Open => 0,
        State::Sealed => 1,
        State::Flushed => 2,
        State::Merged => 3,
    }
}

fn st_name(s: u8) -> &'static str {
    ["Open", "Sealed", "Flushed", "Merged"][s as usize & 3]
}

#[derive(Clone, Debug, PartialEq, Eq, Hash, Serialize, Deserialize)]
pub enum Which {
    Latest,
    Oldest,
}

#[derive(Clone, Debug, PartialEq, Eq, Hash, Serialize, Deserialize)]
pub enum MOp {
    Advance { region: String },
    Append { region: String },
    Seal { region: String },
    Flush { region: String },
    MarkMerged { region: String },
    /// merge_insert(... mark_mem_wal_as_merged(oldest flushed generation))
    MergeInsert { region: String },
    Owner { region: String, which: Which },
    Trim,
    Refresh,
}

impl MOp {
    pub fn kind(&self) -> String {
        match self {
            MOp::Advance { region } => format!("advance_{region}"),
            MOp::Append { .. } => "append_entry".into(),
            MOp::Seal { .. } => "seal".into(),
            MOp::Flush { .. } => "flush".into(),
            MOp::MarkMerged { .. } => "mark_merged".into(),
            MOp::MergeInsert { .. } => "merge_insert_merged".into(),
            MOp::Owner { which: Which::Latest, .. } => "owner_latest".into(),
            MOp::Owner { which: Which::Oldest, .. } => "owner_oldest".into(),
            MOp::Trim => "trim".into(),
            MOp::Refresh => "refresh".into(),
        }
    }
}

/// What an op computed on its view: ids added / rewritten / removed (+ rows inserted into the table).
#[derive(Clone, Debug, Default)]
pub struct MEffect {
    pub added: Vec<MW>,
    pub updated: Vec<MW>,
    pub removed: Vec<(String, u64)>,
    pub inserted_uid: Option<i32>,
    pub is_trim: bool,
}

impl MEffect {
    fn modified_ids(&self) -> BTreeSet<(String, u64)> {
        self.added
            .iter()
            .chain(self.updated.iter())
            .map(|m| (m.region.clone(), m.gen))
            .collect()
    }
}

type View = Vec<MW>;

fn region_gens<'a>(v: &'a View, region: &str) -> Vec<&'a MW> {
    let mut g: Vec<&MW> = v.iter().filter(|m| m.region == region).collect();
    g.sort_by_key(|m| m.gen);
    g
}

/// The concrete call a writer with view `v` makes for `op` at history step `step`; None = not enabled.
#[derive(Clone, Debug)]
pub enum Call {
    Advance { region: String, expected: Option<String>, owner: String, tag: String },
    Append { region: String, gen: u64, entry: u64, owner: String },
    Seal { region: String, gen: u64, owner: String },
    Flush { region: String, gen: u64, owner: String },
    MarkMerged { region: String, gen: u64, owner: String },
    MergeInsert { region: String, gen: u64, owner: String, uid: i32 },
    Owner { region: String, gen: u64, new_owner: String },
    Trim,
}

pub fn plan(op: &MOp, v: &View, step: usize) -> Option<(Call, MEffect)> {
    let mut e = MEffect::default();
    match op {
        MOp::Refresh => None,
        MOp::Advance { region } => {
            let gens = region_gens(v, region);
            let owner = format!("w{step}");
            match gens.last() {
                None => {
                    e.added.push(MW { region: region.clone(), gen: 0, state: 0, owner: owner.clone(), hi: 0 });
                    Some((Call::Advance { region: region.clone(), expected: None, owner, tag: format!("s{step}") }, e))
                }
                Some(l) => {
                    if l.state == 0 {
                        let mut u = (*l).clone();
                        u.state = 1;
                        e.updated.push(u);
                    }
                    e.added.push(MW { region: region.clone(), gen: l.gen + 1, state: 0, owner: owner.clone(), hi: 0 });
                    Some((
                        Call::Advance {
                            region: region.clone(),
                            expected: Some(l.owner.clone()),
                            owner,
                            tag: format!("s{step}"),
                        },
                        e,
                    ))
                }
            }
        }
        MOp::Append { region } => {
            let gens = region_gens(v, region);
            let l = gens.last()?;
            if l.state != 0 {
                return None;
            }
            let mut u = (*l).clone();
            u.hi = l.hi + 10 + step as u64;
            e.updated.push(u.clone());
            Some((Call::Append { region: region.clone(), gen: l.gen, entry: u.hi, owner: l.owner.clone() }, e))
        }
        MOp::Seal { region } => {
            let gens = region_gens(v, region);
            let l = gens.last()?;
            if l.state != 0 {
                return None;
            }
            let mut u = (*l).clone();
            u.state = 1;
            e.updated.push(u);
            Some((Call::Seal { region: region.clone(), gen: l.gen, owner: l.owner.clone() }, e))
        }
        MOp::Flush { region } => {
            let gens = region_gens(v, region);
            let l = gens.iter().find(|m| m.state == 1)?;
            let mut u = (**l).clone();
            u.state = 2;
            e.updated.push(u);
            Some((Call::Flush { region: region.clone(), gen: l.gen, owner: l.owner.clone() }, e))
        }
        MOp::MarkMerged { region } => {
            let gens = region_gens(v, region);
            let l = gens.iter().find(|m| m.state == 2)?;
            let mut u = (**l).clone();
            u.state = 3;
            e.updated.push(u);
            Some((Call::MarkMerged { region: region.clone(), gen: l.gen, owner: l.owner.clone() }, e))
        }
        MOp::MergeInsert { region } => {
            let gens = region_gens(v, region);
            let l = gens.iter().find(|m| m.state == 2)?;
            let mut u = (**l).clone();
            u.state = 3;
            e.updated.push(u);
            let uid = 50 + step as i32;
            e.inserted_uid = Some(uid);
            Some((Call::MergeInsert { region: region.clone(), gen: l.gen, owner: l.owner.clone(), uid }, e))
        }
        MOp::Owner { region, which } => {
            let gens = region_gens(v, region);
            let l = match which {
                Which::Latest => gens.last()?,
                Which::Oldest => gens.first()?,
            };
            let mut u = (**l).clone();
            u.owner = format!("own{step}");
            e.updated.push(u.clone());
            Some((Call::Owner { region: region.clone(), gen: l.gen, new_owner: u.owner }, e))
        }
        MOp::Trim => {
            e.is_trim = true;
            e.removed = v.iter().filter(|m| m.state == 3).map(|m| (m.region.clone(), m.gen)).collect();
            Some((Call::Trim, e))
        }
    }
}

async fn exec(call: &Call, ds: &Dataset) -> lance::Result<()> {
    let mut d = ds.clone();
    match call {
        Call::Advance { region, expected, owner, tag } => {
            advance_mem_wal_generation(
                &mut d,
                region,
                &format!("mt-{region}-{tag}"),
                &format!("wal-{region}-{tag}"),
                expected.as_deref(),
                owner,
            )
            .await
        }
        Call::Append { region, gen, entry, owner } => {
            append_mem_wal_entry(&mut d, region, *gen, *entry, owner).await.map(|_| ())
        }
        Call::Seal { region, gen, owner } => mark_mem_wal_as_sealed(&mut d, region, *gen, owner).await.map(|_| ()),
        Call::Flush { region, gen, owner } => mark_mem_wal_as_flushed(&mut d, region, *gen, owner).await.map(|_| ()),
        Call::MarkMerged { region, gen, owner } => {
            mark_mem_wal_as_merged(&mut d, region, *gen, owner).await.map(|_| ())
        }
        Call::MergeInsert { region, gen, owner, uid } => {
            let mut b = MergeInsertBuilder::try_new(Arc::new(d), vec!["uid".to_string()])?;
            b.when_matched(WhenMatched::UpdateAll);
            b.when_not_matched(WhenNotMatched::InsertAll);
            b.conflict_retries(0);
            b.mark_mem_wal_as_merged(MemWalId::new(region, *gen), owner).await?;
            let job = b.try_build()?;
            let batch = base_batch(&[default_row(*uid)]);
            let schema = batch.schema();
            let reader = arrow_array::RecordBatchIterator::new(vec![Ok(batch)], schema);
            job.execute_reader(reader).await.map(|_| ())
        }
        Call::Owner { region, gen, new_owner } => {
            update_mem_wal_owner(&mut d, region, *gen, new_owner, None).await.map(|_| ())
        }
        Call::Trim => trim_mem_wal_index(&mut d).await,
    }
}

/// raw MemWAL list of a version (duplicates preserved)
async fn read_list(ds: &Dataset) -> Result<Vec<MW>, String> {
    let idx = ds.load_indices().await.map_err(|e| format!("load_indices: {e}"))?;
    let metas: Vec<_> = idx.iter().filter(|i| i.name == MEM_WAL_INDEX_NAME).collect();
    if metas.is_empty() {
        return Ok(vec![]);
    }
    if metas.len() > 1 {
        return Err(format!("{} MemWAL index entries in one version", metas.len()));
    }
    let any = metas[0].index_details.as_ref().ok_or("MemWAL index without details")?;
    let msg = any
        .to_msg::<lance_table::format::pb::MemWalIndexDetails>()
        .map_err(|e| format!("cannot decode MemWAL details: {e}"))?;
    let det = MemWalIndexDetails::try_from(msg).map_err(|e| format!("bad MemWAL details: {e}"))?;
    let mut v: Vec<MW> = det
        .mem_wal_list
        .iter()
        .map(|m| MW {
            region: m.id.region.clone(),
            gen: m.id.generation,
            state: st(&m.state),
            owner: m.owner_id.clone(),
            hi: m.wal_entries().range().map(|r| *r.end()).unwrap_or(0),
        })
        .collect();
    v.sort();
    Ok(v)
}

#[derive(Clone)]
pub struct MBase {
    snapshot: Snapshot,
    version: u64,
    list: Vec<MW>,
    uids: BTreeSet<i32>,
}

fn make_base() -> MBase {
    let r = vds::run_catch(async {
        let env = Env::new();
        // MemWAL is set up on an empty-ish table first and the rows are appended afterwards, so that
        // the base table has content whatever the MemWAL commits do to existing fragments
        let mut ds = create_base(&env, URI, &[100..101], &TableOpts::default()).await?;
        // R1: gen0 Merged, gen1 Flushed, gen2 Sealed, gen3 Open
        advance_mem_wal_generation(&mut ds, "R1", "mt-R1-b0", "wal-R1-b0", None, "o0").await?;
        advance_mem_wal_generation(&mut ds, "R1", "mt-R1-b1", "wal-R1-b1", Some("o0"), "o1").await?;
        advance_mem_wal_generation(&mut ds, "R1", "mt-R1-b2", "wal-R1-b2", Some("o1"), "o2").await?;
        advance_mem_wal_generation(&mut ds, "R1", "mt-R1-b3", "wal-R1-b3", Some("o2"), "o3").await?;
        mark_mem_wal_as_flushed(&mut ds, "R1", 0, "o0").await?;
        mark_mem_wal_as_merged(&mut ds, "R1", 0, "o0").await?;
        mark_mem_wal_as_flushed(&mut ds, "R1", 1, "o1").await?;
        env.write(URI, vec![base_batch(&default_rows(0..3))], env.write_params(lance::dataset::WriteMode::Append)).await?;
        let ds = env.open(URI).await?;
        let list = read_list(&ds).await.map_err(|e| lance::Error::invalid_input(e, snafu::location!()))?;
        let uids = scan_base(&ds).await?.iter().map(|r| r.uid).collect();
        Ok::<_, lance::Error>(MBase { snapshot: env.store.snapshot(), version: ds.version().version, list, uids })
    });
    match r {
        Ok(Ok(b)) => b,
        Ok(Err(e)) => vcore::machinery_error(&format!("cannot build the MemWAL base: {e}")),
        Err(p) => vcore::machinery_error(&format!("panic while building the MemWAL base: {p}")),
    }
}

#[derive(Clone, Debug, PartialEq, Eq, Hash, Serialize, Deserialize)]
pub struct MHist {
    pub steps: Vec<(usize, MOp)>,
}

#[derive(Default)]
struct MOut {
    outcomes: Vec<String>,
    violations: Vec<Violation>,
    states: Vec<u64>,
    transitions: u64,
    conflicts: u64,
    rebased: u64,
    spurious: u64,
    refused: u64,
    machinery: Option<String>,
}

#[derive(Clone)]
struct Commit {
    modified: BTreeSet<(String, u64)>,
    removed: BTreeSet<(String, u64)>,
    kind: String,
    data_op: bool,
}

fn run_hist(base: &MBase, h: &MHist) -> MOut {
    let mut out = MOut::default();
    if let Err(p) = vds::run_catch(run_hist_inner(base, h, &mut out)) {
        out.machinery = Some(format!("harness panic: {p}"));
    }
    out
}

async fn run_hist_inner(base: &MBase, h: &MHist, out: &mut MOut) {
    let env = Env::from_store(MemStore::from_snapshot(&base.snapshot));
    let nh = h.steps.iter().map(|(i, _)| *i + 1).max().unwrap_or(1);
    let mut handles: Vec<Option<Dataset>> = vec![None; nh];
    let mut read_idx = vec![0usize; nh];
    let mut lists: Vec<Vec<MW>> = vec![base.list.clone()];
    let mut commits: Vec<Commit> = vec![];
    let mut uids = base.uids.clone();
    // invariants over the whole history
    let mut ever: BTreeMap<(String, u64), u8> = base.list.iter().map(|m| ((m.region.clone(), m.gen), m.state)).collect();
    let mut gone: BTreeSet<(String, u64)> = BTreeSet::new();
    let mut kinds: Vec<String> = vec![];

    for (si, (hi, op)) in h.steps.iter().enumerate() {
        if matches!(op, MOp::Refresh) {
            handles[*hi] = None;
            read_idx[*hi] = lists.len() - 1;
            out.outcomes.push("refreshed".into());
            continue;
        }
        let ri = read_idx[*hi];
        let Some((call, eff)) = plan(op, &lists[ri], si) else {
            out.outcomes.push("not-enabled".into());
            continue;
        };
        if handles[*hi].is_none() {
            match env.open_version(URI, base.version + ri as u64).await {
                Ok(d) => handles[*hi] = Some(d),
                Err(e) => {
                    out.machinery = Some(format!("cannot open version: {e}"));
                    return;
                }
            }
        }
        let ds = handles[*hi].clone().unwrap();
        kinds.push(op.kind());
        let kindsj = kinds.join(">");
        let case = json!({"hist": h, "failing_step": si});
        let latest = lists.last().unwrap().clone();
        let prev_version = base.version + lists.len() as u64 - 1;
        let between = &commits[ri..];

        // ---- model verdict
        let mine = eff.modified_ids();
        let their_mod: BTreeSet<(String, u64)> = between.iter().flat_map(|c| c.modified.iter().cloned()).collect();
        let their_rm: BTreeSet<(String, u64)> = between.iter().flat_map(|c| c.removed.iter().cloned()).collect();
        let clash: Vec<_> = mine.iter().filter(|id| their_mod.contains(*id) || their_rm.contains(*id)).cloned().collect();
        let must_fail = if !clash.is_empty() {
            Some(format!("{clash:?} also changed or trimmed by an intervening commit"))
        } else {
            None
        };
        let mut expect = latest.clone();
        if must_fail.is_none() {
            for id in &eff.removed {
                expect.retain(|m| !(m.region == id.0 && m.gen == id.1));
            }
            for u in &eff.updated {
                expect.retain(|m| !(m.region == u.region && m.gen == u.gen));
                expect.push(u.clone());
            }
            for a in &eff.added {
                expect.push(a.clone());
            }
            expect.sort();
        }

        // ---- the real call
        let res = {
            use futures::FutureExt;
            std::panic::AssertUnwindSafe(exec(&call, &ds))
                .catch_unwind()
                .await
                .map_err(|p| vcore::panic_message(&p))
        };
        out.transitions += 1;
        let res = match res {
            Ok(r) => r,
            Err(p) => {
                out.violations.push(Violation::new(
                    "panic",
                    &format!("c39/panic/{kindsj}"),
                    format!("{} panicked: {p}", op.kind()),
                    case,
                ));
                out.outcomes.push("panic".into());
                return;
            }
        };
        let fresh = match env.open(URI).await {
            Ok(d) => d,
            Err(e) => {
                out.violations.push(Violation::new(
                    "open",
                    &format!("c39/unreadable/{kindsj}"),
                    format!("table cannot be opened after {kindsj}: {e}"),
                    case,
                ));
                return;
            }
        };
        let real = match read_list(&fresh).await {
            Ok(l) => l,
            Err(e) => {
                out.violations.push(Violation::new(
                    "memwal-readable",
                    &format!("c39/unreadable-index/{kindsj}"),
                    format!("MemWAL index unreadable after {kindsj}: {e}"),
                    case,
                ));
                return;
            }
        };
        let ver = fresh.version().version;
        let real_uids: BTreeSet<i32> = match scan_base(&fresh).await {
            Ok(r) => r.iter().map(|x| x.uid).collect(),
            Err(e) => {
                out.machinery = Some(format!("scan failed: {e}"));
                return;
            }
        };

        match &res {
            Ok(()) => {
                if ver != prev_version + 1 {
                    if ver == prev_version && eff.is_trim && eff.removed.is_empty() {
                        out.outcomes.push("ok-nocommit".into());
                        continue;
                    }
                    out.violations.push(Violation::new(
                        "version",
                        &format!("c39/version/{kindsj}"),
                        format!("Ok but version {ver}, expected {}", prev_version + 1),
                        case,
                    ));
                    return;
                }
                if let Some(why) = &must_fail {
                    // which invariant does the resulting list break?
                    let reappeared: Vec<_> = real
                        .iter()
                        .filter(|m| their_rm.contains(&(m.region.clone(), m.gen)))
                        .map(|m| (m.region.clone(), m.gen))
                        .collect();
                    // root cause first: another transaction *rewrote* the same generation and both
                    // committed; only when nobody did, the clash is with a trim
                    let mut rewriters: Vec<String> = between
                        .iter()
                        .filter(|c| clash.iter().any(|id| c.modified.contains(id)))
                        .map(|c| c.kind.clone())
                        .collect();
                    rewriters.sort();
                    rewriters.dedup();
                    // classes: a merge_insert is an Update with mem_wal_to_merge, everything else an
                    // UpdateMemWalState
                    let class = |k: &str| if k == "merge_insert_merged" { "MergeInsert" } else { "UpdateMemWalState" };
                    let mut rc: Vec<String> = rewriters.iter().map(|k| class(k).to_string()).collect();
                    rc.sort();
                    rc.dedup();
                    let key = if !rc.is_empty() {
                        format!("c39/both-committed/after-{}", rc.join("+"))
                    } else if !reappeared.is_empty() {
                        "c39/trimmed-generation-reappears/rewrite-after-trim".to_string()
                    } else {
                        "c39/committed-over-trim".to_string()
                    };
                    let other = if rewriters.is_empty() { vec!["trim".to_string()] } else { rewriters };
                    out.violations.push(Violation::new(
                        "same-memwal-concurrent",
                        &key,
                        format!(
                            "{} on a stale handle (after {}) returned Ok although {why}; list now {:?}",
                            op.kind(),
                            other.join("+"),
                            real
                        ),
                        case,
                    ));
                    out.outcomes.push("violation".into());
                    return;
                }
                if real != expect {
                    out.violations.push(Violation::new(
                        "serial-replay",
                        &format!("c39/list-mismatch/{kindsj}"),
                        format!("{} returned Ok; MemWAL list {:?}, expected {:?}", op.kind(), real, expect),
                        case,
                    ));
                    out.outcomes.push("violation".into());
                    return;
                }
                if let Some(u) = eff.inserted_uid {
                    uids.insert(u);
                }
                if real_uids != uids {
                    // not pruned: the MemWAL state machine below is explored regardless, with the
                    // row expectation re-synchronised to what the table now holds
                    let class = if eff.inserted_uid.is_some() { "merge_insert" } else { "update_mem_wal_state" };
                    out.violations.push(Violation::new(
                        "table-rows-kept",
                        &format!("c39/table-rows-lost/{class}"),
                        format!(
                            "{} returned Ok and the table rows changed: uids {:?}, expected {:?} (after {kindsj})",
                            op.kind(),
                            real_uids,
                            uids
                        ),
                        case.clone(),
                    ));
                    uids = real_uids.clone();
                }
                if between.is_empty() {
                    out.outcomes.push("ok".into());
                } else {
                    out.outcomes.push("ok-rebased".into());
                    out.rebased += 1;
                }
                commits.push(Commit {
                    modified: mine.clone(),
                    removed: eff.removed.iter().cloned().collect(),
                    kind: op.kind(),
                    data_op: eff.inserted_uid.is_some(),
                });
                lists.push(expect.clone());
            }
            Err(e) => {
                if ver != prev_version || real != latest || real_uids != uids {
                    out.violations.push(Violation::new(
                        "failed-visible",
                        &format!("c39/err-but-changed/{kindsj}"),
                        format!("{} returned {e} but version/list/rows changed: {:?}", op.kind(), real),
                        case,
                    ));
                    return;
                }
                let conflict = matches!(
                    e,
                    lance::Error::CommitConflict { .. }
                        | lance::Error::RetryableCommitConflict { .. }
                        | lance::Error::TooMuchWriteContention { .. }
                );
                let label = match (must_fail.is_some(), conflict) {
                    (true, true) => {
                        out.conflicts += 1;
                        "conflict"
                    }
                    (false, true) => {
                        out.spurious += 1;
                        "spurious-conflict"
                    }
                    (_, false) => {
                        out.refused += 1;
                        "refused"
                    }
                };
                out.outcomes.push(format!("{label}-{}", err_class(e)));
            }
        }
        let _ = commits.last().map(|c| c.data_op);

        // ---- state-machine invariants on the raw list of the latest version
        let mut seen: HashSet<(String, u64)> = HashSet::new();
        for m in &real {
            let id = (m.region.clone(), m.gen);
            if !seen.insert(id.clone()) {
                out.violations.push(Violation::new(
                    "generation-unique",
                    &format!("c39/duplicate-generation/{}", kinds.last().unwrap()),
                    format!("generation {id:?} appears twice after {kindsj}: {real:?}"),
                    case.clone(),
                ));
                return;
            }
            if gone.contains(&id) {
                out.violations.push(Violation::new(
                    "trimmed-stays-gone",
                    &format!("c39/trimmed-generation-reappears/{}", kinds.last().unwrap()),
                    format!("generation {id:?} was trimmed earlier and is back after {kindsj}: {real:?}"),
                    case.clone(),
                ));
                return;
            }
            if let Some(prev) = ever.get(&id) {
                if m.state < *prev {
                    out.violations.push(Violation::new(
                        "state-monotone",
                        &format!("c39/state-went-back/{}", kinds.last().unwrap()),
                        format!("generation {id:?} went {} -> {} after {kindsj}", st_name(*prev), st_name(m.state)),
                        case.clone(),
                    ));
                    return;
                }
            }
            ever.insert(id, m.state);
        }
        for id in ever.keys() {
            if !seen.contains(id) {
                gone.insert(id.clone());
            }
        }
        let regions: BTreeSet<String> = ever.keys().map(|k| k.0.clone()).collect();
        for r in regions {
            let gens: Vec<u64> = ever.keys().filter(|k| k.0 == r).map(|k| k.1).collect();
            let max = *gens.iter().max().unwrap();
            if gens.len() as u64 != max + 1 {
                out.violations.push(Violation::new(
                    "generations-consecutive",
                    &format!("c39/generation-gap/{}", kinds.last().unwrap()),
                    format!("region {r}: generations ever created {gens:?} are not 0..={max} after {kindsj}"),
                    case.clone(),
                ));
                return;
            }
            for m in real.iter().filter(|m| m.region == r) {
                if m.state == 0 && m.gen != max {
                    out.violations.push(Violation::new(
                        "only-latest-open",
                        &format!("c39/old-generation-open/{}", kinds.last().unwrap()),
                        format!("region {r}: generation {} is Open but the latest is {max} after {kindsj}", m.gen),
                        case.clone(),
                    ));
                    return;
                }
            }
        }
        out.states.push(vcore::hash64(format!("{real:?}{real_uids:?}").as_bytes()));
    }
}

fn alphabet() -> Vec<MOp> {
    let r1 = || "R1".to_string();
    vec![
        MOp::Advance { region: r1() },
        MOp::Advance { region: "R2".to_string() },
        MOp::Append { region: r1() },
        MOp::Seal { region: r1() },
        MOp::Flush { region: r1() },
        MOp::MarkMerged { region: r1() },
        MOp::MergeInsert { region: r1() },
        MOp::Owner { region: r1(), which: Which::Latest },
        MOp::Owner { region: r1(), which: Which::Oldest },
        MOp::Trim,
    ]
}

pub fn run(ctx: &Ctx) -> Outcome {
    let mut out = Outcome::new("model_checking");
    let base = make_base();
    if let Some(art) = ctx.replay_case() {
        let h: MHist = serde_json::from_value(art["case"]["hist"].clone())
            .unwrap_or_else(|e| vcore::machinery_error(&format!("bad replay case: {e}")));
        let o = run_hist(&base, &h);
        if let Some(m) = &o.machinery {
            vcore::machinery_error(m);
        }
        out.set("states", o.states.len() as u64);
        out.set("transitions", o.transitions);
        out.set("traces_validated_against_impl", 1u64);
        out.set("samples", json!([{"hist": h, "outcomes": o.outcomes}]));
        out.violations = o.violations;
        return out;
    }
    let quick = ctx.quick();
    let a = alphabet();
    let mut hists: Vec<MHist> = vec![];
    // all-stale: every step on its own handle pinned at the base version
    let max_len = if quick { 3 } else { 4 };
    for seq in vcore::smallx::sequences(a.len(), 2, max_len) {
        hists.push(MHist { steps: seq.iter().enumerate().map(|(i, o)| (i, a[*o].clone())).collect() });
    }
    let n_stale = hists.len();
    // forked: handle 0 progresses sequentially (refresh between its ops), handle 1 stays at the base
    for x in &a {
        for y in &a {
            for z in &a {
                hists.push(MHist {
                    steps: vec![(0, x.clone()), (0, MOp::Refresh), (0, y.clone()), (1, z.clone())],
                });
                if !quick {
                    for w in &a {
                        hists.push(MHist {
                            steps: vec![
                                (0, x.clone()),
                                (0, MOp::Refresh),
                                (0, y.clone()),
                                (0, MOp::Refresh),
                                (0, z.clone()),
                                (1, w.clone()),
                            ],
                        });
                    }
                }
            }
        }
    }
    let total = hists.len();
    let wall_cap = ctx.tier.pick(40.0, 840.0);
    let start = std::time::Instant::now();
    if ctx.seed != 0 {
        let k = (ctx.seed as usize) % total.max(1);
        hists.rotate_left(k);
    }
    let results = vcore::par_map(hists, ctx.workers, |_, h| {
        if start.elapsed().as_secs_f64() > wall_cap {
            return (h, None);
        }
        let o = run_hist(&base, &h);
        (h, Some(o))
    });
    let mut results: Vec<_> = results.into_iter().collect();
    results.sort_by_key(|(h, _)| h.steps.len());
    let mut states: HashSet<u64> = HashSet::new();
    let mut outcomes: BTreeMap<String, u64> = BTreeMap::new();
    let (mut transitions, mut conflicts, mut rebased, mut spurious, mut refused, mut skipped, mut histories) =
        (0u64, 0u64, 0u64, 0u64, 0u64, 0u64, 0u64);
    let mut samples: Vec<Value> = vec![];
    let mut max_depth = 0usize;
    for (h, o) in results {
        let Some(o) = o else {
            skipped += 1;
            continue;
        };
        if let Some(m) = &o.machinery {
            vcore::machinery_error(m);
        }
        histories += 1;
        transitions += o.transitions;
        conflicts += o.conflicts;
        rebased += o.rebased;
        spurious += o.spurious;
        refused += o.refused;
        states.extend(o.states.iter().copied());
        max_depth = max_depth.max(o.outcomes.len());
        for (i, oc) in o.outcomes.iter().enumerate() {
            *outcomes.entry(format!("{}:{}", h.steps[i].1.kind(), oc)).or_insert(0) += 1;
        }
        if samples.len() < 6 && histories % 397 == 1 {
            samples.push(json!({"hist": h, "outcomes": o.outcomes}));
        }
        out.violations.extend(o.violations);
    }
    if ctx.opts.contains_key("debug") {
        eprintln!("outcomes {outcomes:?}");
        let mut keys: BTreeMap<String, (usize, String)> = BTreeMap::new();
        for v in &out.violations {
            let e = keys.entry(v.key.clone()).or_insert((0, format!("{} :: {}", v.what, v.case)));
            e.0 += 1;
        }
        for (k, (n, w)) in keys {
            eprintln!("V[{n}] {k} :: {}", w.chars().take(500).collect::<String>());
        }
    }
    if conflicts == 0 || rebased == 0 {
        vcore::machinery_error(&format!("vacuous exploration: {conflicts} conflicts, {rebased} rebased commits"));
    }
    out.set("states", states.len() as u64);
    out.set("transitions", transitions);
    out.set("traces_validated_against_impl", histories);
    out.set("histories", histories);
    out.set("all_stale_histories_enumerated", n_stale as u64);
    out.set("forked_histories_enumerated", (total - n_stale) as u64);
    out.set("max_depth", max_depth as u64);
    out.set("distinct_outcomes", json!(outcomes));
    out.set("conflicts_reached", conflicts);
    out.set("rebased_commits", rebased);
    out.set("spurious_conflicts", spurious);
    out.set("refused_calls", refused);
    out.set("samples", json!(samples));
    out.set("exhaustive", skipped == 0);
    if skipped > 0 {
        out.set("cap_hit", format!("wall cap {wall_cap}s: {skipped} of {total} histories not run"));
    }
    out.set(
        "bound_completed",
        if quick {
            "all sequences of 2 and 3 ops (10-op alphabet, regions R1/R2) each on its own handle pinned at the base; all (x; refresh; y on h0 | z on stale h1)"
        } else {
            "all sequences of 2..4 ops each on its own stale handle; all forked histories with 2 and 3 sequential ops on h0 and one op on stale h1"
        },
    );
    out.assume("a writer derives generation and expected owner from its own (possibly stale) view");
    out.assume("two transactions conflict when they add/rewrite the same (region, generation); a trim removes by id and conflicts only with a later stale rewrite of a generation it removed (Merged is terminal, so trimming a generation whose owner changed concurrently is not judged)");
    out.assume("no user index exists, so trim removes every Merged generation");
    out.assume("MemStore implements the object_store contract");
    out
}
