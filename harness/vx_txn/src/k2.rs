//! K2: stale-handle histories on the real Dataset.
//!
//! One history = restore the base store snapshot, open K handles at the base version (each with a
//! fresh session), apply the steps `(handle, op)` in order *without refreshing the handles* (unless
//! the step is the pseudo-op `Refresh`), and after every step judge the outcome through a fresh
//! open against the reference model.

use crate::model::*;
use arrow_array::{Int32Array, RecordBatch, RecordBatchIterator, StringArray};
use arrow_schema::{DataType, Field, Schema as ArrowSchema};
use futures::TryStreamExt;
use lance::dataset::optimize::{compact_files, CompactionOptions};
use lance::dataset::transaction::{DataReplacementGroup, Operation, Transaction};
use lance::dataset::{
    ColumnAlteration, CommitBuilder, DeleteBuilder, InsertBuilder, MergeInsertBuilder, NewColumnTransform,
    UpdateBuilder, WhenMatched, WhenNotMatched, WriteDestination, WriteMode, WriteParams,
};
use lance::Dataset;
use lance_index::optimize::OptimizeOptions;
use lance_index::scalar::{BuiltinIndexType, ScalarIndexParams};
use lance_index::{DatasetIndexExt, IndexType};
use serde::{Deserialize, Serialize};
use serde_json::{json, Value};
use std::collections::{BTreeMap, BTreeSet, HashSet};
use std::sync::Arc;
use vcore::Violation;
use vds::cells::Cell;
use vds::*;
use vstore::{MemStore, Snapshot};

#[derive(Clone, Debug, PartialEq, Eq, Hash, Serialize, Deserialize)]
pub struct Cfg {
    pub layout: String,
    pub stable: bool,
    /// base table carries a btree index `k_idx` over the layout's fragments plus one unindexed
    /// fragment (uids 6,7)
    #[serde(default)]
    pub indexed: bool,
    /// None = the builders' default (10 re-executions); Some(0) = raw verdict
    pub retries: Option<u32>,
}

impl Cfg {
    pub fn label(&self) -> String {
        format!(
            "{}{}/{}/{}",
            self.layout,
            if self.indexed { "+k_idx" } else { "" },
            if self.stable { "stable" } else { "addr" },
            match self.retries {
                None => "retries=default".to_string(),
                Some(n) => format!("retries={n}"),
            }
        )
    }
}

#[derive(Clone, Debug, PartialEq, Eq, Hash, Serialize, Deserialize)]
pub enum Op {
    /// DELETE WHERE uid IN s (s = [] -> a predicate matching nothing)
    Delete { s: Vec<i32> },
    /// DELETE WHERE true (whole-table short cut, no affected rows)
    DeleteAll,
    /// UPDATE SET k = uid + tag WHERE uid IN s   (RewriteRows)
    Update { s: Vec<i32>, tag: i32 },
    /// merge_insert ON uid, source = rows (uid, uid+tag[, "m<tag>"]) for uid in s;
    /// full schema: WhenMatched::UpdateAll + insert/not (RewriteRows); partial schema (uid,k):
    /// UpdateAll, no insert (RewriteColumns)
    Merge { s: Vec<i32>, tag: i32, partial: bool, insert: bool },
    /// append rows with fresh uids
    Append { uids: Vec<i32> },
    /// compact_files(target_rows = 10^6), with or without deferred index remap
    Compact { defer: bool },
    /// create_index([col]) named `name` (k -> btree, anything else -> bitmap)
    CreateIndex { col: String, name: String, replace: bool },
    OptimizeIndices,
    /// add_columns(x = uid * 2)
    AddColumn,
    /// drop_columns([v])
    DropColumn,
    /// alter_columns(v -> w)
    Rename,
    Config { key: String, val: String },
    SchemaMeta { val: String },
    /// WriteMode::Overwrite with fresh rows (base schema)
    Overwrite { uids: Vec<i32> },
    /// checkout_version(1).restore()
    Restore,
    /// Operation::ReserveFragments { 2 }
    Reserve,
    /// Operation::DataReplacement of fragment 0's data file by one with k = uid + tag
    DataRepl { tag: i32 },
    /// pseudo-op: the handle is re-opened at the latest version
    Refresh,
}

impl Op {
    pub fn kind(&self) -> String {
        match self {
            Op::Delete { .. } => "delete".into(),
            Op::DeleteAll => "delete_all".into(),
            Op::Update { .. } => "update".into(),
            Op::Merge { partial: false, insert: true, .. } => "upsert_full".into(),
            Op::Merge { partial: false, insert: false, .. } => "merge_update_full".into(),
            Op::Merge { partial: true, .. } => "merge_partial".into(),
            Op::Append { .. } => "append".into(),
            Op::Compact { defer: false } => "compact".into(),
            Op::Compact { defer: true } => "compact_defer".into(),
            Op::CreateIndex { col, .. } => format!("create_index_{col}"),
            Op::OptimizeIndices => "optimize_indices".into(),
            Op::AddColumn => "add_column".into(),
            Op::DropColumn => "drop_column".into(),
            Op::Rename => "rename".into(),
            Op::Config { key, .. } => format!("config_{key}"),
            Op::SchemaMeta { .. } => "schema_meta".into(),
            Op::Overwrite { .. } => "overwrite".into(),
            Op::Restore => "restore".into(),
            Op::Reserve => "reserve".into(),
            Op::DataRepl { .. } => "data_replacement".into(),
            Op::Refresh => "refresh".into(),
        }
    }

    /// the public API re-executes the op at the latest version after a retryable conflict
    pub fn reexecutes(&self) -> bool {
        matches!(self, Op::Delete { .. } | Op::DeleteAll | Op::Update { .. } | Op::Merge { .. })
    }

    /// commits the op may make before its own transaction (compaction reserves fragment ids with
    /// ReserveFragments transactions); they change nothing visible and stay even when the op fails
    /// (upper bound: one reservation per compaction task)
    pub fn pre_commits(&self) -> u64 {
        match self {
            Op::Compact { .. } => 4,
            _ => 0,
        }
    }

    /// the op may find nothing to do and return Ok without committing
    pub fn may_skip_commit(&self) -> bool {
        matches!(self, Op::Compact { .. } | Op::OptimizeIndices)
    }

    /// the op always reads the latest version itself (its read version is never stale)
    pub fn reads_latest(&self) -> bool {
        matches!(self, Op::Restore)
    }

    /// The effect the op computes when executed against table `r`.
    pub fn effect(&self, r: &MTable, base: &Base) -> Effect {
        let mut e = Effect::new(&self.kind());
        let present = r.uids();
        match self {
            Op::Delete { s } => {
                e.deleted = s.iter().copied().filter(|u| present.contains(u)).collect();
            }
            Op::DeleteAll => {
                e.deleted = present;
            }
            Op::Update { s, tag } => {
                e.moves_rows = true;
                for u in s.iter().filter(|u| present.contains(u)) {
                    let mut ch = BTreeMap::new();
                    ch.insert(K, Cell::I((*u + *tag) as i64));
                    e.updated.insert(*u, ch);
                }
            }
            Op::Merge { s, tag, partial, insert } => {
                e.moves_rows = !*partial;
                for u in s {
                    let kval = Cell::I((*u + *tag) as i64);
                    let vval = Cell::S(format!("m{tag}"));
                    if present.contains(u) {
                        let mut ch = BTreeMap::new();
                        ch.insert(K, kval);
                        if !*partial {
                            ch.insert(V, vval);
                        }
                        e.updated.insert(*u, ch);
                    } else if *insert && !*partial {
                        let mut row = Row::new();
                        row.insert(UID, Cell::I(*u as i64));
                        row.insert(K, kval);
                        row.insert(V, vval);
                        e.inserted.push(row);
                    }
                }
            }
            Op::Append { uids } => {
                for u in uids {
                    e.inserted.push(base_row(&default_row(*u)));
                }
            }
            Op::Compact { .. } => {
                e.relocates = present;
            }
            Op::CreateIndex { col, name, .. } => {
                if let Some(c) = r.cid(col) {
                    e.index_add.insert(name.clone(), c);
                    e.reads_cols.insert(c);
                }
            }
            Op::OptimizeIndices => {
                e.reads_cols.insert(K);
            }
            Op::AddColumn => {
                let vals: BTreeMap<i32, Cell> = present.iter().map(|u| (*u, Cell::I(2 * *u as i64))).collect();
                e.add_cols.push((Col { cid: 10, name: "x".into() }, vals));
            }
            Op::DropColumn => {
                if r.cols.iter().any(|c| c.cid == V) {
                    e.drop_cols.push(V);
                }
            }
            Op::Rename => {
                if r.cols.iter().any(|c| c.cid == V) {
                    e.rename_cols.push((V, "w".into()));
                }
            }
            Op::Config { key, val } => {
                e.config_set.insert(key.clone(), val.clone());
            }
            Op::SchemaMeta { val } => {
                e.schema_meta_set.insert("m".into(), val.clone());
            }
            Op::Overwrite { uids } => {
                let rows: Vec<MRow> = uids.iter().map(|u| default_row(*u)).collect();
                let mut t = MTable::base(&rows);
                t.config = BTreeMap::new();
                e.replace = Some(Box::new(t));
                e.replace_keeps_config = true;
            }
            Op::Restore => {
                e.replace = Some(Box::new(base.v1_table.clone()));
            }
            Op::Reserve => {}
            Op::DataRepl { tag } => {
                for u in base.frags[0].clone().filter(|u| present.contains(u)) {
                    let mut ch = BTreeMap::new();
                    ch.insert(K, Cell::I((u + *tag) as i64));
                    e.updated.insert(u, ch);
                }
            }
            Op::Refresh => {}
        }
        e
    }

    /// Run the op on the (stale) handle.
    pub async fn exec(&self, ds: Arc<Dataset>, base: &Base, retries: Option<u32>) -> lance::Result<()> {
        match self {
            Op::Delete { s } => {
                let mut b = DeleteBuilder::new(ds, in_pred(s));
                if let Some(n) = retries {
                    b = b.conflict_retries(n);
                }
                b.execute().await.map(|_| ())
            }
            Op::DeleteAll => {
                let mut b = DeleteBuilder::new(ds, "true");
                if let Some(n) = retries {
                    b = b.conflict_retries(n);
                }
                b.execute().await.map(|_| ())
            }
            Op::Update { s, tag } => {
                let mut b = UpdateBuilder::new(ds)
                    .update_where(&in_pred(s))?
                    .set("k", &format!("uid + {tag}"))?;
                if let Some(n) = retries {
                    b = b.conflict_retries(n);
                }
                b.build()?.execute().await.map(|_| ())
            }
            Op::Merge { s, tag, partial, insert } => {
                let mut b = MergeInsertBuilder::try_new(ds, vec!["uid".to_string()])?;
                b.when_matched(WhenMatched::UpdateAll);
                b.when_not_matched(if *insert && !*partial {
                    WhenNotMatched::InsertAll
                } else {
                    WhenNotMatched::DoNothing
                });
                if let Some(n) = retries {
                    b.conflict_retries(n);
                }
                let job = b.try_build()?;
                let batch = merge_source(s, *tag, *partial);
                let schema = batch.schema();
                let reader = RecordBatchIterator::new(vec![Ok(batch)], schema);
                job.execute_reader(reader).await.map(|_| ())
            }
            Op::Append { uids } => {
                let rows: Vec<MRow> = uids.iter().map(|u| default_row(*u)).collect();
                let p = WriteParams { mode: WriteMode::Append, ..Default::default() };
                InsertBuilder::new(WriteDestination::Dataset(ds))
                    .with_params(&p)
                    .execute(vec![base_batch(&rows)])
                    .await
                    .map(|_| ())
            }
            Op::Compact { defer } => {
                let mut d = (*ds).clone();
                let opts = CompactionOptions {
                    target_rows_per_fragment: 1_000_000,
                    defer_index_remap: *defer,
                    ..Default::default()
                };
                compact_files(&mut d, opts, None).await.map(|_| ())
            }
            Op::CreateIndex { col, name, replace } => {
                let mut d = (*ds).clone();
                let (ty, params) = if col == "k" {
                    (IndexType::BTree, ScalarIndexParams::for_builtin(BuiltinIndexType::BTree))
                } else {
                    (IndexType::Bitmap, ScalarIndexParams::for_builtin(BuiltinIndexType::Bitmap))
                };
                d.create_index(&[col.as_str()], ty, Some(name.clone()), &params, *replace).await
            }
            Op::OptimizeIndices => {
                let mut d = (*ds).clone();
                d.optimize_indices(&OptimizeOptions::default()).await
            }
            Op::AddColumn => {
                let mut d = (*ds).clone();
                d.add_columns(
                    NewColumnTransform::SqlExpressions(vec![("x".to_string(), "uid * 2".to_string())]),
                    None,
                    None,
                )
                .await
            }
            Op::DropColumn => {
                let mut d = (*ds).clone();
                d.drop_columns(&["v"]).await
            }
            Op::Rename => {
                let mut d = (*ds).clone();
                d.alter_columns(&[ColumnAlteration::new("v".to_string()).rename("w".to_string())])
                    .await
            }
            Op::Config { key, val } => {
                let mut d = (*ds).clone();
                d.update_config([(key.as_str(), val.as_str())]).await.map(|_| ())
            }
            Op::SchemaMeta { val } => {
                let mut d = (*ds).clone();
                d.update_schema_metadata([("m", val.as_str())]).await.map(|_| ())
            }
            Op::Overwrite { uids } => {
                let rows: Vec<MRow> = uids.iter().map(|u| default_row(*u)).collect();
                let p = WriteParams {
                    mode: WriteMode::Overwrite,
                    enable_stable_row_ids: base.stable,
                    ..Default::default()
                };
                InsertBuilder::new(WriteDestination::Dataset(ds))
                    .with_params(&p)
                    .execute(vec![base_batch(&rows)])
                    .await
                    .map(|_| ())
            }
            Op::Restore => {
                let mut d = ds.checkout_version(1).await?;
                d.restore().await
            }
            Op::Reserve => {
                let t = Transaction::new(
                    ds.manifest().version,
                    Operation::ReserveFragments { num_fragments: 2 },
                    None,
                );
                CommitBuilder::new(ds).execute(t).await.map(|_| ())
            }
            Op::DataRepl { tag } => {
                let frag = ds.get_fragment(0).ok_or_else(|| lance::Error::invalid_input(
                    "fragment 0 not present at the read version",
                    snafu::location!(),
                ))?;
                let old = frag.metadata().files[0].clone();
                let name = format!("dr-{}.lance", uuid::Uuid::new_v4());
                let path = ds.data_dir().child(name.as_str());
                let ow = ds.object_store().create(&path).await?;
                let version = lance_file::version::LanceFileVersion::try_from_major_minor(
                    old.file_major_version,
                    old.file_minor_version,
                )?;
                let mut w = lance_file::writer::FileWriter::try_new(
                    ow,
                    ds.schema().clone(),
                    lance_file::writer::FileWriterOptions { format_version: Some(version), ..Default::default() },
                )?;
                let rows: Vec<MRow> = base.frags[0]
                    .clone()
                    .map(|u| {
                        let mut r = default_row(u);
                        r.k = Some(u + *tag);
                        r
                    })
                    .collect();
                w.write_batch(&base_batch(&rows)).await?;
                w.finish().await?;
                let mut nf = old.clone();
                nf.path = name;
                nf.file_size_bytes = Default::default();
                let t = Transaction::new(
                    ds.manifest().version,
                    Operation::DataReplacement { replacements: vec![DataReplacementGroup(0, nf)] },
                    None,
                );
                CommitBuilder::new(ds).execute(t).await.map(|_| ())
            }
            Op::Refresh => Ok(()),
        }
    }
}

pub fn in_pred(s: &[i32]) -> String {
    if s.is_empty() {
        "uid IN (-1)".to_string()
    } else {
        format!("uid IN ({})", s.iter().map(|u| u.to_string()).collect::<Vec<_>>().join(","))
    }
}

pub fn merge_source(s: &[i32], tag: i32, partial: bool) -> RecordBatch {
    let uid = Int32Array::from(s.to_vec());
    let k = Int32Array::from(s.iter().map(|u| Some(*u + tag)).collect::<Vec<_>>());
    if partial {
        RecordBatch::try_new(
            Arc::new(ArrowSchema::new(vec![
                Field::new("uid", DataType::Int32, false),
                Field::new("k", DataType::Int32, true),
            ])),
            vec![Arc::new(uid), Arc::new(k)],
        )
        .unwrap()
    } else {
        let v = StringArray::from(s.iter().map(|_| Some(format!("m{tag}"))).collect::<Vec<_>>());
        RecordBatch::try_new(Arc::new(base_schema()), vec![Arc::new(uid), Arc::new(k), Arc::new(v)]).unwrap()
    }
}

// ------------------------------------------------------------------------------------------------

/// Base table fixture of one (layout, stable, indexed) combination.
#[derive(Clone)]
pub struct Base {
    pub layout: String,
    pub stable: bool,
    pub indexed: bool,
    pub snapshot: Snapshot,
    pub version: u64,
    pub table: MTable,
    /// table content of version 1 (restore target)
    pub v1_table: MTable,
    /// uid ranges of the base fragments
    pub frags: Vec<std::ops::Range<i32>>,
}

pub fn real_config(ds: &Dataset) -> BTreeMap<String, String> {
    ds.config().iter().map(|(k, v)| (k.clone(), v.clone())).collect()
}

pub fn make_base(layout_name: &str, stable: bool, indexed: bool) -> Base {
    let r = vds::run_catch(async {
        let env = Env::new();
        let mut frags = layout(layout_name);
        let o = TableOpts { stable_row_ids: stable, ..Default::default() };
        let ds = create_base(&env, URI, &frags[..1], &o).await?;
        let mut v1_table = MTable::base(&scan_base(&ds).await?);
        v1_table.config = real_config(&ds);
        let mut indices = BTreeMap::new();
        for r in &frags[1..] {
            let mut p = env.write_params(WriteMode::Append);
            p.enable_stable_row_ids = stable;
            env.write(URI, vec![base_batch(&default_rows(r.clone()))], p).await?;
        }
        if indexed {
            // the index covers every layout fragment; one more fragment stays unindexed so that
            // optimize_indices has work and compaction can still merge the indexed fragments
            let mut ds = env.open(URI).await?;
            ds.create_index(
                &["k"],
                IndexType::BTree,
                Some("k_idx".to_string()),
                &ScalarIndexParams::for_builtin(BuiltinIndexType::BTree),
                false,
            )
            .await?;
            indices.insert("k_idx".to_string(), K);
            let extra = 6..8;
            let mut p = env.write_params(WriteMode::Append);
            p.enable_stable_row_ids = stable;
            env.write(URI, vec![base_batch(&default_rows(extra.clone()))], p).await?;
            frags.push(extra);
        }
        let ds = env.open(URI).await?;
        let mut table = MTable::base(&scan_base(&ds).await?);
        table.config = real_config(&ds);
        table.indices = indices;
        Ok::<_, lance::Error>(Base {
            layout: layout_name.to_string(),
            stable,
            indexed,
            snapshot: env.store.snapshot(),
            version: ds.version().version,
            table,
            v1_table,
            frags,
        })
    });
    match r {
        Ok(Ok(b)) => b,
        Ok(Err(e)) => vcore::machinery_error(&format!("cannot create base table: {e}")),
        Err(p) => vcore::machinery_error(&format!("panic while creating base table: {p}")),
    }
}

pub fn find_base<'a>(bases: &'a [Base], cfg: &Cfg) -> &'a Base {
    bases
        .iter()
        .find(|b| b.stable == cfg.stable && b.layout == cfg.layout && b.indexed == cfg.indexed)
        .unwrap_or_else(|| vcore::machinery_error(&format!("no base fixture for {}", cfg.label())))
}

#[derive(Clone, Debug, PartialEq, Eq, Hash, Serialize, Deserialize)]
pub struct Hist {
    pub cfg: Cfg,
    /// (handle, op); every handle is opened at the base version and only `Refresh` moves it
    pub steps: Vec<(usize, Op)>,
}

#[derive(Clone, Debug, Default)]
pub struct HistOut {
    pub outcomes: Vec<String>,
    pub errs: Vec<Option<String>>,
    pub violations: Vec<Violation>,
    pub foreign: Vec<(String, String)>,
    pub states: Vec<u64>,
    pub transitions: u64,
    pub stale_steps: u64,
    pub conflicts: u64,
    pub rebased_ok: u64,
    pub reexecuted_ok: u64,
    pub spurious: u64,
    /// C24: number of (literal) index-vs-scan comparisons made while an index existed
    pub index_probes: u64,
    /// C24: probes in which the index covered a fragment rewritten after the index read it
    pub index_stale_hits: u64,
    /// C18: row-id checks made
    pub rowid_checks: u64,
    pub machinery: Option<String>,
}

pub fn err_kind(e: &lance::Error) -> &'static str {
    match e {
        lance::Error::RetryableCommitConflict { .. } => "retryable",
        lance::Error::TooMuchWriteContention { .. } => "retryable",
        lance::Error::CommitConflict { .. } => "incompatible",
        _ => "other",
    }
}

/// Which property owns the verdicts of a run (other properties' oracles are logged as foreign).
#[derive(Clone, Copy, PartialEq, Eq, Debug)]
pub enum Prop {
    C03,
    C04,
    C18,
    C24,
}

impl Prop {
    pub fn tag(&self) -> &'static str {
        match self {
            Prop::C03 => "c03",
            Prop::C04 => "c04",
            Prop::C18 => "c18",
            Prop::C24 => "c24",
        }
    }
    fn owns_serial(&self) -> bool {
        matches!(self, Prop::C03 | Prop::C04)
    }
}

/// relation between the uid sets touched by two effects, for classification keys
pub fn relation(a: &BTreeSet<i32>, b: &BTreeSet<i32>, frags: &[std::ops::Range<i32>]) -> &'static str {
    let frag_of = |u: &i32| frags.iter().position(|r| r.contains(u));
    let fa: BTreeSet<_> = a.iter().filter_map(frag_of).collect();
    let fb: BTreeSet<_> = b.iter().filter_map(frag_of).collect();
    if a.is_empty() || b.is_empty() {
        "empty"
    } else if a == b {
        "equal"
    } else if a.intersection(b).next().is_some() {
        "overlap"
    } else if fa.intersection(&fb).next().is_some() {
        "disjoint-same-fragment"
    } else {
        "disjoint-fragments"
    }
}

pub fn run_history(base: &Base, h: &Hist, prop: Prop) -> HistOut {
    let mut out = HistOut::default();
    let r = vds::run_catch(run_history_inner(base, h, prop, &mut out));
    if let Err(p) = r {
        out.machinery = Some(format!(
            "harness panic: {p} in history {}",
            serde_json::to_string(h).unwrap_or_default()
        ));
    }
    out
}

async fn run_history_inner(base: &Base, h: &Hist, prop: Prop, out: &mut HistOut) {
    let env = Env::from_store(MemStore::from_snapshot(&base.snapshot));
    let nh = h.steps.iter().map(|(i, _)| *i + 1).max().unwrap_or(1);
    let mut w = match World::new(base, &env, nh).await {
        Ok(w) => w,
        Err(e) => {
            out.machinery = Some(e);
            return;
        }
    };
    let mut handles: Vec<Option<Arc<Dataset>>> = vec![None; nh];
    for (si, (hi, op)) in h.steps.iter().enumerate() {
        let case = json!({"hist": h, "failing_step": si});
        let so = w.step(base, &env, &mut handles, &h.cfg, prop, *hi, op, case).await;
        out.absorb(so);
        if w.dead || out.machinery.is_some() {
            return;
        }
    }
}

/// What the fresh open shows.
pub struct Observed {
    pub version: u64,
    pub cols: Vec<String>,
    pub bag: Vec<Vec<Cell>>,
    pub config: BTreeMap<String, String>,
    pub schema_meta: BTreeMap<String, String>,
    pub indices: BTreeSet<String>,
    /// (uid, _rowid) in scan order
    pub rowids: Vec<(i32, u64)>,
    pub struct_hash: Option<u64>,
    pub problems: Vec<String>,
}

/// `observe_inner` with panics of the code under test turned into `Err("panic: ..")`.
pub async fn observe(ds: &Dataset, with_row_id: bool) -> Result<Observed, String> {
    use futures::FutureExt;
    match std::panic::AssertUnwindSafe(observe_inner(ds, with_row_id)).catch_unwind().await {
        Ok(r) => r,
        Err(p) => Err(format!("panic: {}", vcore::panic_message(&p))),
    }
}

async fn observe_inner(ds: &Dataset, with_row_id: bool) -> Result<Observed, String> {
    if !with_row_id {
        let (cols, rows) = scan_cells(ds, false, false).await.map_err(|e| format!("scan failed: {e}"))?;
        let idx = ds.load_indices().await.map_err(|e| format!("load_indices failed: {e}"))?;
        let indices: BTreeSet<String> = idx
            .iter()
            .filter(|i| !lance_index::is_system_index(i))
            .map(|i| i.name.clone())
            .collect();
        let (summary, problems) = structure::check_struct(ds).await;
        return Ok(Observed {
            version: ds.version().version,
            cols,
            bag: cells::bag(rows),
            config: real_config(ds),
            schema_meta: ds.schema().metadata.iter().map(|(k, v)| (k.clone(), v.clone())).collect(),
            indices,
            rowids: vec![],
            struct_hash: summary.as_ref().map(structure::hash_of),
            problems,
        });
    }
    let (cols, rows) = scan_cells(ds, true, false).await.map_err(|e| format!("scan failed: {e}"))?;
    if rows.is_empty() {
        let mut o = Box::pin(observe_inner(ds, false)).await?;
        o.rowids = vec![];
        return Ok(o);
    }
    let rid_pos = cols.iter().position(|c| c == "_rowid").ok_or("no _rowid column in scan")?;
    let uid_pos = cols.iter().position(|c| c == "uid").ok_or("no uid column in scan")?;
    let mut rowids = vec![];
    let mut data_rows = vec![];
    for r in rows {
        let rid = match &r[rid_pos] {
            Cell::U(u) => *u,
            Cell::I(i) => *i as u64,
            other => return Err(format!("_rowid is {other:?}")),
        };
        rowids.push((r[uid_pos].as_i64().unwrap_or(-999) as i32, rid));
        let mut r2 = r.clone();
        r2.remove(rid_pos);
        data_rows.push(r2);
    }
    let mut cols2 = cols.clone();
    cols2.remove(rid_pos);
    let idx = ds.load_indices().await.map_err(|e| format!("load_indices failed: {e}"))?;
    let indices: BTreeSet<String> = idx
        .iter()
        .filter(|i| !lance_index::is_system_index(i))
        .map(|i| i.name.clone())
        .collect();
    let (summary, problems) = structure::check_struct(ds).await;
    Ok(Observed {
        version: ds.version().version,
        cols: cols2,
        bag: cells::bag(data_rows),
        config: real_config(ds),
        schema_meta: ds.schema().metadata.iter().map(|(k, v)| (k.clone(), v.clone())).collect(),
        indices,
        rowids,
        struct_hash: summary.as_ref().map(structure::hash_of),
        problems,
    })
}

fn table_matches(t: &MTable, o: &Observed) -> Result<(), String> {
    if t.col_names() != o.cols {
        return Err(format!("columns {:?}, expected {:?}", o.cols, t.col_names()));
    }
    if t.bag() != o.bag {
        return Err(format!("rows {:?}, expected {:?}", o.bag, t.bag()));
    }
    Ok(())
}

fn secondary_matches(t: &MTable, o: &Observed) -> Result<(), (&'static str, String)> {
    if t.config != o.config {
        return Err(("config", format!("config {:?}, expected {:?}", o.config, t.config)));
    }
    if t.schema_meta != o.schema_meta {
        return Err((
            "schema-metadata",
            format!("schema metadata {:?}, expected {:?}", o.schema_meta, t.schema_meta),
        ));
    }
    let want: BTreeSet<String> = t.indices.keys().cloned().collect();
    if want != o.indices {
        return Err(("index-names", format!("index names {:?}, expected {:?}", o.indices, want)));
    }
    Ok(())
}

async fn filter_uids(ds: &Dataset, filter: &str, use_index: bool) -> Result<BTreeSet<i32>, String> {
    use futures::FutureExt;
    match std::panic::AssertUnwindSafe(filter_uids_inner(ds, filter, use_index)).catch_unwind().await {
        Ok(r) => r,
        Err(p) => Err(format!("panic: {}", vcore::panic_message(&p))),
    }
}

async fn filter_uids_inner(ds: &Dataset, filter: &str, use_index: bool) -> Result<BTreeSet<i32>, String> {
    let mut sc = ds.scan();
    sc.use_scalar_index(use_index);
    sc.project(&["uid"]).map_err(|e| e.to_string())?;
    sc.filter(filter).map_err(|e| e.to_string())?;
    let batches: Vec<RecordBatch> = sc
        .try_into_stream()
        .await
        .map_err(|e| e.to_string())?
        .try_collect()
        .await
        .map_err(|e| e.to_string())?;
    let rows = cells::batches_rows(&batches);
    let mut out = BTreeSet::new();
    let mut n = 0;
    for r in rows {
        n += 1;
        out.insert(r[0].as_i64().unwrap_or(-999) as i32);
    }
    if n != out.len() {
        out.insert(-1000 - n as i32); // duplicates must not compare equal to a proper set
    }
    Ok(out)
}

/// One committed step, for classification of index findings.
#[derive(Clone, Debug)]
pub struct LogEntry {
    pub kind: String,
    /// uids whose stored values the transaction wrote, moved, inserted or removed
    pub uids: BTreeSet<i32>,
    /// index into `tables` the transaction read / produced
    pub read_idx: usize,
    pub commit_idx: usize,
    pub index_op: bool,
    pub data_op: bool,
}

/// Result of one step.
#[derive(Default)]
pub struct StepOut {
    pub outcome: String,
    pub err: Option<String>,
    pub violations: Vec<Violation>,
    pub foreign: Vec<(String, String)>,
    pub state: Option<u64>,
    pub transition: bool,
    pub stale: bool,
    pub conflict: bool,
    pub rebased_ok: bool,
    pub reexecuted_ok: bool,
    pub spurious: bool,
    pub index_probes: u64,
    pub index_stale_hits: u64,
    pub rowid_checks: u64,
    pub machinery: Option<String>,
}

impl HistOut {
    pub fn absorb(&mut self, s: StepOut) {
        self.outcomes.push(s.outcome);
        self.errs.push(s.err);
        self.violations.extend(s.violations);
        self.foreign.extend(s.foreign);
        self.states.extend(s.state);
        self.transitions += s.transition as u64;
        self.stale_steps += s.stale as u64;
        self.conflicts += s.conflict as u64;
        self.rebased_ok += s.rebased_ok as u64;
        self.reexecuted_ok += s.reexecuted_ok as u64;
        self.spurious += s.spurious as u64;
        self.index_probes += s.index_probes;
        self.index_stale_hits += s.index_stale_hits;
        self.rowid_checks += s.rowid_checks;
        if s.machinery.is_some() {
            self.machinery = s.machinery;
        }
    }
}

/// Model side of a running history (the store lives in the caller's `Env`).
#[derive(Clone)]
pub struct World {
    /// tables[i] = table at version base.version + i; committed[i] produced tables[i+1]
    pub tables: Vec<MTable>,
    pub committed: Vec<Committed>,
    pub read_idx: Vec<usize>,
    /// C18: last observed uid -> _rowid
    pub rowid_of: BTreeMap<i32, u64>,
    /// C24: every value column k ever held (stale index entries answer for old values)
    pub k_values: BTreeSet<i64>,
    pub log: Vec<LogEntry>,
    pub kinds: Vec<String>,
    /// a violation was found: model and implementation disagree, nothing below is explored
    pub dead: bool,
}

fn collect_k(t: &MTable, acc: &mut BTreeSet<i64>) {
    for r in &t.rows {
        if let Some(Cell::I(i)) = r.get(&K) {
            acc.insert(*i);
        }
    }
}

impl World {
    pub async fn new(base: &Base, env: &Env, nh: usize) -> Result<Self, String> {
        let mut rowid_of = BTreeMap::new();
        if base.stable {
            let ds = env.open(URI).await.map_err(|e| format!("cannot open base: {e}"))?;
            let o = observe(&ds, true).await.map_err(|e| format!("cannot observe base: {e}"))?;
            rowid_of = o.rowids.iter().copied().collect();
        }
        let mut k_values = BTreeSet::new();
        collect_k(&base.table, &mut k_values);
        Ok(Self {
            tables: vec![base.table.clone()],
            committed: vec![],
            read_idx: vec![0; nh],
            rowid_of,
            k_values,
            log: vec![],
            kinds: vec![],
            dead: false,
        })
    }

    pub fn canon(&self) -> u64 {
        let t = self.tables.last().unwrap().canon();
        vcore::hash64(format!("{t}/{:?}/{:?}", self.read_idx, self.rowid_of).as_bytes())
    }

    /// Apply one step on the real table in `env` (through the handle cache) and on the model.
    #[allow(clippy::too_many_arguments)]
    pub async fn step(
        &mut self,
        base: &Base,
        env: &Env,
        handles: &mut [Option<Arc<Dataset>>],
        cfg: &Cfg,
        prop: Prop,
        hi: usize,
        op: &Op,
        case: Value,
    ) -> StepOut {
        let mut out = StepOut::default();
        if matches!(op, Op::Refresh) {
            handles[hi] = None;
            self.read_idx[hi] = self.tables.len() - 1;
            out.outcome = "refreshed".into();
            return out;
        }
        // the handle: pinned at its read version, fresh session when (re)opened
        let ds = match &handles[hi] {
            Some(d) => d.clone(),
            None => {
                let v = base.version + self.read_idx[hi] as u64;
                match env.open_version(URI, v).await {
                    Ok(d) => {
                        let d = Arc::new(d);
                        handles[hi] = Some(d.clone());
                        d
                    }
                    Err(e) => {
                        out.machinery = Some(format!("cannot open version {v}: {e}"));
                        return out;
                    }
                }
            }
        };
        let ptag = prop.tag();
        let latest_model = self.tables.last().unwrap().clone();
        let prev_version = base.version + (self.tables.len() as u64 - 1);
        let ri = if op.reads_latest() { self.tables.len() - 1 } else { self.read_idx[hi] };
        let eff = op.effect(&self.tables[ri], base);
        let between: Vec<Committed> = self.committed[ri..].to_vec();
        let verdict = apply(&eff, &self.tables[ri], &latest_model, &between);
        out.stale = !between.is_empty();
        self.kinds.push(op.kind());
        let kindsj = self.kinds.join(">");
        let their_touched: BTreeSet<i32> = between.iter().flat_map(|c| c.touched.iter().copied()).collect();
        let rel = relation(&eff.touched(), &their_touched, &base.frags);
        // classification context: what this transaction raced with (not the whole history)
        let uniq = |mut v: Vec<String>| {
            v.sort();
            v.dedup();
            v
        };
        let cls = |k: &str| class_of(k).to_string();
        let between_kinds = uniq(between.iter().filter(|c| c.kind != "reserve").map(|c| cls(&c.kind)).collect());
        let mine = effective(&eff, &between).touched();
        let clash_kinds = uniq(
            between
                .iter()
                .filter(|c| c.touched.intersection(&mine).next().is_some())
                .map(|c| cls(&c.kind))
                .collect(),
        );
        let ctxk = if between_kinds.is_empty() {
            uniq(self.kinds.iter().map(|k| cls(k)).collect()).join("+")
        } else {
            format!("{}>{}", between_kinds.join("+"), cls(&op.kind()))
        };
        let ctx_clash = if clash_kinds.is_empty() {
            ctxk.clone()
        } else {
            format!("{}>{}", clash_kinds.join("+"), cls(&op.kind()))
        };
        let keyf = |oracle: &str| format!("{ptag}/{oracle}/{ctxk}/{rel}");
        macro_rules! violate {
            ($owned:expr, $oracle:expr, $key:expr, $what:expr) => {{
                if $owned {
                    out.violations.push(Violation::new($oracle, &$key, $what, case.clone()));
                    self.dead = true;
                } else {
                    out.foreign.push((format!("{} [{}]", $oracle, $key), format!("{}", $what)));
                }
            }};
        }

        // ---- the real step
        let res = {
            use futures::FutureExt;
            std::panic::AssertUnwindSafe(op.exec(ds, base, cfg.retries))
                .catch_unwind()
                .await
                .map_err(|p| vcore::panic_message(&p))
        };
        out.transition = true;
        let res = match res {
            Ok(r) => r,
            Err(p) => {
                violate!(
                    prop.owns_serial(),
                    "panic",
                    format!("{ptag}/panic/{ctxk}/{}", panic_site(&p)),
                    format!("{} panicked on a stale handle: {p}", op.kind())
                );
                self.dead = true;
                out.outcome = "panic".into();
                return out;
            }
        };

        // ---- observe through a fresh open
        let fresh = match env.open(URI).await {
            Ok(d) => d,
            Err(e) => {
                violate!(
                    prop.owns_serial(),
                    "open",
                    keyf("unreadable"),
                    format!("table cannot be opened after {kindsj}: {e}")
                );
                self.dead = true;
                out.outcome = "unreadable".into();
                return out;
            }
        };
        let mut obs = match observe(&fresh, false).await {
            Ok(o) => o,
            Err(e) => {
                violate!(
                    prop.owns_serial(),
                    "scan",
                    keyf("unscannable"),
                    format!("latest version cannot be read after {kindsj}: {e}")
                );
                self.dead = true;
                out.outcome = "unscannable".into();
                return out;
            }
        };
        let ver = obs.version;
        for p in &obs.problems {
            out.foreign.push((
                format!("C05 O-struct [{}/{}]", self.kinds.last().cloned().unwrap_or_default(), norm_msg(p)),
                format!("after {kindsj}: {}", p.chars().take(300).collect::<String>()),
            ));
        }

        let mut new_table: Option<(MTable, Effect, usize)> = None;
        match &res {
            Ok(()) => {
                if ver == prev_version
                    && (eff.is_noop() || op.may_skip_commit())
                    && table_matches(&latest_model, &obs).is_ok()
                {
                    // nothing to do, nothing committed
                    out.outcome = "ok-nocommit".into();
                } else {
                    if ver <= prev_version || ver > prev_version + 1 + op.pre_commits() {
                        violate!(
                            prop.owns_serial(),
                            "version",
                            keyf("version-not-latest-plus-one"),
                            format!(
                                "Ok but latest version is {ver}, expected {}..={}",
                                prev_version + 1,
                                prev_version + 1 + op.pre_commits()
                            )
                        );
                        out.outcome = "violation".into();
                        self.dead = true;
                        return out;
                    }
                    let mut matched = false;
                    let mut mismatch = String::new();
                    if let Verdict::May(t) = &verdict {
                        match table_matches(t, &obs) {
                            Ok(()) => {
                                matched = true;
                                if between.is_empty() {
                                    out.outcome = "ok".into();
                                } else {
                                    out.outcome = "ok-rebased".into();
                                    out.rebased_ok = true;
                                }
                                new_table = Some((t.clone(), eff.clone(), ri));
                            }
                            Err(m) => mismatch = m,
                        }
                    }
                    if !matched && cfg.retries != Some(0) && !between.is_empty() && op.reexecutes() {
                        let eff2 = op.effect(&latest_model, base);
                        if let Verdict::May(t2) = apply(&eff2, &latest_model, &latest_model, &[]) {
                            if table_matches(&t2, &obs).is_ok() {
                                matched = true;
                                out.outcome = "ok-reexecuted".into();
                                out.reexecuted_ok = true;
                                new_table = Some((t2, eff2, self.tables.len() - 1));
                            }
                        }
                    }
                    if !matched {
                        match &verdict {
                            Verdict::MustFail(why) => {
                                let lost = classify_loss(&latest_model, &obs.bag, &obs.cols, &eff);
                                violate!(
                                    prop.owns_serial(),
                                    "lost-update",
                                    format!("{ptag}/ok-on-conflict/{lost}/{ctx_clash}/{rel}"),
                                    format!(
                                        "{} on a stale handle returned Ok although {why}; table now {:?}",
                                        op.kind(),
                                        obs.bag
                                    )
                                );
                            }
                            Verdict::May(_) => {
                                violate!(
                                    prop.owns_serial(),
                                    "serial-replay",
                                    keyf("state-mismatch"),
                                    format!("{} returned Ok but the table has {mismatch}", op.kind())
                                );
                            }
                        }
                        out.outcome = "violation".into();
                        // the model cannot follow the implementation any further
                        self.dead = true;
                        return out;
                    }
                    if let Some((t, _, _)) = &new_table {
                        if let Err((attr, m)) = secondary_matches(t, &obs) {
                            violate!(
                                prop == Prop::C03,
                                "serial-replay-secondary",
                                format!("{ptag}/secondary-mismatch/{attr}/{ctxk}"),
                                format!("{} returned Ok after {kindsj}, rows as expected, but {m}", op.kind())
                            );
                            if self.dead {
                                return out;
                            }
                        }
                    }
                }
            }
            Err(e) => {
                let cls = err_kind(e);
                out.err = Some(format!("{}:{}", cls, err_class(e)));
                // a failed transaction has no visible effect
                if ver < prev_version || ver > prev_version + op.pre_commits() {
                    violate!(
                        prop.owns_serial(),
                        "failed-visible",
                        keyf("err-but-new-version"),
                        format!("{} returned {e} but latest version moved {prev_version} -> {ver}", op.kind())
                    );
                    out.outcome = "violation".into();
                    self.dead = true;
                    return out;
                }
                if let Err(m) = table_matches(&latest_model, &obs) {
                    violate!(
                        prop.owns_serial(),
                        "failed-visible",
                        keyf("err-but-changed"),
                        format!("{} returned {e} but the table changed: {m}", op.kind())
                    );
                    out.outcome = "violation".into();
                    self.dead = true;
                    return out;
                }
                match (&verdict, cls) {
                    (Verdict::MustFail(_), "retryable") => {
                        out.outcome = "conflict-retryable".into();
                        out.conflict = true;
                    }
                    (Verdict::MustFail(_), "incompatible") => {
                        out.outcome = "conflict-incompatible".into();
                        out.conflict = true;
                        if prop == Prop::C04 && !between.iter().any(|c| c.replaced) {
                            out.violations.push(Violation::new(
                                "loser-error",
                                &keyf("loser-not-retryable"),
                                format!("row conflict reported as non-retryable: {e}"),
                                case.clone(),
                            ));
                            self.dead = true;
                            return out;
                        }
                    }
                    (Verdict::May(_), "retryable") => {
                        out.outcome = "spurious-retryable".into();
                        out.spurious = true;
                    }
                    (Verdict::May(_), "incompatible") => {
                        out.outcome = "spurious-incompatible".into();
                        out.spurious = true;
                    }
                    (_, _) => {
                        // refused for another reason (no effect, checked above)
                        out.outcome = format!("refused-{}", err_class(e));
                        if prop == Prop::C04 {
                            out.violations.push(Violation::new(
                                "unexpected-error",
                                &format!("{ptag}/unexpected-error/{ctxk}/{}", err_class(e)),
                                format!("{} failed with a non-conflict error: {e}", op.kind()),
                                case.clone(),
                            ));
                            self.dead = true;
                            return out;
                        }
                    }
                }
            }
        }
        // invisible commits the op made on the way (fragment id reservation)
        {
            let model_versions = self.tables.len() as u64 - 1 + new_table.is_some() as u64;
            let real_versions = ver - base.version;
            for _ in model_versions..real_versions {
                self.committed.push(Committed::of(&Effect::new("reserve")));
                self.tables.push(latest_model.clone());
            }
        }
        let effect_done = new_table.as_ref().map(|(_, e, _)| e.clone());
        if let Some((t, e, read_at)) = new_table {
            self.committed.push(Committed::of(&e));
            collect_k(&t, &mut self.k_values);
            self.tables.push(t);
            let mut uids = e.touched();
            uids.extend(e.relocates.iter().copied());
            uids.extend(e.inserted.iter().map(uid_of));
            self.log.push(LogEntry {
                kind: e.kind.clone(),
                uids,
                read_idx: read_at,
                commit_idx: self.tables.len() - 1,
                index_op: !e.index_add.is_empty() || e.kind == "optimize_indices",
                data_op: !e.touched().is_empty()
                    || !e.inserted.is_empty()
                    || !e.relocates.is_empty()
                    || e.replace.is_some()
                    || !e.add_cols.is_empty()
                    || !e.drop_cols.is_empty(),
            });
        }
        let now = self.tables.last().unwrap().clone();

        // ---- C24: index answers == scan answers == model, for every literal ever stored in k
        if now.indices.values().any(|c| *c == K) && now.cols.iter().any(|c| c.cid == K && c.name == "k") {
            let own = prop == Prop::C24;
            let mut probes: Vec<(String, Option<i64>)> =
                self.k_values.iter().map(|c| (format!("k = {c}"), Some(*c))).collect();
            probes.push(("k IS NULL".to_string(), None));
            // classification: the last index op and the data ops (touching the rows on which the
            // answers differ) it raced with
            let log = self.log.clone();
            let race_of = |diff: &BTreeSet<i32>| -> String {
                let relevant = |x: &LogEntry| x.data_op && (diff.is_empty() || x.uids.intersection(diff).next().is_some());
                let names = |v: Vec<&LogEntry>| {
                    let mut k: Vec<String> = v.into_iter().map(|x| class_of(&x.kind).to_string()).collect();
                    k.sort();
                    k.dedup();
                    k
                };
                let idx_ops: Vec<&LogEntry> = log.iter().filter(|l| l.index_op).collect();
                if idx_ops.is_empty() {
                    return format!("index-then-{}", names(log.iter().filter(|x| relevant(x)).collect()).join("+"));
                }
                // one descriptor per index commit of the history (what it raced with); an index
                // commit that raced with nothing relevant only shows up as "optimize" / not at all
                let mut parts: Vec<String> = vec![];
                for (i, l) in idx_ops.iter().enumerate() {
                    let last = i + 1 == idx_ops.len();
                    let before = names(
                        log.iter()
                            .filter(|x| relevant(x) && x.commit_idx > l.read_idx && x.commit_idx < l.commit_idx)
                            .collect(),
                    );
                    let after = names(
                        log.iter()
                            .filter(|x| relevant(x) && x.commit_idx > l.commit_idx && x.read_idx < l.commit_idx)
                            .collect(),
                    );
                    let later = if last {
                        names(
                            log.iter()
                                .filter(|x| relevant(x) && x.commit_idx > l.commit_idx && x.read_idx >= l.commit_idx)
                                .collect(),
                        )
                    } else {
                        vec![]
                    };
                    // data ops the (first) index commit already saw: they matter when it extends an
                    // older index (base index + optimize)
                    let prior = if i == 0 {
                        names(log.iter().filter(|x| relevant(x) && x.commit_idx <= l.read_idx).collect())
                    } else {
                        vec![]
                    };
                    if !prior.is_empty() {
                        parts.push(format!("index-after-{}", prior.join("+")));
                    }
                    if before.is_empty() && after.is_empty() && later.is_empty() {
                        if l.kind == "optimize_indices" && i > 0 {
                            parts.push("optimize".to_string());
                        }
                        continue;
                    }
                    let mut s = "index".to_string();
                    if !before.is_empty() {
                        s += &format!("-rebased-over-{}", before.join("+"));
                    }
                    if !after.is_empty() {
                        s += &format!("-then-stale-{}", after.join("+"));
                    }
                    if !later.is_empty() {
                        s += &format!("-then-{}", later.join("+"));
                    }
                    parts.push(s);
                }
                if parts.is_empty() || parts.iter().all(|p| p == "optimize") {
                    "index-alone".to_string()
                } else {
                    parts.join("+")
                }
            };
            for (f, lit) in probes {
                let with = filter_uids(&fresh, &f, true).await;
                let without = filter_uids(&fresh, &f, false).await;
                let model: BTreeSet<i32> = now
                    .rows
                    .iter()
                    .filter(|r| match (r.get(&K), lit) {
                        (Some(Cell::I(i)), Some(l)) => *i == l,
                        (Some(Cell::Null), None) => true,
                        _ => false,
                    })
                    .map(uid_of)
                    .collect();
                out.index_probes += 1;
                match (with, without) {
                    (Ok(w), Ok(wo)) => {
                        if w != wo || w != model {
                            out.index_stale_hits += 1;
                            let dir = if w.is_subset(&model) && w != model {
                                "index-misses-rows"
                            } else if model.is_subset(&w) && w != model {
                                "index-returns-extra-rows"
                            } else {
                                "index-differs"
                            };
                            let who = if wo == model { "index-disagrees" } else { "scan-differs-from-model" };
                            let _ = dir;
                            let diff: BTreeSet<i32> = w
                                .symmetric_difference(&model)
                                .chain(wo.symmetric_difference(&model))
                                .copied()
                                .filter(|u| *u > -1000)
                                .collect();
                            let race = race_of(&diff);
                            violate!(
                                own,
                                "index-coverage",
                                format!("c24/{who}/{race}"),
                                format!(
                                    "`{f}` ({dir}): with index {w:?}, without index {wo:?}, model {model:?} after {kindsj}"
                                )
                            );
                            break;
                        }
                    }
                    (a, b) => {
                        let race = race_of(&BTreeSet::new());
                        violate!(
                            own,
                            "index-query",
                            format!("c24/query-error/{race}"),
                            format!("`{f}` failed after {kindsj}: with index {a:?}, without {b:?}")
                        );
                        break;
                    }
                }
            }
            if self.dead {
                out.outcome = "violation".into();
                return out;
            }
        }

        // ---- C18: stable row ids
        if base.stable {
            out.rowid_checks += 1;
            let own = prop == Prop::C18;
            match observe(&fresh, true).await {
                Ok(o2) => {
                    if o2.bag != obs.bag {
                        violate!(
                            own,
                            "rowid-scan",
                            format!("c18/rowid-scan-differs/{ctxk}"),
                            format!("scan with _rowid returns rows {:?}, plain scan {:?}", o2.bag, obs.bag)
                        );
                    }
                    obs.rowids = o2.rowids;
                }
                Err(e) => {
                    let site = if e.starts_with("panic") { panic_site(&e) } else { "error".to_string() };
                    violate!(
                        own,
                        "rowid-scan",
                        format!("c18/rowid-scan-fails/{site}/{}", self.kinds.last().cloned().unwrap_or_default()),
                        format!("scan with _rowid fails after {kindsj}: {e}")
                    );
                    if self.dead {
                        out.outcome = "violation".into();
                    }
                    // without row ids nothing more can be said about this state
                    let st = (now.canon(), base.stable, obs.struct_hash);
                    out.state = Some(vcore::hash64(format!("{st:?}").as_bytes()));
                    self.rowid_of.clear();
                    return out;
                }
            }
            if !fresh.manifest().uses_stable_row_ids() {
                violate!(
                    own,
                    "stable-flag",
                    format!(
                        "c18/stable-row-id-flag-lost/commit-on-{}table",
                        if latest_model.rows.is_empty() { "empty-" } else { "" }
                    ),
                    format!(
                        "the table was created with stable row ids; after {kindsj} the manifest no longer carries the feature flag (row ids of later writes are addresses)"
                    )
                );
            }
            if self.dead {
                out.outcome = "violation".into();
                return out;
            }
            let mut seen: BTreeMap<u64, i32> = BTreeMap::new();
            let mut bad = false;
            for (u, rid) in &obs.rowids {
                if let Some(other) = seen.insert(*rid, *u) {
                    violate!(
                        own,
                        "rowid-unique",
                        format!("c18/duplicate-rowid/{ctxk}"),
                        format!("_rowid {rid} carried by uid {other} and uid {u} after {kindsj}")
                    );
                    bad = true;
                    break;
                }
            }
            let new_map: BTreeMap<i32, u64> = obs.rowids.iter().copied().collect();
            if !bad {
                if let Some(e) = &effect_done {
                    // uids that live on through this commit keep their id
                    if e.replace.is_none() {
                        let reinserted: BTreeSet<i32> = e.inserted.iter().map(uid_of).collect();
                        for (u, rid) in &new_map {
                            if reinserted.contains(u) || e.deleted.contains(u) {
                                continue;
                            }
                            if let Some(old) = self.rowid_of.get(u) {
                                if old != rid {
                                    let how = if e.updated.contains_key(u) { "updated" } else { "untouched" };
                                    violate!(
                                        own,
                                        "rowid-stable",
                                        format!("c18/rowid-changed/{how}/{ctxk}"),
                                        format!("uid {u} ({how} by {}) had _rowid {old}, now {rid}", e.kind)
                                    );
                                    bad = true;
                                    break;
                                }
                            }
                        }
                    }
                }
            }
            if !bad {
                // take_rows resolves every visible id to the row's current values
                let ids: Vec<u64> = obs.rowids.iter().map(|(_, r)| *r).collect();
                let proj = lance::dataset::ProjectionRequest::from_schema(fresh.schema().clone());
                let taken = {
                    use futures::FutureExt;
                    match std::panic::AssertUnwindSafe(fresh.take_rows(&ids, proj)).catch_unwind().await {
                        Ok(r) => r.map_err(|e| e.to_string()),
                        Err(p) => Err(format!("panic: {}", vcore::panic_message(&p))),
                    }
                };
                match taken {
                    Ok(b) => {
                        let rows = cells::batch_rows(&b);
                        let cols = cells::batch_cols(&b);
                        let up = cols.iter().position(|c| c == "uid").unwrap_or(0);
                        let want: Vec<i32> = obs.rowids.iter().map(|(u, _)| *u).collect();
                        let got: Vec<i32> = rows.iter().map(|r| r[up].as_i64().unwrap_or(-999) as i32).collect();
                        let got_bag = cells::bag(rows.clone());
                        if got != want || (cols == obs.cols && got_bag != obs.bag) {
                            violate!(
                                own,
                                "rowid-resolvable",
                                format!("c18/take-rows-wrong/{ctxk}"),
                                format!(
                                    "take_rows({ids:?}) returned uids {got:?} (rows {got_bag:?}), scan says uids {want:?} (rows {:?})",
                                    obs.bag
                                )
                            );
                        }
                    }
                    Err(e) => {
                        let site = if e.starts_with("panic") { panic_site(&e) } else { "error".to_string() };
                        violate!(
                            own,
                            "rowid-resolvable",
                            format!("c18/take-rows-fails/{site}/{}", self.kinds.last().cloned().unwrap_or_default()),
                            format!("take_rows({ids:?}) failed after {kindsj}: {e}")
                        );
                    }
                }
            }
            self.rowid_of = new_map;
            if self.dead {
                out.outcome = "violation".into();
                return out;
            }
        }

        let st = (now.canon(), base.stable, obs.struct_hash);
        out.state = Some(vcore::hash64(format!("{st:?}").as_bytes()));
        out
    }
}

fn classify_loss(prev: &MTable, real_bag: &[Vec<Cell>], cols: &[String], eff: &Effect) -> &'static str {
    let uid_pos = cols.iter().position(|c| c == "uid").unwrap_or(0);
    let mut counts: BTreeMap<i64, usize> = BTreeMap::new();
    for r in real_bag {
        if let Some(u) = r.get(uid_pos).and_then(|c| c.as_i64()) {
            *counts.entry(u).or_insert(0) += 1;
        }
    }
    if counts.values().any(|n| *n > 1) {
        return "duplicated-uid";
    }
    let prev_uids = prev.uids();
    if counts
        .keys()
        .any(|u| !prev_uids.contains(&(*u as i32)) && !eff.inserted.iter().any(|r| uid_of(r) as i64 == *u))
    {
        return "resurrected-uid";
    }
    "overwritten-image"
}

/// Transaction class of an op kind (the row/column labels of the conflict matrix); classification
/// keys are built from classes so that one root cause gets one key whatever op pair exposes it.
pub fn class_of(kind: &str) -> &'static str {
    match kind {
        "append" => "Append",
        "delete" | "delete_all" => "Delete",
        "update" | "upsert_full" | "merge_update_full" => "UpdateRows",
        "merge_partial" => "UpdateColumns",
        "compact" | "compact_defer" => "Rewrite",
        "optimize_indices" => "CreateIndex",
        "add_column" | "drop_column" | "rename" => "SchemaChange",
        "schema_meta" => "UpdateSchemaMeta",
        "overwrite" => "Overwrite",
        "restore" => "Restore",
        "reserve" => "Reserve",
        "data_replacement" => "DataReplacement",
        k if k.starts_with("create_index") => "CreateIndex",
        k if k.starts_with("config") => "UpdateConfig",
        _ => "Other",
    }
}

/// first 60 characters of a message with digits and hex runs removed (aggregation key)
pub fn norm_msg(msg: &str) -> String {
    let first = msg.lines().next().unwrap_or("");
    let mut out = String::new();
    for w in first.split_whitespace() {
        let hexish = w.len() > 12 && w.chars().filter(|c| c.is_ascii_hexdigit() || *c == '-' || *c == '.' || *c == '/').count() * 10 > w.len() * 8;
        if hexish {
            out.push('*');
        } else {
            out.extend(w.chars().map(|c| if c.is_ascii_digit() { '#' } else { c }));
        }
        out.push(' ');
        if out.len() > 60 {
            break;
        }
    }
    out.trim().to_string()
}

pub fn panic_site(msg: &str) -> String {
    let s: String = msg
        .chars()
        .map(|c| if c.is_ascii_alphanumeric() { c } else { '-' })
        .collect();
    s.chars().take(40).collect()
}

/// Aggregated report over many histories.
#[derive(Default)]
pub struct Agg {
    pub histories: u64,
    pub transitions: u64,
    pub states: HashSet<u64>,
    pub outcomes: BTreeMap<String, u64>,
    /// "a then b" -> observed verdict labels of b (raw = retries 0, final = default retries)
    pub matrix_raw: BTreeMap<String, BTreeSet<String>>,
    pub matrix_final: BTreeMap<String, BTreeSet<String>>,
    pub violations: Vec<Violation>,
    pub foreign: BTreeMap<String, (u64, String)>,
    pub stale_steps: u64,
    pub conflicts: u64,
    pub rebased_ok: u64,
    pub reexecuted_ok: u64,
    pub spurious: u64,
    pub index_probes: u64,
    pub index_stale_hits: u64,
    pub rowid_checks: u64,
    pub samples: Vec<Value>,
    pub machinery: Vec<String>,
    pub max_depth: usize,
}

impl Agg {
    pub fn add(&mut self, h: &Hist, o: HistOut) {
        self.histories += 1;
        self.transitions += o.transitions;
        self.states.extend(o.states.iter().copied());
        self.max_depth = self.max_depth.max(o.outcomes.len());
        let real: Vec<usize> = h
            .steps
            .iter()
            .enumerate()
            .filter(|(_, (_, op))| !matches!(op, Op::Refresh))
            .map(|(i, _)| i)
            .collect();
        for (i, oc) in o.outcomes.iter().enumerate() {
            let kind = h.steps[i].1.kind();
            *self.outcomes.entry(format!("{kind}:{oc}")).or_insert(0) += 1;
            if real.len() == 2 && h.steps.len() == 2 && i == 1 {
                let cell = format!("{} then {}", h.steps[0].1.kind(), kind);
                let m = if h.cfg.retries == Some(0) { &mut self.matrix_raw } else { &mut self.matrix_final };
                m.entry(cell).or_default().insert(oc.clone());
            }
        }
        for (k, ex) in o.foreign {
            self.foreign.entry(k).or_insert((0, ex)).0 += 1;
        }
        self.stale_steps += o.stale_steps;
        self.conflicts += o.conflicts;
        self.rebased_ok += o.rebased_ok;
        self.reexecuted_ok += o.reexecuted_ok;
        self.spurious += o.spurious;
        self.index_probes += o.index_probes;
        self.index_stale_hits += o.index_stale_hits;
        self.rowid_checks += o.rowid_checks;
        if let Some(m) = o.machinery {
            self.machinery.push(m);
        }
        if self.samples.len() < 6 && (self.histories % 211 == 1) {
            self.samples.push(json!({"hist": h, "outcomes": o.outcomes, "errors": o.errs}));
        }
        self.violations.extend(o.violations);
    }

    /// fill the model_checking evidence keys shared by all K2 checks
    pub fn fill(&self, out: &mut vcore::Outcome) {
        out.set("states", self.states.len() as u64);
        out.set("transitions", self.transitions);
        out.set("traces_validated_against_impl", self.histories);
        out.set("histories", self.histories);
        out.set("max_depth", self.max_depth as u64);
        out.set("distinct_outcomes", json!(self.outcomes));
        out.set("stale_steps", self.stale_steps);
        out.set("conflicts_reached", self.conflicts);
        out.set("rebased_commits", self.rebased_ok);
        out.set("reexecuted_commits", self.reexecuted_ok);
        out.set("spurious_conflicts", self.spurious);
        // other properties' oracles seen on the way (not judged here)
        let mut f: Vec<(&String, &(u64, String))> = self.foreign.iter().collect();
        f.sort_by(|a, b| b.1 .0.cmp(&a.1 .0).then(a.0.cmp(b.0)));
        let f: Vec<Value> = f
            .into_iter()
            .take(60)
            .map(|(k, (n, ex))| json!({"what": k, "count": n, "example": ex}))
            .collect();
        out.set("foreign_findings", json!(f));
        out.set("foreign_findings_distinct", self.foreign.len() as u64);
        out.set("samples", json!(self.samples));
    }
}

/// Run all histories on `workers` threads with a wall cap; returns (aggregate, skipped).
pub fn run_all(
    bases: &[Base],
    mut hists: Vec<Hist>,
    prop: Prop,
    ctx: &vcore::Ctx,
    wall_cap: f64,
) -> (Agg, u64) {
    let start = std::time::Instant::now();
    let total = hists.len();
    // VERIF_SEED only rotates the visiting order
    if ctx.seed != 0 && total > 0 {
        let k = (ctx.seed as usize) % total;
        hists.rotate_left(k);
    }
    let results = vcore::par_map(hists, ctx.workers, |_, h| {
        if start.elapsed().as_secs_f64() > wall_cap {
            return (h, None);
        }
        let base = find_base(bases, &h.cfg);
        let o = run_history(base, &h, prop);
        (h, Some(o))
    });
    let mut agg = Agg::default();
    let mut skipped = 0u64;
    // shortest histories first, so that the artefact kept per key is a minimal one
    let mut results: Vec<_> = results.into_iter().collect();
    results.sort_by_key(|(h, _)| h.steps.len());
    for (h, o) in results {
        match o {
            Some(o) => agg.add(&h, o),
            None => skipped += 1,
        }
    }
    if let Some(m) = agg.machinery.first() {
        vcore::machinery_error(&format!("{} histories failed in the harness, first: {m}", agg.machinery.len()));
    }
    (agg, skipped)
}

/// `--replay`: re-execute exactly the recorded history.
pub fn replay(bases: &[Base], art: &Value, prop: Prop, out: &mut vcore::Outcome) {
    let h: Hist = serde_json::from_value(art["case"]["hist"].clone())
        .unwrap_or_else(|e| vcore::machinery_error(&format!("bad replay case: {e}")));
    let base = find_base(bases, &h.cfg);
    let o = run_history(base, &h, prop);
    if let Some(m) = &o.machinery {
        vcore::machinery_error(m);
    }
    out.set("states", o.states.len() as u64);
    out.set("transitions", o.transitions);
    out.set("traces_validated_against_impl", 1u64);
    out.set("samples", json!([{"hist": h, "outcomes": o.outcomes, "errors": o.errs}]));
    out.violations = o.violations;
}
