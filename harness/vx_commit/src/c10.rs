//! C10 – external manifest store protocol: versions unique, durable, repaired by readers.
//!
//! K3 + K4 on the narrow seam (`seam.rs`) over `ExternalManifestCommitHandler::{commit,
//! resolve_latest_location, resolve_version_location}` with `MemStore` + the gated `MemExt`:
//! writers W0, W1 commit the same version with different contents, reader R resolves latest and that
//! version and reads the bytes; every object-store and ext-store call is a decision point. Answer
//! deviations: crash of a writer or of the reader at any of its mutating calls, failed calls, lost
//! reply, `Stale` answers of ext `get` / `get_latest`. Afterwards an un-faulted fresh reader pass.
//! Oracles (1)-(4) of DESIGN §4 C10 live in `SeamScn::{monitor, final_check}`.

use crate::c02::{run_items, Item};
use crate::common::HandlerKind;
use crate::seam::SeamCfg;
use vcore::{Ctx, Outcome};
use vstore::sched::Bounds;
use vstore::Answer;

fn cfg(writers: usize, reader_loops: usize, w: Vec<Answer>, r: Vec<Answer>, stale: bool) -> SeamCfg {
    SeamCfg {
        prop: "C10".into(),
        handler: HandlerKind::External,
        writers,
        reader_loops,
        pre: 1,
        pre_handler: HandlerKind::External,
        v2: true,
        report_size: false,
        writer_answers: w,
        reader_answers: r,
        stale_reads: stale,
        fail_reads: false,
    }
}

fn items(ctx: &Ctx) -> Vec<Item> {
    let q = ctx.quick();
    let wall = ctx.tier.pick(38.0, 700.0);
    let b = |pre: usize, dev: usize| Bounds {
        preemptions: pre,
        deviations: dev,
        max_schedules: ctx.tier.pick(120_000, 3_000_000),
        wall_s: wall,
        hang_s: 30.0,
        max_points: 300,
    };
    let crash = vec![Answer::CrashBefore, Answer::CrashAfter];
    let crash_fail = vec![Answer::CrashBefore, Answer::CrashAfter, Answer::FailBefore];
    let all = vec![Answer::CrashBefore, Answer::CrashAfter, Answer::FailBefore, Answer::FailAfter];
    let mut v = vec![];
    // crashes of writers / reader at every mutating call
    v.push(Item {
        name: "ext/2w+r/crash".into(),
        seam: Some(cfg(2, 1, crash.clone(), crash.clone(), false)),
        race: None,
        bounds: b(ctx.tier.pick(3, 4), 1),
    });
    // failed calls + stale external reads
    v.push(Item {
        name: "ext/2w+r/fail+stale".into(),
        seam: Some(cfg(2, 1, vec![Answer::FailBefore], vec![Answer::FailBefore], true)),
        race: None,
        bounds: b(ctx.tier.pick(3, 4), 1),
    });
    // lost replies (safety oracles; availability is not promised there)
    v.push(Item {
        name: "ext/2w+r/lost-reply".into(),
        seam: Some(cfg(2, 1, vec![Answer::FailAfter], vec![Answer::FailAfter], false)),
        race: None,
        bounds: b(ctx.tier.pick(1, 3), 1),
    });
    // one writer + reader: every interleaving, one deviation of any kind
    v.push(Item {
        name: "ext/1w+r/any".into(),
        seam: Some(cfg(1, 1, all.clone(), crash_fail.clone(), true)),
        race: None,
        bounds: b(ctx.tier.pick(3, 99), 1),
    });
    // table not yet boarded on the external store (v1 committed by the conditional-put handler)
    let mut c = cfg(2, 1, crash.clone(), crash.clone(), false);
    c.pre_handler = HandlerKind::CondPut;
    v.push(Item { name: "ext/2w+r/unboarded/crash".into(), seam: Some(c), race: None, bounds: b(ctx.tier.pick(1, 3), 1) });
    if !q {
        // store that reports size/e_tag (DynamoDB-like), V1 names, two reader loops, two deviations
        let mut c = cfg(2, 1, crash_fail.clone(), crash_fail.clone(), true);
        c.report_size = true;
        v.push(Item { name: "ext/2w+r/report-size".into(), seam: Some(c), race: None, bounds: b(3, 1) });
        let mut c = cfg(2, 1, crash_fail.clone(), crash_fail.clone(), true);
        c.v2 = false;
        v.push(Item { name: "ext/2w+r/v1-names".into(), seam: Some(c), race: None, bounds: b(3, 1) });
        v.push(Item {
            name: "ext/2w+2r-loops/crash+stale".into(),
            seam: Some(cfg(2, 2, crash.clone(), crash.clone(), true)),
            race: None,
            bounds: b(2, 1),
        });
        v.push(Item {
            name: "ext/2w+r/2dev".into(),
            seam: Some(cfg(2, 1, crash_fail.clone(), crash_fail.clone(), true)),
            race: None,
            bounds: b(2, 2),
        });
        v.push(Item {
            name: "ext/2w+r/nofault-p4".into(),
            seam: Some(cfg(2, 1, vec![], vec![], false)),
            race: None,
            bounds: b(6, 0),
        });
    }
    if let Some(f) = ctx.opts.get("only") {
        v.retain(|i| i.name.contains(f.as_str()));
    }
    v
}

pub fn run(ctx: &Ctx) -> Outcome {
    if ctx.replay_case().is_some() {
        // same artefact format as C02
        return crate::c02::run(ctx);
    }
    let mut out = Outcome::new("model_checking");
    run_items(ctx, items(ctx), &mut out, ctx.tier.pick(40.0, 780.0));
    out.assume("MemExt: external manifest store with atomic put_if_not_exists / put_if_exists, strongly consistent except where the explorer answers Stale (previous mapping of that key)");
    out.assume("MemStore = object_store contract; sequentially consistent interleavings at call granularity; concurrent calls of one actor serialised in arrival order");
    out.assume("lost replies are judged by the safety oracles only (unique content, no dangling mapping, Ok => durable); availability after a lost reply is not promised by the statement");
    out
}
