//! Narrow-seam scenario shared by C02 and C10: writers call `CommitHandler::commit` for the SAME
//! version with distinguishable manifests, a reader loops `resolve_latest_location` /
//! `resolve_version_location` and reads the bytes it is pointed to. Every object-store and
//! external-store call of every actor is a decision point of the scheduler.

use crate::common::*;
use lance_core::datatypes::Schema;
use lance_io::object_store::ObjectStore;
use lance_table::format::{DataStorageFormat, Manifest};
use lance_table::io::commit::external_manifest::ExternalManifestCommitHandler;
use lance_table::io::commit::{
    write_manifest_file_to_path, CommitError, CommitHandler, ConditionalPutCommitHandler, ManifestNamingScheme,
    RenameCommitHandler,
};
use lance_table::io::manifest::read_manifest;
use object_store::path::Path;
use serde::{Deserialize, Serialize};
use serde_json::{json, Value};
use std::collections::{BTreeMap, BTreeSet, HashMap};
use std::sync::{Arc, Mutex};
use vcore::Violation;
use vds::base_schema;
use vstore::sched::{ActorEnd, ActorFut, ActorResult, Exec, Gate, GateFn, PointRec, Scenario};
use vstore::{Answer, Call, MemStore, Verb};

pub const BASE: &str = "tbl";

#[derive(Clone, Debug, Serialize, Deserialize)]
pub struct SeamCfg {
    /// property the scenario runs for (prefix of classification keys)
    pub prop: String,
    pub handler: HandlerKind,
    pub writers: usize,
    /// 0 = no reader actor
    pub reader_loops: usize,
    /// versions 1..=pre exist before the race (committed through `pre_handler`)
    pub pre: u64,
    /// handler that made the pre-state (External, or CondPut = table not yet boarded on the ext store)
    pub pre_handler: HandlerKind,
    pub v2: bool,
    /// ext store reports size/e_tag like the DynamoDB store
    pub report_size: bool,
    /// non-Normal answers for mutating calls of writers
    pub writer_answers: Vec<Answer>,
    /// non-Normal answers for mutating calls of the reader (its repair steps)
    pub reader_answers: Vec<Answer>,
    /// ext `get` / `get_latest` may answer with the previous mapping
    pub stale_reads: bool,
    /// read calls of the object store may fail
    pub fail_reads: bool,
}

impl SeamCfg {
    pub fn target(&self) -> u64 {
        self.pre + 1
    }
    pub fn scheme(&self) -> ManifestNamingScheme {
        if self.v2 {
            ManifestNamingScheme::V2
        } else {
            ManifestNamingScheme::V1
        }
    }
}

pub fn lance_store(s: &MemStore) -> ObjectStore {
    ObjectStore::new(
        Arc::new(s.clone()),
        url::Url::parse("memory:///").unwrap(),
        None,
        None,
        false,
        true,
        8,
        3,
        None,
    )
}

pub fn make_handler(kind: HandlerKind, ext: &MemExt) -> Arc<dyn CommitHandler> {
    match kind {
        HandlerKind::CondPut => Arc::new(ConditionalPutCommitHandler),
        HandlerKind::Rename => Arc::new(RenameCommitHandler),
        HandlerKind::External => Arc::new(ExternalManifestCommitHandler {
            external_manifest_store: Arc::new(ext.clone()),
        }),
        HandlerKind::Lock => Arc::new(MemLock { ext: ext.clone() }),
    }
}

fn new_manifest(version: u64, tag: &str) -> Manifest {
    let schema = Schema::try_from(&base_schema()).unwrap();
    let mut m = Manifest::new(schema, Arc::new(vec![]), DataStorageFormat::default(), HashMap::new());
    m.version = version;
    m.config.insert("writer".into(), tag.into());
    m
}

/// One commit attempt of `tag` for `version`. Returns "ok" / "conflict" / "error: ..".
pub async fn commit_once(t: &Tbl, kind: HandlerKind, scheme: ManifestNamingScheme, version: u64, tag: &str) -> (String, String) {
    let os = lance_store(&t.env.store);
    let h = make_handler(kind, &t.ext);
    let mut m = new_manifest(version, tag);
    match h
        .commit(&mut m, None, &Path::from(BASE), &os, write_manifest_file_to_path, scheme, None)
        .await
    {
        Ok(loc) => ("ok".into(), loc.path.to_string()),
        Err(CommitError::CommitConflict) => ("conflict".into(), String::new()),
        Err(CommitError::OtherError(e)) => ("error".into(), e.to_string()),
    }
}

/// Writer tag stored in the manifest at `path` (un-gated read).
pub async fn tag_at(store: &MemStore, path: &str) -> Result<String, String> {
    let os = lance_store(&store.view(99, None));
    match read_manifest(&os, &Path::from(path), None).await {
        Ok(m) => Ok(format!("v{}:{}", m.version, m.config.get("writer").cloned().unwrap_or_default())),
        Err(e) => Err(e.to_string()),
    }
}

#[derive(Clone, Debug, Serialize, Deserialize, PartialEq)]
pub struct Obs {
    /// "latest" or "version"
    pub kind: String,
    pub version: Option<u64>,
    pub path: Option<String>,
    /// "v<version>:<writer>" decoded from the bytes that were read, or the error
    pub content: Result<String, String>,
    pub hash: u64,
}

/// What a reader does once: resolve, then read the bytes it was pointed to (through its own,
/// possibly gated, store view) and decode them.
async fn observe(t: &Tbl, kind: HandlerKind, which: Option<u64>) -> Obs {
    let os = lance_store(&t.env.store);
    let h = make_handler(kind, &t.ext);
    let base = Path::from(BASE);
    let loc = match which {
        None => h.resolve_latest_location(&base, &os).await,
        Some(v) => h.resolve_version_location(&base, v, os.inner.as_ref()).await,
    };
    let k = if which.is_none() { "latest" } else { "version" }.to_string();
    match loc {
        Err(e) => Obs { kind: k, version: which, path: None, content: Err(format!("resolve: {e}")), hash: 0 },
        Ok(loc) => {
            let bytes = match os.inner.get(&loc.path).await {
                Ok(r) => r.bytes().await.map_err(|e| e.to_string()),
                Err(e) => Err(e.to_string()),
            };
            match bytes {
                Err(e) => Obs {
                    kind: k,
                    version: Some(loc.version),
                    path: Some(loc.path.to_string()),
                    content: Err(format!("read: {e}")),
                    hash: 0,
                },
                Ok(b) => {
                    let hash = vcore::hash64(&b);
                    // decode from the bytes that were read (private store, no further gated calls)
                    let tmp = MemStore::new();
                    tmp.write_raw("x.manifest", b);
                    let content = tag_at(&tmp, "x.manifest").await;
                    Obs { kind: k, version: Some(loc.version), path: Some(loc.path.to_string()), content, hash }
                }
            }
        }
    }
}

pub struct SeamWorld {
    pub t: Tbl,
    pub watch: ManifestWatch,
    /// first content hash reachable through the ext store per (base, version)
    pub ext_seen: Mutex<BTreeMap<(String, u64), u64>>,
    /// a monitor violation was reported in this execution: the state below it is not judged again
    pub poisoned: Mutex<bool>,
    pub lost_reply: LostReplyWatch,
}

pub struct SeamScn {
    pub cfg: SeamCfg,
    pub pre: TblSnap,
    pub stats: Mutex<BTreeMap<String, u64>>,
}

impl SeamScn {
    pub fn prepare(cfg: SeamCfg) -> Self {
        let mut t = Tbl::new(cfg.handler);
        t.ext.report_size = cfg.report_size;
        vstore::block_on(async {
            for v in 1..=cfg.pre {
                let (r, e) = commit_once(&t, cfg.pre_handler, cfg.scheme(), v, "P").await;
                assert_eq!(r, "ok", "pre-state commit failed: {e}");
            }
        });
        Self {
            pre: t.snapshot(),
            cfg,
            stats: Mutex::new(BTreeMap::new()),
        }
    }
    fn n_actors(&self) -> usize {
        self.cfg.writers + usize::from(self.cfg.reader_loops > 0)
    }
    fn key(&self, oracle: &str, exec_faults: &str) -> String {
        format!("{}/seam/{}/{}/{}", self.cfg.prop, self.cfg.handler.tag(), oracle, exec_faults)
    }
}

pub fn fault_tag(points: &[PointRec], writers: usize) -> String {
    let f: Vec<String> = points
        .iter()
        .filter(|p| p.answer != 0)
        .map(|p| {
            let c = p.call();
            let who = if p.actor() < writers { "W" } else { "R" };
            format!("{:?}@{who}.{:?}:{}", p.ans(), c.verb, path_class(c.to.as_deref().unwrap_or(&c.path)))
        })
        .collect();
    if f.is_empty() {
        "none".into()
    } else {
        f.join("+")
    }
}

impl Scenario for SeamScn {
    type World = SeamWorld;
    fn name(&self) -> String {
        serde_json::to_string(&self.cfg).unwrap()
    }
    async fn setup(&self, gate: &Gate) -> (SeamWorld, Vec<ActorFut>) {
        let mut t = Tbl::restore(self.cfg.handler, &self.pre);
        t.ext.report_size = self.cfg.report_size;
        let mut actors: Vec<ActorFut> = vec![];
        let target = self.cfg.target();
        let kind = self.cfg.handler;
        let scheme = self.cfg.scheme();
        for i in 0..self.cfg.writers {
            let ctl = ActorCtl::new(gate, self.gate_rule());
            let a = t.actor(i, Some(&ctl));
            actors.push(Box::pin(async move {
                let tag = format!("W{i}");
                let (r, detail) = commit_once(&a, kind, scheme, target, &tag).await;
                ActorResult {
                    ok: r == "ok",
                    label: r,
                    detail: json!(detail),
                }
            }));
        }
        if self.cfg.reader_loops > 0 {
            let ctl = ActorCtl::new(gate, self.gate_rule());
            let a = t.actor(self.cfg.writers, Some(&ctl));
            let loops = self.cfg.reader_loops;
            actors.push(Box::pin(async move {
                let mut obs = vec![];
                for _ in 0..loops {
                    obs.push(observe(&a, kind, None).await);
                    obs.push(observe(&a, kind, Some(target)).await);
                }
                let label = obs
                    .iter()
                    .map(|o| match &o.content {
                        Ok(c) => c.clone(),
                        Err(_) => "err".into(),
                    })
                    .collect::<Vec<_>>()
                    .join(",");
                ActorResult {
                    ok: true,
                    label: format!("R[{label}]"),
                    detail: serde_json::to_value(&obs).unwrap(),
                }
            }));
        }
        let w = SeamWorld {
            t,
            watch: ManifestWatch::default(),
            ext_seen: Mutex::new(BTreeMap::new()),
            poisoned: Mutex::new(false),
            lost_reply: LostReplyWatch::default(),
        };
        w.t.env.store.enable_log(true);
        w.watch.observe(&w.t.env.store);
        (w, actors)
    }
    /// Narrow seam: every call of every actor is a decision point (nothing is assumed to commute).
    fn gate_rule(&self) -> GateFn {
        let n = self.n_actors();
        Arc::new(move |a, _c: &Call| a < n)
    }
    fn deviations(&self, actor: usize, call: &Call) -> Vec<Answer> {
        let is_writer = actor < self.cfg.writers;
        if matches!(call.verb, Verb::LockAcquire | Verb::LockRelease) {
            // faults are injected on storage calls; a lost lock would be a defect of the lock, not of Lance
            return vec![];
        }
        if call.verb.mutating() {
            if is_writer {
                self.cfg.writer_answers.clone()
            } else {
                self.cfg.reader_answers.clone()
            }
        } else {
            let mut v = vec![];
            if self.cfg.stale_reads && matches!(call.verb, Verb::ExtGet | Verb::ExtGetLatest) {
                v.push(Answer::Stale);
            }
            if self.cfg.fail_reads {
                v.push(Answer::FailBefore);
            }
            v
        }
    }
    fn state_hash(&self, w: &SeamWorld) -> u64 {
        w.t.shape_hash() ^ if lock_free(&w.t.ext) { 0 } else { 0x5bd1e995 }
    }
    /// the lock waits for its holder: an acquire is enabled only while the lock is free
    fn enabled(&self, w: &SeamWorld, _actor: usize, call: &Call) -> bool {
        call.verb != Verb::LockAcquire || lock_free(&w.t.ext)
    }
    async fn monitor(&self, w: &SeamWorld, p: &PointRec) -> Vec<Violation> {
        let mut out = vec![];
        let lost = w.lost_reply.observe(&w.t, p);
        if *w.poisoned.lock().unwrap() {
            return out;
        }
        if let Some(l) = lost {
            *w.poisoned.lock().unwrap() = true;
            return vec![Violation::new(
                "lost-put-reply",
                &format!("{}/seam/{}/lost-put-reply-handled-as-conflict", self.cfg.prop, self.cfg.handler.tag()),
                l,
                json!({}),
            )];
        }
        let at = format!("after {}", p.norm());
        for b in w.watch.observe(&w.t.env.store) {
            out.push(Violation::new(
                "manifest-immutable",
                &format!("{}/seam/{}/manifest-mutated/{:?}", self.cfg.prop, self.cfg.handler.tag(), p.call().verb),
                format!("{b} {at}"),
                json!({}),
            ));
        }
        // content reachable through the external store never changes and never dangles
        let entries = w.t.ext.entries();
        let mut seen = w.ext_seen.lock().unwrap();
        for (b, v, path) in entries {
            match w.t.env.store.read(&path) {
                None => out.push(Violation::new(
                    "ext-dangling",
                    &format!("{}/seam/{}/ext-dangling/{:?}", self.cfg.prop, self.cfg.handler.tag(), p.call().verb),
                    format!("external store maps {b}@{v} to {} which does not exist, {at}", norm_name(&path)),
                    json!({}),
                )),
                Some(bytes) => {
                    let h = vcore::hash64(&bytes);
                    let first = *seen.entry((b.clone(), v)).or_insert(h);
                    if first != h {
                        out.push(Violation::new(
                            "ext-content-immutable",
                            &format!("{}/seam/{}/ext-content-changed/{:?}", self.cfg.prop, self.cfg.handler.tag(), p.call().verb),
                            format!("content reachable for {b}@{v} through the external store changed {at}"),
                            json!({}),
                        ));
                    }
                }
            }
        }
        if !out.is_empty() {
            *w.poisoned.lock().unwrap() = true;
        }
        out
    }
    async fn final_check(&self, w: &SeamWorld, exec: &Exec) -> Vec<Violation> {
        let cfg = &self.cfg;
        if *w.poisoned.lock().unwrap() {
            // pruned: the monitor already reported this execution
            *self.stats.lock().unwrap().entry("(monitor violation; not judged further)".into()).or_insert(0) += 1;
            return vec![];
        }
        let target = cfg.target();
        let ft = fault_tag(&exec.points, cfg.writers);
        let faulted = ft != "none";
        let mut out: Vec<(String, String)> = vec![];
        // writers' verdicts
        let mut oks = vec![];
        let mut labels = vec![];
        for i in 0..cfg.writers {
            match &exec.ends[i] {
                Some(ActorEnd::Finished(r)) => {
                    labels.push(r.label.clone());
                    if r.ok {
                        oks.push(format!("v{target}:W{i}"));
                    }
                }
                Some(ActorEnd::Crashed) => labels.push("crashed".into()),
                Some(ActorEnd::Panicked(m)) => {
                    labels.push("panicked".into());
                    out.push(("writer-panic".into(), format!("writer {i} panicked: {m}")));
                }
                None => labels.push("unfinished".into()),
            }
        }
        if oks.len() > 1 {
            out.push(("two-winners".into(), format!("{} writers got Ok for version {target}: {oks:?}", oks.len())));
        }
        if !faulted {
            let conflicts = labels.iter().filter(|l| *l == "conflict").count();
            if oks.len() != 1 || conflicts != cfg.writers - 1 {
                out.push((
                    "one-ok-rest-conflict".into(),
                    format!("without faults expected exactly one Ok and {} CommitConflict, got {labels:?}", cfg.writers - 1),
                ));
            }
        }
        // ---- final un-faulted reader pass (fresh handler instance, un-gated view)
        let fr = w.t.actor(99, None);
        let o_ver = observe(&fr, cfg.handler, Some(target)).await;
        let o_lat = observe(&fr, cfg.handler, None).await;
        let o_ver2 = observe(&fr, cfg.handler, Some(target)).await;
        let final_path = cfg.scheme().manifest_path(&Path::from(BASE), target).to_string();
        let ext_entry = w.t.ext.entries().into_iter().find(|(b, v, _)| b == BASE && *v == target);
        let published = ext_entry.is_some() || w.t.env.store.exists(&final_path);
        let winner: Option<String> = match &o_ver.content {
            Ok(c) => Some(c.clone()),
            Err(_) => None,
        };
        if published && winner.is_none() {
            out.push((
                "published-unreadable".into(),
                format!("version {target} is published (ext entry {ext_entry:?}, final exists {}) but a fresh reader gets {:?}", w.t.env.store.exists(&final_path), o_ver.content),
            ));
        }
        if !published && !oks.is_empty() {
            out.push(("ok-lost".into(), format!("{oks:?} returned Ok but version {target} is not published")));
        }
        if let (Some(wn), Some(ok)) = (&winner, oks.first()) {
            if wn != ok {
                out.push(("ok-not-winner".into(), format!("{ok} returned Ok but a fresh reader resolves version {target} to {wn}")));
            }
        }
        if o_ver2.content != o_ver.content || (o_ver.content.is_ok() && o_ver2.hash != o_ver.hash) {
            out.push(("reader-unstable".into(), format!("two consecutive fresh reads of version {target} differ: {:?} vs {:?}", o_ver.content, o_ver2.content)));
        }
        match (&o_lat.content, &winner) {
            (Ok(c), Some(wn)) => {
                if o_lat.version == Some(target) && c != wn {
                    out.push(("latest-differs".into(), format!("latest resolves to {c}, version {target} to {wn}")));
                }
                if o_lat.version != Some(target) {
                    out.push(("latest-behind".into(), format!("version {target} is published but the final reader's latest is {:?}", o_lat.version)));
                }
            }
            (Err(e), Some(_)) => out.push(("latest-unreadable".into(), format!("version {target} readable but latest is not: {e}"))),
            (Err(e), None) if cfg.pre > 0 => out.push(("latest-unreadable".into(), format!("latest unreadable although v{} exists: {e}", cfg.pre))),
            _ => {}
        }
        // after the final reader pass the standard path holds the winner's content and (ext) points at it
        if let Some(wn) = &winner {
            match tag_at(&w.t.env.store, &final_path).await {
                Ok(c) if c == *wn => {}
                other => out.push(("final-path".into(), format!("after the final reader pass {} holds {other:?}, expected {wn}", norm_name(&final_path)))),
            }
            if cfg.handler == HandlerKind::External {
                let e = w.t.ext.entries().into_iter().find(|(b, v, _)| b == BASE && *v == target);
                match e {
                    Some((_, _, p)) if p == final_path => {}
                    other => out.push(("ext-not-finalized".into(), format!("after the final reader pass the external store maps version {target} to {other:?}"))),
                }
            }
        }
        // ---- what the concurrent reader saw
        let mut reader_label = String::new();
        if cfg.reader_loops > 0 {
            if let Some(ActorEnd::Finished(r)) = &exec.ends[cfg.writers] {
                reader_label = r.label.clone();
                let obs: Vec<Obs> = serde_json::from_value(r.detail.clone()).unwrap_or_default();
                let mut per_version: BTreeMap<u64, BTreeSet<(String, u64)>> = BTreeMap::new();
                for o in &obs {
                    if let (Some(v), Ok(c)) = (o.version, &o.content) {
                        per_version.entry(v).or_default().insert((c.clone(), o.hash));
                        if !c.starts_with(&format!("v{v}:")) {
                            out.push(("reader-wrong-version".into(), format!("reader resolved version {v} but the bytes decode to {c}")));
                        }
                    }
                    if o.kind == "latest" {
                        if let Some(v) = o.version {
                            if v > target || v < cfg.pre.min(1) {
                                out.push(("reader-latest-range".into(), format!("reader saw latest = {v}")));
                            }
                        }
                    }
                }
                for (v, set) in &per_version {
                    if set.len() > 1 {
                        out.push(("reader-two-contents".into(), format!("reader observed {} different contents for version {v}: {set:?}", set.len())));
                    }
                    if *v == target {
                        if let (Some(wn), Some((c, _))) = (&winner, set.iter().next()) {
                            if c != wn {
                                out.push(("reader-vs-final".into(), format!("reader observed {c} for version {v}, final reader {wn}")));
                            }
                        }
                    }
                }
            } else if let Some(ActorEnd::Panicked(m)) = &exec.ends[cfg.writers] {
                out.push(("reader-panic".into(), format!("reader panicked: {m}")));
                reader_label = "panicked".into();
            } else {
                reader_label = "crashed".into();
            }
        }
        {
            let k = format!(
                "writers={} winner={} reader={}",
                labels.join("|"),
                winner.clone().unwrap_or_else(|| "-".into()),
                if reader_label.is_empty() { "-".into() } else { reader_label }
            );
            *self.stats.lock().unwrap().entry(k).or_insert(0) += 1;
        }
        out.into_iter()
            .map(|(oracle, what)| {
                let key = if oracle.ends_with("-panic") {
                    format!("{}/seam/{}/{}", cfg.prop, oracle, last_panic_site())
                } else {
                    self.key(&oracle, &ft)
                };
                Violation::new(&oracle, &key, format!("[{} {}w+{}r pre={}] faults {ft}: {what}", cfg.handler.tag(), cfg.writers, cfg.reader_loops, cfg.pre), Value::Null)
            })
            .collect()
    }
}
