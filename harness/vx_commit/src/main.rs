//! vx_commit: storage-level explorations (K3 schedules, K4 crash/fault enumeration).
mod c01;
mod c02;
mod c08;
mod c10;
mod seam;
mod common;
mod smoke;

use vcore::{machinery_error, Ctx};

fn main() {
    let ctx = Ctx::from_args();
    vcore::quiet_panics();
    common::install_panic_site_hook();
    let out = match ctx.id.as_str() {
        "SMOKE" => smoke::run(&ctx),
        "C01" => c01::run(&ctx),
        "C02" => c02::run(&ctx),
        "C10" => c10::run(&ctx),
        "C08" => c08::run(&ctx),
        other => machinery_error(&format!("vx_commit does not implement {other}")),
    };
    vcore::finish(&ctx, out);
}
