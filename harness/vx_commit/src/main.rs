fn main() {}
