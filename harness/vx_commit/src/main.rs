//! vx_commit: storage-level explorations (K3 schedules, K4 crash/fault enumeration).
mod smoke;

use vcore::{machinery_error, Ctx};

fn main() {
    let ctx = Ctx::from_args();
    vcore::quiet_panics();
    let out = match ctx.id.as_str() {
        "SMOKE" => smoke::run(&ctx),
        other => machinery_error(&format!("vx_commit does not implement {other}")),
    };
    vcore::finish(&ctx, out);
}
