//! C02 – at most one writer wins each version slot; published manifests never change.
//!
//! K3 (preemption- and deviation-bounded schedule enumeration) on two harnesses:
//!  (A) narrow seam (`seam.rs`): 2–3 writers call `CommitHandler::commit` for the same version with
//!      distinguishable manifests while a reader resolves latest / that version and reads the bytes;
//!      handlers ConditionalPut, Rename, ExternalManifest(MemExt); every storage call is gated.
//!  (B) two full `Dataset` writers (append / delete / update pairs) on one table with all
//!      `_versions/` and external-store calls gated (drives the retry loop of `commit_transaction`).

use crate::common::*;
use crate::seam::*;
use serde::{Deserialize, Serialize};
use serde_json::{json, Value};
use std::collections::BTreeMap;
use std::sync::{Arc, Mutex};
use vcore::{Ctx, Outcome, Violation};
use vds::*;
use vstore::sched::{self, ActorEnd, ActorFut, ActorResult, Bounds, Exec, Gate, GateFn, PointRec, Scenario, SchedReport};
use vstore::{Answer, Call};

// ------------------------------------------------------------------------------------------------
// (B) full Dataset writers

#[derive(Clone, Debug, Serialize, Deserialize)]
pub struct RaceCfg {
    pub handler: HandlerKind,
    pub ops: Vec<Op>,
    pub answers: Vec<Answer>,
}

pub struct DsRace {
    pub cfg: RaceCfg,
    pub pre: TblSnap,
    pub pre_version: u64,
    pub stats: Mutex<BTreeMap<String, u64>>,
}

pub struct RaceWorld {
    t: Tbl,
    watch: ManifestWatch,
    poisoned: Mutex<bool>,
    lost_reply: LostReplyWatch,
}

impl DsRace {
    pub fn prepare(cfg: RaceCfg) -> Result<Self, String> {
        let t = block_on(crate::c01::build_pre(cfg.handler, "fresh")).map_err(|e| e.to_string())?;
        Ok(Self {
            pre: t.snapshot(),
            pre_version: 2,
            cfg,
            stats: Mutex::new(BTreeMap::new()),
        })
    }
}

impl Scenario for DsRace {
    type World = RaceWorld;
    fn name(&self) -> String {
        serde_json::to_string(&self.cfg).unwrap()
    }
    async fn setup(&self, gate: &Gate) -> (RaceWorld, Vec<ActorFut>) {
        let t = Tbl::restore(self.cfg.handler, &self.pre);
        let mut actors: Vec<ActorFut> = vec![];
        for (i, op) in self.cfg.ops.iter().enumerate() {
            // a writer is killed when it starts its 4th publish attempt: with two writers every
            // conflict is answered by one retry; longer retry loops (real, exponentially growing
            // sleeps) only occur in the livelock recorded in evidence as `killed-after-budget`
            let ctl = ActorCtl::new(gate, self.gate_rule()).with_attempt_budget(self.cfg.handler, 3);
            let a = t.actor(i, Some(&ctl));
            let op = op.clone();
            actors.push(Box::pin(async move {
                tokio::select! {
                    biased;
                    r = async {
                        apply_op(&a, &op).await?;
                        // the version this writer believes it made
                        lance::Result::Ok(())
                    } => match r {
                        Ok(()) => ActorResult::ok(json!(op.kind())),
                        Err(e) => ActorResult::err(err_class(&e), json!(e.to_string())),
                    },
                    _ = ctl.killed() => ActorResult::err("killed-after-budget", json!(null)),
                }
            }));
        }
        let w = RaceWorld {
            t,
            watch: ManifestWatch::default(),
            poisoned: Mutex::new(false),
            lost_reply: LostReplyWatch::default(),
        };
        w.t.env.store.enable_log(true);
        w.watch.observe(&w.t.env.store);
        (w, actors)
    }
    /// Gated: every call under `_versions/` and every external-store call. Un-gated calls touch
    /// objects that are write-once under a fresh random name (data, deletion, index, transaction
    /// files) or are reads of immutable objects, so they commute with every call of the other writer.
    fn gate_rule(&self) -> GateFn {
        Arc::new(|_a, c: &Call| c.path.contains("_versions") || c.path.starts_with("ext:"))
    }
    fn deviations(&self, _actor: usize, call: &Call) -> Vec<Answer> {
        if call.verb.mutating() {
            self.cfg.answers.clone()
        } else {
            vec![]
        }
    }
    fn state_hash(&self, w: &RaceWorld) -> u64 {
        w.t.shape_hash()
    }
    async fn monitor(&self, w: &RaceWorld, p: &PointRec) -> Vec<Violation> {
        let lost = w.lost_reply.observe(&w.t, p);
        if *w.poisoned.lock().unwrap() {
            return vec![];
        }
        if let Some(l) = lost {
            *w.poisoned.lock().unwrap() = true;
            return vec![Violation::new(
                "lost-put-reply",
                &format!("C02/ds/{}/lost-put-reply-handled-as-conflict", self.cfg.handler.tag()),
                l,
                json!({}),
            )];
        }
        let mut out: Vec<Violation> = w
            .watch
            .observe(&w.t.env.store)
            .into_iter()
            .map(|b| {
                Violation::new(
                    "manifest-immutable",
                    &format!("C02/ds/{}/manifest-mutated/{:?}", self.cfg.handler.tag(), p.call().verb),
                    format!("{b} after {}", p.norm()),
                    json!({}),
                )
            })
            .collect();
        if let Some(d) = ext_dangling(&w.t) {
            out.push(Violation::new(
                "ext-dangling",
                &format!("C02/ds/{}/ext-dangling/{:?}", self.cfg.handler.tag(), p.call().verb),
                format!("{d}, after {}", p.norm()),
                json!({}),
            ));
        }
        if !out.is_empty() {
            *w.poisoned.lock().unwrap() = true;
        }
        out
    }
    async fn final_check(&self, w: &RaceWorld, exec: &Exec) -> Vec<Violation> {
        if *w.poisoned.lock().unwrap() {
            *self.stats.lock().unwrap().entry("(monitor violation; not judged further)".into()).or_insert(0) += 1;
            return vec![];
        }
        let ft = fault_tag(&exec.points, self.cfg.ops.len());
        let mut out: Vec<(String, String)> = vec![];
        let labels: Vec<String> = exec
            .ends
            .iter()
            .map(|e| match e {
                Some(ActorEnd::Finished(r)) => r.label.clone(),
                Some(ActorEnd::Crashed) => "crashed".into(),
                Some(ActorEnd::Panicked(_)) => "panicked".into(),
                None => "unfinished".into(),
            })
            .collect();
        for (i, e) in exec.ends.iter().enumerate() {
            if let Some(ActorEnd::Panicked(m)) = e {
                out.push(("writer-panic".into(), format!("writer {i} panicked: {m}")));
            }
        }
        let n_ok = labels.iter().filter(|l| *l == "ok").count() as u64;
        let r = w.t.actor(9, None);
        let mut m_tag = "M=?".to_string();
        match catch_async(r.open()).await {
            Err(p) => out.push(("open-panic".into(), format!("open panicked: {p}"))),
            Ok(Err(e)) => out.push(("unopenable".into(), format!("table cannot be opened after the race: {e}"))),
            Ok(Ok(ds)) => {
                let m = ds.version().version;
                m_tag = format!("M=pre+{}", m.saturating_sub(self.pre_version));
                match ds.versions().await {
                    Ok(vs) => {
                        let got: Vec<u64> = vs.iter().map(|v| v.version).collect();
                        let want: Vec<u64> = (1..=m).collect();
                        if got != want {
                            out.push(("dense-history".into(), format!("versions() = {got:?}, expected {want:?}")));
                        }
                    }
                    Err(e) => out.push(("versions-error".into(), e.to_string())),
                }
                let made = m.saturating_sub(self.pre_version);
                // each successful writer made its own version; without faults nothing else did
                if made < n_ok {
                    out.push(("lost-commit".into(), format!("{n_ok} writers reported success but only {made} new versions exist")));
                }
                if ft == "none" && made != n_ok {
                    out.push(("extra-version".into(), format!("{made} new versions for {n_ok} successful writers without faults")));
                }
                // every new version carries a distinct transaction (one winner per slot)
                let mut uuids = std::collections::BTreeSet::new();
                for v in self.pre_version + 1..=m {
                    match r.open_version(v).await {
                        Ok(d) => {
                            match d.read_transaction().await {
                                Ok(Some(tx)) => {
                                    if !uuids.insert(tx.uuid.clone()) {
                                        out.push(("same-txn-twice".into(), format!("transaction {} published in two versions", tx.uuid)));
                                    }
                                }
                                Ok(None) => {}
                                Err(e) => out.push(("txn-unreadable".into(), format!("v{v}: {e}"))),
                            }
                            let (_, problems) = structure::check_struct(&d).await;
                            for p in problems {
                                out.push(("struct".into(), format!("v{v}: {p}")));
                            }
                        }
                        Err(e) => out.push(("version-unopenable".into(), format!("v{v}: {e}"))),
                    }
                }
            }
        }
        // commit attempts per writer and their global order (vacuity guard: conflicts must be reached)
        let order: Vec<String> = exec
            .points
            .iter()
            .filter(|p| is_publish_call(self.cfg.handler, p.call()))
            .map(|p| format!("W{}", p.actor()))
            .collect();
        if std::env::var("VX_DEBUG_KILLED").is_ok() && labels.iter().any(|l| l.starts_with("killed")) {
            eprintln!("KILLED-TRACE {:#?}", exec.trace());
        }
        let retried = (0..self.cfg.ops.len()).any(|i| order.iter().filter(|o| **o == format!("W{i}")).count() > 1);
        *self
            .stats
            .lock()
            .unwrap()
            .entry(format!("{} {m_tag} publish-attempts={} retried={retried} faults={ft}", labels.join("|"), order.join(",")))
            .or_insert(0) += 1;
        out.into_iter()
            .map(|(oracle, what)| {
                let key = if oracle.ends_with("-panic") {
                    format!("C02/ds/{}/{}", oracle, last_panic_site())
                } else {
                    format!("C02/ds/{}/{}/{}", self.cfg.handler.tag(), oracle, ft)
                };
                Violation::new(&oracle, &key, format!("[{} {:?}] faults {ft}: {what}", self.cfg.handler.tag(), self.cfg.ops.iter().map(|o| o.kind()).collect::<Vec<_>>()), Value::Null)
            })
            .collect()
    }
}

// ------------------------------------------------------------------------------------------------

pub struct Item {
    pub name: String,
    pub seam: Option<SeamCfg>,
    pub race: Option<RaceCfg>,
    pub bounds: Bounds,
}

fn seam_cfg(h: HandlerKind, writers: usize, answers: Vec<Answer>) -> SeamCfg {
    SeamCfg {
        prop: "C02".into(),
        handler: h,
        writers,
        reader_loops: 1,
        pre: 1,
        pre_handler: h,
        v2: true,
        report_size: false,
        writer_answers: answers.clone(),
        reader_answers: answers,
        stale_reads: false,
        fail_reads: false,
    }
}

fn items(ctx: &Ctx) -> Vec<Item> {
    let q = ctx.quick();
    let wall = ctx.tier.pick(35.0, 600.0);
    let b = |pre: usize, dev: usize| Bounds {
        preemptions: pre,
        deviations: dev,
        max_schedules: ctx.tier.pick(60_000, 2_000_000),
        wall_s: wall,
        hang_s: 30.0,
        max_points: 300,
    };
    let faults = vec![Answer::FailBefore, Answer::FailAfter];
    let mut v = vec![];
    for h in [HandlerKind::CondPut, HandlerKind::Rename, HandlerKind::Lock, HandlerKind::External] {
        let small = h != HandlerKind::External;
        // 2 writers + reader, no faults: all interleavings for the small handlers
        v.push(Item {
            name: format!("seam/{}/2w+r/nofault", h.tag()),
            seam: Some(seam_cfg(h, 2, vec![])),
            race: None,
            bounds: b(if small { 99 } else { ctx.tier.pick(3, 5) }, 0),
        });
        // 2 writers + reader, one failed / lost reply
        v.push(Item {
            name: format!("seam/{}/2w+r/1fault", h.tag()),
            seam: Some(seam_cfg(h, 2, faults.clone())),
            race: None,
            bounds: b(if small { ctx.tier.pick(3, 99) } else { ctx.tier.pick(2, 3) }, 1),
        });
        // 3 writers + reader
        v.push(Item {
            name: format!("seam/{}/3w+r", h.tag()),
            seam: Some(seam_cfg(h, 3, vec![])),
            race: None,
            bounds: b(ctx.tier.pick(2, 3), 0),
        });
        if !q {
            v.push(Item {
                name: format!("seam/{}/3w+r/1fault", h.tag()),
                seam: Some(seam_cfg(h, 3, faults.clone())),
                race: None,
                bounds: b(if small { 3 } else { 2 }, 1),
            });
        }
        if !q {
            v.push(Item {
                name: format!("seam/{}/2w+r/2faults", h.tag()),
                seam: Some(seam_cfg(h, 2, faults.clone())),
                race: None,
                bounds: b(2, 2),
            });
            // V1 naming, empty table
            let mut c = seam_cfg(h, 2, faults.clone());
            c.v2 = false;
            c.pre = 0;
            v.push(Item { name: format!("seam/{}/2w+r/v1-empty", h.tag()), seam: Some(c), race: None, bounds: b(3, 1) });
        }
    }
    // full Dataset writers
    let app = |from| Op::Append { from, n: 2, max_rows_per_file: 1000 };
    let pairs: Vec<Vec<Op>> = vec![
        vec![app(100), Op::Delete("k = 0".into())],
        vec![Op::Delete("k = 0".into()), Op::Update { col: "v".into(), val: "'z'".into(), pred: "k = 0".into() }],
        vec![app(100), app(200)],
    ];
    for h in [HandlerKind::CondPut, HandlerKind::Rename, HandlerKind::External] {
        for (i, ops) in pairs.iter().enumerate() {
            // quick: append+delete on every handler, delete+update (semantic conflict -> re-execution) on
            // the default handler; the rest in the thorough tier
            if q && (i == 2 || (h != HandlerKind::CondPut && i == 1)) {
                continue;
            }
            v.push(Item {
                name: format!("ds/{}/{}", h.tag(), ops.iter().map(|o| o.kind()).collect::<Vec<_>>().join("+")),
                seam: None,
                race: Some(RaceCfg { handler: h, ops: ops.clone(), answers: vec![] }),
                bounds: b(if q && h == HandlerKind::External { 1 } else { 2 }, 0),
            });
            if i == 0 && (!q || h != HandlerKind::Rename) {
                v.push(Item {
                    name: format!("ds/{}/{}/1fault", h.tag(), ops.iter().map(|o| o.kind()).collect::<Vec<_>>().join("+")),
                    seam: None,
                    race: Some(RaceCfg { handler: h, ops: ops.clone(), answers: faults.clone() }),
                    bounds: b(ctx.tier.pick(1, 2), 1),
                });
            }
        }
    }
    if let Some(f) = ctx.opts.get("only") {
        v.retain(|i| i.name.contains(f.as_str()));
    }
    v
}

pub struct ItemReport {
    pub name: String,
    pub rep: SchedReport,
    pub stats: BTreeMap<String, u64>,
    pub wall: f64,
}

fn debug_hang<S: Scenario>(scn: &S, rep: &SchedReport, b: &Bounds) {
    if std::env::var("VX_DEBUG_HANG").is_err() {
        return;
    }
    for m in rep.machinery_errors.iter().take(1) {
        if let Some(i) = m.find("(choices ") {
            let txt = &m[i + 9..m.len() - 1];
            let txt = txt.replace('(', "[").replace(')', "]");
            let parsed = serde_json::from_str::<Vec<(usize, usize)>>(&txt);
            if parsed.is_err() {
                eprintln!("HANG-REPLAY cannot parse {txt}: {:?}", parsed.as_ref().err());
            }
            if let Ok(ch) = parsed {
                let mut b2 = b.clone();
                b2.hang_s = 8.0;
                let e = sched::replay(scn, &ch, &b2);
                eprintln!("HANG-REPLAY hang={:?}\n trace={:#?}", e.hang, e.trace());
            }
        }
    }
}

pub fn run_item(it: &Item, workers: usize) -> Result<ItemReport, String> {
    let t0 = std::time::Instant::now();
    let (rep, stats) = if let Some(c) = &it.seam {
        let scn = SeamScn::prepare(c.clone());
        let rep = sched::explore(&scn, &it.bounds, workers);
        debug_hang(&scn, &rep, &it.bounds);
        let s = scn.stats.lock().unwrap().clone();
        (rep, s)
    } else {
        let scn = DsRace::prepare(it.race.clone().unwrap())?;
        let rep = sched::explore(&scn, &it.bounds, workers);
        debug_hang(&scn, &rep, &it.bounds);
        let s = scn.stats.lock().unwrap().clone();
        (rep, s)
    };
    Ok(ItemReport {
        name: it.name.clone(),
        rep,
        stats,
        wall: t0.elapsed().as_secs_f64(),
    })
}

/// Run a list of items one after the other (each uses all workers) and fold them into one outcome.
pub fn run_items(ctx: &Ctx, items: Vec<Item>, out: &mut Outcome, wall_cap: f64) {
    let mut total = SchedReport::default();
    let mut per_item = vec![];
    let mut outcomes: BTreeMap<String, u64> = BTreeMap::new();
    let start = std::time::Instant::now();
    let mut skipped = vec![];
    // narrow-seam items are CPU bound: one after the other, each on all workers. Dataset-level items
    // spend most of their time in Lance's real commit back-off sleeps: run them side by side.
    let (ds_items, seam_items): (Vec<Item>, Vec<Item>) = items.into_iter().partition(|i| i.name.starts_with("ds/"));
    let mut results: Vec<ItemReport> = vec![];
    // Dataset-level items first (side by side, at most 45% of the budget), then the seam items, each
    // with its own cap and never more than an equal share of what is left.
    {
        let left = (wall_cap * 0.45).min(wall_cap - start.elapsed().as_secs_f64());
        if !ds_items.is_empty() {
            let n = ds_items.len();
            let par = n.min(6);
            let per = (ctx.workers / par.max(1)).max(2);
            let rs = vcore::par_map(ds_items, par, |_, mut it| {
                let l = left - start.elapsed().as_secs_f64();
                if l < 1.0 {
                    return Err(format!("SKIPPED {}", it.name));
                }
                it.bounds.wall_s = it.bounds.wall_s.min(l);
                // Lance's commit back-off sleeps are real and scale with the wall-clock duration of
                // the first attempt (which includes the time parked at the gate): on a loaded
                // machine a retried schedule can legitimately sleep for many seconds
                it.bounds.hang_s = 240.0;
                let name = it.name.clone();
                run_item(&it, per).map_err(|e| format!("{name}: {e}"))
            });
            for r in rs {
                match r {
                    Ok(r) => results.push(r),
                    Err(e) if e.starts_with("SKIPPED ") => skipped.push(e[8..].to_string()),
                    Err(e) => vcore::machinery_error(&e),
                }
            }
        }
    }
    let n_seam = seam_items.len();
    for (i, mut it) in seam_items.into_iter().enumerate() {
        let left = wall_cap - start.elapsed().as_secs_f64();
        if left < 1.0 {
            skipped.push(it.name.clone());
            continue;
        }
        let share = (left / (n_seam - i) as f64).max(left.min(10.0));
        it.bounds.wall_s = it.bounds.wall_s.min(share.max(1.0));
        match run_item(&it, ctx.workers) {
            Ok(r) => results.push(r),
            Err(e) => vcore::machinery_error(&format!("{}: {e}", it.name)),
        }
    }
    for r in results {
        if ctx.opts.contains_key("debug") {
            eprintln!("{} schedules={} states={} cap={:?} wall={:.1}s\n  stats={:#?}", r.name, r.rep.schedules, r.rep.states, r.rep.cap_hit, r.wall, r.stats);
            for v in r.rep.violations.iter().take(1) {
                eprintln!("VIOL {} :: {}\n trace {:#?}", v.key, v.what, v.case["trace"]);
            }
        }
        if !r.rep.machinery_errors.is_empty() {
            vcore::machinery_error(&format!("{}: {}", r.name, r.rep.machinery_errors.join(" | ").chars().take(1200).collect::<String>()));
        }
        per_item.push(json!({
            "item": r.name, "schedules": r.rep.schedules, "released_calls": r.rep.steps, "states": r.rep.states,
            "transitions": r.rep.transitions, "max_decision_points": r.rep.max_points, "bounds": r.rep.bounds,
            "cap_hit": r.rep.cap_hit, "distinct_outcomes": r.stats.len(), "wall_s": (r.wall * 10.0).round() / 10.0,
        }));
        for (k, v) in &r.stats {
            *outcomes.entry(format!("{}: {k}", r.name)).or_insert(0) += v;
        }
        // vacuity guard: every racing item must show at least two distinct outcomes
        if r.stats.len() < 2 && r.rep.cap_hit.is_none() {
            vcore::machinery_error(&format!("vacuous exploration: item {} produced a single outcome {:?}", r.name, r.stats));
        }
        if r.name.starts_with("ds/") && r.rep.cap_hit.is_none() && !r.stats.keys().any(|k| k.contains("retried=true") || k.contains("Conflict")) {
            vcore::machinery_error(&format!("vacuous exploration: item {} never reached a commit conflict", r.name));
        }
        out.violations.extend(r.rep.violations.iter().cloned());
        total.merge(r.rep);
    }
    if !skipped.is_empty() {
        total.cap_hit = Some(format!("wall cap {wall_cap}s: items not run: {skipped:?}"));
    }
    total.fill(out);
    // the per-item outcome histogram is large; keep the counts per item and the 40 most frequent
    let mut top: Vec<(String, u64)> = outcomes.into_iter().collect();
    top.sort_by(|a, b| b.1.cmp(&a.1));
    let n_out = top.len();
    top.truncate(60);
    out.set("distinct_outcomes", json!(top.into_iter().collect::<BTreeMap<_, _>>()));
    out.set("distinct_outcomes_total", n_out as u64);
    out.set("items", Value::Array(per_item));
}

fn replay(art: &Value) -> Outcome {
    let mut out = Outcome::new("model_checking");
    let case = &art["case"];
    let scn_s = case["scenario"].as_str().unwrap_or("");
    let choices: Vec<(usize, usize)> = serde_json::from_value(case["choices"].clone())
        .unwrap_or_else(|_| vcore::machinery_error("replay artefact has no choices"));
    let b = Bounds { preemptions: 99, deviations: 99, hang_s: 30.0, ..Default::default() };
    let exec = if let Ok(c) = serde_json::from_str::<SeamCfg>(scn_s) {
        sched::replay(&SeamScn::prepare(c), &choices, &b)
    } else if let Ok(c) = serde_json::from_str::<RaceCfg>(scn_s) {
        let s = DsRace::prepare(c).unwrap_or_else(|e| vcore::machinery_error(&e));
        sched::replay(&s, &choices, &b)
    } else {
        vcore::machinery_error("replay artefact names no known scenario")
    };
    if let Some(h) = &exec.hang {
        vcore::machinery_error(&format!("replay did not complete: {h}"));
    }
    let want = art["key"].as_str().unwrap_or("");
    for mut v in exec.violations {
        if want.is_empty() || v.key == want {
            v.case = case.clone();
            out.violations.push(v);
        }
    }
    out.set("states", exec.state_hashes.len() as u64);
    out.set("transitions", exec.points.len().max(1) as u64);
    out.set("traces_validated_against_impl", 1u64);
    out.set("samples", json!([exec.points.iter().map(|p| p.norm()).collect::<Vec<_>>()]));
    out
}

pub fn run(ctx: &Ctx) -> Outcome {
    if let Some(art) = ctx.replay_case() {
        return replay(&art);
    }
    let mut out = Outcome::new("model_checking");
    let items = items(ctx);
    run_items(ctx, items, &mut out, ctx.tier.pick(40.0, 780.0));
    out.assume("sequentially consistent interleavings at storage-call granularity; code between gated calls is assumed data-race free");
    out.assume("MemStore = object_store contract (atomic put-if-absent / rename-if-absent / copy); MemExt = external manifest store with atomic conditional puts");
    out.assume("concurrent storage calls of ONE actor are serialised in arrival order; un-gated calls in the Dataset harness (data/deletion/index/transaction files under fresh random names) are argued to commute, not explored");
    out.assume("lock-based (CommitLock) handlers are not covered: the cooperative scheduler has no blocked-actor guard; UnsafeCommitHandler is out of scope by the property statement");
    out
}
