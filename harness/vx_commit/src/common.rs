//! Shared pieces of the storage-level checks: a gated in-memory `ExternalManifestStore`, commit
//! handler selection, the write-op alphabet, whole-history snapshots and the manifest immutability
//! monitor.

use arrow_array::{RecordBatch, RecordBatchIterator};
use async_trait::async_trait;
use lance::dataset::builder::DatasetBuilder;
use lance::dataset::optimize::{compact_files, CompactionOptions};
use lance::dataset::{
    CommitBuilder, InsertBuilder, MergeInsertBuilder, NewColumnTransform, UpdateBuilder, WhenMatched,
    WhenNotMatched, WriteMode, WriteParams,
};
use lance::Dataset;
use lance_core::{Error, Result};
use lance_index::optimize::OptimizeOptions;
use lance_index::scalar::ScalarIndexParams;
use lance_index::{DatasetIndexExt, IndexType};
use lance_table::io::commit::external_manifest::{ExternalManifestCommitHandler, ExternalManifestStore};
use lance_table::io::commit::{CommitHandler, ManifestLocation, ManifestNamingScheme, RenameCommitHandler};
use object_store::path::Path;
use serde::{Deserialize, Serialize};
use snafu::location;
use std::collections::BTreeMap;
use std::sync::{Arc, Mutex};
use vds::*;
use std::sync::atomic::{AtomicBool, Ordering};
use vstore::sched::{Gate, GateFn};
use vstore::{Answer, Call, Controller, Verb};

// ------------------------------------------------------------------------------------------------
// per-actor controller

/// Random-name-free form of a call, so that traces compare equal across executions. On top of
/// `vstore::norm_path` (uuid-like runs) this replaces long all-digit tokens outside `_versions/`
/// (the random id of `_deletions/<frag>-<version>-<id>.arrow`, detached version numbers).
pub fn norm_name(p: &str) -> String {
    let p = vstore::norm_path(p);
    let mut out = String::with_capacity(p.len());
    let b = p.as_bytes();
    let mut i = 0;
    while i < b.len() {
        let mut j = i;
        while j < b.len() && b[j].is_ascii_digit() {
            j += 1;
        }
        let in_versions = p[..i].ends_with("_versions/");
        if j - i >= 12 && !in_versions {
            out.push('U');
            i = j;
        } else if j > i {
            out.push_str(&p[i..j]);
            i = j;
        } else {
            out.push(b[i] as char);
            i += 1;
        }
    }
    out
}

pub fn norm_call(c: &Call) -> Call {
    Call {
        verb: c.verb,
        path: norm_name(&c.path),
        to: c.to.as_deref().map(norm_name),
    }
}

/// `vstore::sched` keeps ONE parked call per actor. Lance issues some storage calls of one writer
/// concurrently (e.g. the deletion files of two fragments), so every actor routes its calls through
/// an `ActorCtl`: gated calls of one actor enter the gate one at a time, in arrival order (FIFO
/// semaphore); a crashed actor never issues another call (a crash stops the whole process, including
/// tasks the writer spawned). Restriction stated in evidence: the relative order of *concurrent*
/// calls of a single actor is the arrival order, not enumerated.
#[derive(Clone)]
pub struct ActorCtl {
    gate: Gate,
    rule: GateFn,
    sem: Arc<tokio::sync::Semaphore>,
    dead: Arc<AtomicBool>,
    /// remaining gated calls before the actor's process is killed (see `with_budget`)
    budget: Arc<std::sync::atomic::AtomicI64>,
    /// remaining publish attempts (calls matching `is_publish_call`) before the actor is killed
    attempts: Arc<std::sync::atomic::AtomicI64>,
    attempt_kind: Option<HandlerKind>,
    killed: Arc<tokio::sync::Notify>,
}

impl std::fmt::Debug for ActorCtl {
    fn fmt(&self, f: &mut std::fmt::Formatter<'_>) -> std::fmt::Result {
        write!(f, "ActorCtl")
    }
}

impl ActorCtl {
    pub fn new(gate: &Gate, rule: GateFn) -> Self {
        Self {
            gate: gate.clone(),
            rule,
            sem: Arc::new(tokio::sync::Semaphore::new(1)),
            dead: Arc::new(AtomicBool::new(false)),
            budget: Arc::new(std::sync::atomic::AtomicI64::new(i64::MAX)),
            attempts: Arc::new(std::sync::atomic::AtomicI64::new(i64::MAX)),
            attempt_kind: None,
            killed: Arc::new(tokio::sync::Notify::new()),
        }
    }
    /// Kill the actor's process (like a crash, but not chosen by the explorer) when it is about to
    /// make more than `n` gated calls. Sound: being killed at any point is a legal environment
    /// behaviour, every state reached is a real state. Used to cut Lance's commit retry loop (up to
    /// 20 attempts with exponentially growing *real* sleeps) to a deterministic, short prefix.
    pub fn with_budget(self, n: usize) -> Self {
        self.budget.store(n as i64, Ordering::SeqCst);
        self
    }
    /// Kill the actor when it is about to make its (n+1)-th publish attempt under handler `kind`
    /// (same soundness argument as `with_budget`).
    pub fn with_attempt_budget(mut self, kind: HandlerKind, n: usize) -> Self {
        self.attempts.store(n as i64, Ordering::SeqCst);
        self.attempt_kind = Some(kind);
        self
    }
    /// Resolves when the budget was exhausted.
    pub async fn killed(&self) {
        self.killed.notified().await
    }
    pub async fn enter(&self, actor: usize, call: &Call) -> Answer {
        if self.dead.load(Ordering::SeqCst) {
            futures::future::pending::<()>().await;
        }
        let call = &norm_call(call);
        if !(self.rule)(actor, call) {
            return Answer::Normal;
        }
        let over_attempts = match self.attempt_kind {
            Some(k) if is_publish_call(k, call) => self.attempts.fetch_sub(1, Ordering::SeqCst) <= 0,
            _ => false,
        };
        if over_attempts || self.budget.fetch_sub(1, Ordering::SeqCst) <= 0 {
            self.dead.store(true, Ordering::SeqCst);
            self.killed.notify_one();
            futures::future::pending::<()>().await;
        }
        match self.sem.clone().acquire_owned().await {
            Ok(p) => p.forget(),
            Err(_) => futures::future::pending::<()>().await,
        }
        if self.dead.load(Ordering::SeqCst) {
            futures::future::pending::<()>().await;
        }
        let a = self.gate.enter(actor, call).await;
        if matches!(a, Answer::CrashBefore | Answer::CrashAfter) {
            self.dead.store(true, Ordering::SeqCst);
        }
        a
    }
    pub fn done(&self, actor: usize, call: &Call) {
        let call = &norm_call(call);
        if (self.rule)(actor, call) {
            self.gate.done(actor, call);
            self.sem.add_permits(1);
        }
    }
    pub fn controller(&self) -> Arc<dyn Controller> {
        Arc::new(self.clone())
    }
}

#[async_trait]
impl Controller for ActorCtl {
    async fn before(&self, actor: usize, call: &Call) -> Answer {
        self.enter(actor, call).await
    }
    fn after(&self, actor: usize, call: &Call, _ok: bool) {
        self.done(actor, call)
    }
}

// ------------------------------------------------------------------------------------------------
// in-memory external manifest store (gated)

#[derive(Clone, Debug, PartialEq, Eq)]
pub struct ExtEntry {
    pub path: String,
    pub size: u64,
    pub e_tag: Option<String>,
}

#[derive(Default, Clone)]
pub struct ExtState {
    pub map: BTreeMap<(String, u64), ExtEntry>,
    /// value of each key before its last mutation (None = absent) – what a `Stale` get answers
    pub prev: BTreeMap<(String, u64), Option<ExtEntry>>,
    /// answer `get_latest` would have given before the last mutation of that base
    pub prev_latest: BTreeMap<String, Option<(u64, ExtEntry)>>,
    /// number of calls served (reads, mutations)
    pub n_reads: u64,
    pub n_writes: u64,
    /// (actor, path) of every put_if_not_exists that took effect
    pub applied_puts: Vec<(usize, String)>,
    /// holder of the commit lock (`MemLock`), if any
    pub lock_holder: Option<usize>,
}

impl ExtState {
    fn latest(&self, base: &str) -> Option<(u64, ExtEntry)> {
        self.map
            .iter()
            .filter(|((b, _), _)| b == base)
            .max_by_key(|((_, v), _)| *v)
            .map(|((_, v), e)| (*v, e.clone()))
    }
    fn write(&mut self, base: &str, v: u64, e: ExtEntry) {
        let l = self.latest(base);
        self.prev_latest.insert(base.to_string(), l);
        let old = self.map.insert((base.to_string(), v), e);
        self.prev.insert((base.to_string(), v), old);
    }
}

/// `ExternalManifestStore` over a shared map. Every call asks the gate first (`Gate::enter`) and
/// reports completion (`Gate::done`), so ext-store calls are scheduling / fault points exactly like
/// object-store calls. Strongly consistent unless the explorer answers `Stale`.
#[derive(Clone)]
pub struct MemExt {
    pub inner: Arc<Mutex<ExtState>>,
    actor: usize,
    gate: Option<ActorCtl>,
    /// true: behaves like the DynamoDB store (locations carry size and e_tag);
    /// false: the trait's default `get_manifest_location` (size unknown => handler issues a head)
    pub report_size: bool,
}

impl std::fmt::Debug for MemExt {
    fn fmt(&self, f: &mut std::fmt::Formatter<'_>) -> std::fmt::Result {
        write!(f, "MemExt(actor={})", self.actor)
    }
}

impl Default for MemExt {
    fn default() -> Self {
        Self::new()
    }
}

impl MemExt {
    pub fn new() -> Self {
        Self {
            inner: Arc::new(Mutex::new(ExtState::default())),
            actor: 0,
            gate: None,
            report_size: false,
        }
    }
    pub fn from_state(s: &ExtState) -> Self {
        let m = Self::new();
        *m.inner.lock().unwrap() = s.clone();
        m
    }
    pub fn view(&self, actor: usize, gate: Option<ActorCtl>) -> Self {
        Self {
            inner: self.inner.clone(),
            actor,
            gate,
            report_size: self.report_size,
        }
    }
    pub fn state(&self) -> ExtState {
        self.inner.lock().unwrap().clone()
    }
    pub fn entries(&self) -> Vec<(String, u64, String)> {
        self.inner
            .lock()
            .unwrap()
            .map
            .iter()
            .map(|((b, v), e)| (b.clone(), *v, e.path.clone()))
            .collect()
    }
    pub fn shape_hash(&self) -> u64 {
        let g = self.inner.lock().unwrap();
        let mut acc = 0u64;
        for ((b, v), e) in g.map.iter() {
            let s = format!("{b}@{v}={}", vstore::norm_path(&e.path));
            acc = acc.wrapping_add(vcore::hash64(s.as_bytes()).wrapping_mul(0x9e3779b97f4a7c15));
        }
        acc
    }

    async fn run<T>(
        &self,
        verb: Verb,
        key: String,
        effect: impl FnOnce(&mut ExtState, bool) -> Result<T>,
    ) -> Result<T> {
        let call = Call::new(verb, key);
        {
            let mut g = self.inner.lock().unwrap();
            if verb.mutating() {
                g.n_writes += 1;
            } else {
                g.n_reads += 1;
            }
        }
        let ans = match &self.gate {
            Some(g) => g.enter(self.actor, &call).await,
            None => Answer::Normal,
        };
        let done = || {
            if let Some(g) = &self.gate {
                g.done(self.actor, &call)
            }
        };
        match ans {
            Answer::Normal | Answer::Stale => {
                let r = {
                    let mut g = self.inner.lock().unwrap();
                    effect(&mut g, ans == Answer::Stale)
                };
                done();
                r
            }
            Answer::FailBefore => {
                done();
                Err(Error::io(format!("injected fault: fail-before on {}", call.norm()), location!()))
            }
            Answer::FailAfter => {
                let r = {
                    let mut g = self.inner.lock().unwrap();
                    effect(&mut g, false)
                };
                done();
                match r {
                    Err(e) => Err(e),
                    Ok(_) => Err(Error::io(
                        format!("injected fault: fail-after (reply lost) on {}", call.norm()),
                        location!(),
                    )),
                }
            }
            Answer::CrashBefore => {
                done();
                futures::future::pending::<()>().await;
                unreachable!()
            }
            Answer::CrashAfter => {
                let _ = {
                    let mut g = self.inner.lock().unwrap();
                    effect(&mut g, false)
                };
                done();
                futures::future::pending::<()>().await;
                unreachable!()
            }
        }
    }

    fn loc(&self, version: u64, e: &ExtEntry) -> Result<ManifestLocation> {
        let path = Path::from(e.path.clone());
        let name = path.filename().unwrap_or_default().to_string();
        let naming_scheme = ManifestNamingScheme::detect_scheme(&name)
            .unwrap_or_else(|| ManifestNamingScheme::detect_scheme_staging(&name));
        Ok(ManifestLocation {
            version,
            path,
            size: Some(e.size),
            naming_scheme,
            e_tag: e.e_tag.clone(),
        })
    }

    async fn get_entry(&self, base_uri: &str, version: u64) -> Result<ExtEntry> {
        let key = (base_uri.to_string(), version);
        let b = base_uri.to_string();
        self.run(Verb::ExtGet, format!("ext:{base_uri}@{version}"), move |g, stale| {
            let cur = if stale && g.prev.contains_key(&key) {
                g.prev[&key].clone()
            } else {
                g.map.get(&key).cloned()
            };
            cur.ok_or_else(|| Error::NotFound {
                uri: b,
                location: location!(),
            })
        })
        .await
    }

    async fn get_latest_entry(&self, base_uri: &str) -> Result<Option<(u64, ExtEntry)>> {
        let b = base_uri.to_string();
        self.run(Verb::ExtGetLatest, format!("ext:{base_uri}@latest"), move |g, stale| {
            if stale && g.prev_latest.contains_key(&b) {
                Ok(g.prev_latest[&b].clone())
            } else {
                Ok(g.latest(&b))
            }
        })
        .await
    }
}

#[async_trait]
impl ExternalManifestStore for MemExt {
    async fn get(&self, base_uri: &str, version: u64) -> Result<String> {
        Ok(self.get_entry(base_uri, version).await?.path)
    }

    async fn get_manifest_location(&self, base_uri: &str, version: u64) -> Result<ManifestLocation> {
        let e = self.get_entry(base_uri, version).await?;
        let mut l = self.loc(version, &e)?;
        if !self.report_size {
            l.size = None;
            l.e_tag = None;
        }
        Ok(l)
    }

    async fn get_latest_version(&self, base_uri: &str) -> Result<Option<(u64, String)>> {
        Ok(self.get_latest_entry(base_uri).await?.map(|(v, e)| (v, e.path)))
    }

    async fn get_latest_manifest_location(&self, base_uri: &str) -> Result<Option<ManifestLocation>> {
        match self.get_latest_entry(base_uri).await? {
            None => Ok(None),
            Some((v, e)) => {
                let mut l = self.loc(v, &e)?;
                if !self.report_size {
                    l.size = None;
                    l.e_tag = None;
                }
                Ok(Some(l))
            }
        }
    }

    async fn put_if_not_exists(
        &self,
        base_uri: &str,
        version: u64,
        path: &str,
        size: u64,
        e_tag: Option<String>,
    ) -> Result<()> {
        let (b, p) = (base_uri.to_string(), path.to_string());
        let actor = self.actor;
        self.run(
            Verb::ExtPutIfNotExists,
            format!("ext:{base_uri}@{version}={path}"),
            move |g, _| {
                if g.map.contains_key(&(b.clone(), version)) {
                    return Err(Error::io(
                        format!("manifest already exists for uri: {b}, version: {version}"),
                        location!(),
                    ));
                }
                g.applied_puts.push((actor, p.clone()));
                g.write(&b, version, ExtEntry { path: p, size, e_tag });
                Ok(())
            },
        )
        .await
    }

    async fn put_if_exists(
        &self,
        base_uri: &str,
        version: u64,
        path: &str,
        size: u64,
        e_tag: Option<String>,
    ) -> Result<()> {
        let (b, p) = (base_uri.to_string(), path.to_string());
        self.run(
            Verb::ExtPutIfExists,
            format!("ext:{base_uri}@{version}={path}"),
            move |g, _| {
                if !g.map.contains_key(&(b.clone(), version)) {
                    return Err(Error::io(
                        format!("manifest does not exist for uri: {b}, version: {version}"),
                        location!(),
                    ));
                }
                g.write(&b, version, ExtEntry { path: p, size, e_tag });
                Ok(())
            },
        )
        .await
    }

    async fn delete(&self, base_uri: &str) -> Result<()> {
        let b = base_uri.to_string();
        self.run(Verb::ExtDelete, format!("ext:{base_uri}"), move |g, _| {
            g.map.retain(|(x, _), _| *x != b);
            Ok(())
        })
        .await
    }
}

// ------------------------------------------------------------------------------------------------
// commit handler selection

#[derive(Clone, Copy, Debug, PartialEq, Eq, Hash, PartialOrd, Ord, Serialize, Deserialize)]
pub enum HandlerKind {
    /// default for `memory://`: `ConditionalPutCommitHandler` chosen by `commit_handler_from_url`
    CondPut,
    /// `RenameCommitHandler` (staging file + rename_if_not_exists)
    Rename,
    /// `ExternalManifestCommitHandler` over `MemExt`
    External,
    /// the blanket `impl<T: CommitLock> CommitHandler for T` over `MemLock` (lock, head-check, write, release)
    Lock,
}

impl HandlerKind {
    pub fn tag(&self) -> &'static str {
        match self {
            HandlerKind::CondPut => "condput",
            HandlerKind::Rename => "rename",
            HandlerKind::External => "external",
            HandlerKind::Lock => "lock",
        }
    }
    /// A fresh handler instance for one actor. `None` = let Lance pick its default from the URI.
    pub fn make(&self, ext: &MemExt) -> Option<Arc<dyn CommitHandler>> {
        match self {
            HandlerKind::CondPut => None,
            HandlerKind::Rename => Some(Arc::new(RenameCommitHandler)),
            HandlerKind::External => Some(Arc::new(ExternalManifestCommitHandler {
                external_manifest_store: Arc::new(ext.clone()),
            })),
            HandlerKind::Lock => Some(Arc::new(MemLock { ext: ext.clone() })),
        }
    }
}

/// A `CommitLock` that WAITS for its holder (as the trait documents): `lock()` is a gated
/// `LockAcquire` call that the scheduler releases only while the lock is free
/// (`Scenario::enabled` => `lock_free`), `release()` is a gated `LockRelease`. The lock state lives
/// next to the external-store state so that every view of one table shares it.
#[derive(Clone, Debug)]
pub struct MemLock {
    pub ext: MemExt,
}

pub struct MemLease {
    ext: MemExt,
}

pub fn lock_free(ext: &MemExt) -> bool {
    ext.inner.lock().unwrap().lock_holder.is_none()
}

impl MemLock {
    async fn step(ext: &MemExt, verb: Verb, acquire: bool) -> std::result::Result<(), lance_table::io::commit::CommitError> {
        let call = Call::new(verb, "lock:tbl");
        let ans = match &ext.gate {
            Some(g) => g.enter(ext.actor, &call).await,
            None => Answer::Normal,
        };
        let apply = |ext: &MemExt| {
            let mut g = ext.inner.lock().unwrap();
            if acquire {
                assert!(g.lock_holder.is_none(), "LockAcquire released while the lock is held");
                g.lock_holder = Some(ext.actor);
            } else {
                g.lock_holder = None;
            }
        };
        let done = |ext: &MemExt| {
            if let Some(g) = &ext.gate {
                g.done(ext.actor, &call)
            }
        };
        let err = |w: &str| lance_table::io::commit::CommitError::OtherError(Error::io(format!("injected fault: {w} on {}", call.norm()), location!()));
        match ans {
            Answer::Normal | Answer::Stale => {
                apply(ext);
                done(ext);
                Ok(())
            }
            Answer::FailBefore => {
                done(ext);
                Err(err("fail-before"))
            }
            Answer::FailAfter => {
                apply(ext);
                done(ext);
                Err(err("fail-after"))
            }
            Answer::CrashBefore => {
                done(ext);
                futures::future::pending::<()>().await;
                unreachable!()
            }
            Answer::CrashAfter => {
                apply(ext);
                done(ext);
                futures::future::pending::<()>().await;
                unreachable!()
            }
        }
    }
}

#[async_trait]
impl lance_table::io::commit::CommitLock for MemLock {
    type Lease = MemLease;
    async fn lock(&self, _version: u64) -> std::result::Result<MemLease, lance_table::io::commit::CommitError> {
        Self::step(&self.ext, Verb::LockAcquire, true).await?;
        Ok(MemLease { ext: self.ext.clone() })
    }
}

#[async_trait]
impl lance_table::io::commit::CommitLease for MemLease {
    async fn release(&self, _success: bool) -> std::result::Result<(), lance_table::io::commit::CommitError> {
        MemLock::step(&self.ext, Verb::LockRelease, false).await
    }
}

/// One table: object store + external store, seen by one actor.
#[derive(Clone)]
pub struct Tbl {
    pub env: Env,
    pub ext: MemExt,
    pub kind: HandlerKind,
    /// naming scheme used when this table is created
    pub v2_paths: bool,
    /// create the table without the default auto-cleanup config
    pub no_auto_cleanup: bool,
}

impl Tbl {
    pub fn new(kind: HandlerKind) -> Self {
        Self {
            env: Env::new(),
            ext: MemExt::new(),
            kind,
            v2_paths: true,
            no_auto_cleanup: false,
        }
    }
    pub fn restore(kind: HandlerKind, s: &TblSnap) -> Self {
        Self {
            env: Env::from_store(vstore::MemStore::from_snapshot(&s.store)),
            ext: MemExt::from_state(&s.ext),
            kind,
            v2_paths: true,
            no_auto_cleanup: false,
        }
    }
    pub fn snapshot(&self) -> TblSnap {
        TblSnap {
            store: self.env.store.snapshot(),
            ext: self.ext.state(),
        }
    }
    /// Same table seen by `actor` through `gate` (None = un-gated observer).
    pub fn actor(&self, actor: usize, gate: Option<&ActorCtl>) -> Self {
        Self {
            env: self.env.actor(actor, gate.map(|g| g.controller())),
            ext: self.ext.view(actor, gate.cloned()),
            kind: self.kind,
            v2_paths: self.v2_paths,
            no_auto_cleanup: self.no_auto_cleanup,
        }
    }
    pub fn handler(&self) -> Option<Arc<dyn CommitHandler>> {
        self.kind.make(&self.ext)
    }
    pub fn write_params(&self, mode: WriteMode) -> WriteParams {
        let mut p = self.env.write_params(mode);
        p.commit_handler = self.handler();
        p
    }
    pub fn builder(&self) -> DatasetBuilder {
        let mut rp = self.env.read_params();
        rp.commit_handler = self.handler();
        DatasetBuilder::from_uri(URI).with_read_params(rp)
    }
    pub async fn open(&self) -> Result<Dataset> {
        self.builder().load().await
    }
    pub async fn open_version(&self, v: u64) -> Result<Dataset> {
        self.builder().with_version(v).load().await
    }
    pub fn shape_hash(&self) -> u64 {
        self.env.store.shape_hash() ^ self.ext.shape_hash().rotate_left(17)
    }
}

#[derive(Clone, Default)]
pub struct TblSnap {
    pub store: vstore::Snapshot,
    pub ext: ExtState,
}

// ------------------------------------------------------------------------------------------------
// write-op alphabet

#[derive(Clone, Debug, PartialEq, Eq, Hash, PartialOrd, Ord, Serialize, Deserialize)]
pub enum Op {
    Create,
    Append { from: i32, n: i32, max_rows_per_file: usize },
    Overwrite { from: i32, n: i32 },
    Delete(String),
    Update { col: String, val: String, pred: String },
    MergeUpsert,
    MergeInsertOnly,
    Compact,
    CreateIndexBtree,
    CreateIndexBitmap,
    OptimizeIndices,
    AddColumn,
    DropColumn,
    UpdateConfig,
    UpdateSchemaMetadata,
    Restore(u64),
    DetachedAppend,
    Tag(String, u64),
    /// tag the version that is latest when the op runs
    TagLatest(String),
    /// lance.auto_cleanup.interval / retain_versions (no wall-clock component)
    AutoCleanup { interval: u64, retain: u64 },
}

impl Op {
    pub fn kind(&self) -> &'static str {
        match self {
            Op::Create => "create",
            Op::Append { .. } => "append",
            Op::Overwrite { .. } => "overwrite",
            Op::Delete(_) => "delete",
            Op::Update { .. } => "update",
            Op::MergeUpsert => "merge_upsert",
            Op::MergeInsertOnly => "merge_insert_only",
            Op::Compact => "compact",
            Op::CreateIndexBtree => "create_index_btree",
            Op::CreateIndexBitmap => "create_index_bitmap",
            Op::OptimizeIndices => "optimize_indices",
            Op::AddColumn => "add_column",
            Op::DropColumn => "drop_column",
            Op::UpdateConfig => "update_config",
            Op::UpdateSchemaMetadata => "update_schema_metadata",
            Op::Restore(_) => "restore",
            Op::DetachedAppend => "detached_append",
            Op::Tag(..) => "tag",
            Op::TagLatest(_) => "tag_latest",
            Op::AutoCleanup { .. } => "auto_cleanup",
        }
    }
}

fn reader(batch: RecordBatch) -> RecordBatchIterator<std::vec::IntoIter<std::result::Result<RecordBatch, arrow_schema::ArrowError>>> {
    let schema = batch.schema();
    RecordBatchIterator::new(vec![Ok(batch)].into_iter(), schema)
}

/// Apply one write op through `t` (all I/O goes through `t.env.store` / `t.ext`, i.e. through the
/// actor's gate). Opens the table itself with a fresh session. Returns a short outcome label.
pub async fn apply_op(t: &Tbl, op: &Op) -> Result<String> {
    match op {
        Op::Create => {
            let mut p = t.write_params(WriteMode::Create);
            p.enable_v2_manifest_paths = t.v2_paths;
            if t.no_auto_cleanup {
                // without this the table gets lance.auto_cleanup.older_than = 14 days, a wall-clock condition
                p.auto_cleanup = None;
            }
            t.env.write(URI, vec![base_batch(&default_rows(0..3))], p).await?;
        }
        Op::Append { from, n, max_rows_per_file } => {
            let mut p = t.write_params(WriteMode::Append);
            p.max_rows_per_file = *max_rows_per_file;
            t.env.write(URI, vec![base_batch(&default_rows(*from..*from + *n))], p).await?;
        }
        Op::Overwrite { from, n } => {
            let p = t.write_params(WriteMode::Overwrite);
            t.env.write(URI, vec![base_batch(&default_rows(*from..*from + *n))], p).await?;
        }
        Op::Delete(pred) => {
            let mut ds = t.open().await?;
            ds.delete(pred).await?;
        }
        Op::Update { col, val, pred } => {
            let ds = Arc::new(t.open().await?);
            UpdateBuilder::new(ds)
                .update_where(pred)?
                .set(col, val)?
                .build()?
                .execute()
                .await?;
        }
        Op::MergeUpsert | Op::MergeInsertOnly => {
            let ds = Arc::new(t.open().await?);
            let src = vec![
                MRow::new(1, Some(7), Some("m")),
                MRow::new(4, Some(8), None),
                MRow::new(200, Some(1), Some("n")),
            ];
            let mut b = MergeInsertBuilder::try_new(ds, vec!["uid".to_string()])?;
            if matches!(op, Op::MergeUpsert) {
                b.when_matched(WhenMatched::UpdateAll);
            }
            b.when_not_matched(WhenNotMatched::InsertAll);
            b.try_build()?.execute_reader(reader(base_batch(&src))).await?;
        }
        Op::Compact => {
            let mut ds = t.open().await?;
            let o = CompactionOptions {
                target_rows_per_fragment: 1_000_000,
                materialize_deletions_threshold: 0.0,
                ..Default::default()
            };
            let m = compact_files(&mut ds, o, None).await?;
            if m.fragments_removed == 0 {
                return Ok("noop".into());
            }
        }
        Op::CreateIndexBtree => {
            let mut ds = t.open().await?;
            ds.create_index(&["k"], IndexType::BTree, Some("k_idx".into()), &ScalarIndexParams::default(), true)
                .await?;
        }
        Op::CreateIndexBitmap => {
            let mut ds = t.open().await?;
            ds.create_index(&["v"], IndexType::Bitmap, Some("v_idx".into()), &ScalarIndexParams::default(), true)
                .await?;
        }
        Op::OptimizeIndices => {
            let mut ds = t.open().await?;
            ds.optimize_indices(&OptimizeOptions::default()).await?;
        }
        Op::AddColumn => {
            let mut ds = t.open().await?;
            ds.add_columns(
                NewColumnTransform::SqlExpressions(vec![("k2".into(), "k + 1".into())]),
                None,
                None,
            )
            .await?;
        }
        Op::DropColumn => {
            let mut ds = t.open().await?;
            ds.drop_columns(&["v"]).await?;
        }
        Op::UpdateConfig => {
            let mut ds = t.open().await?;
            ds.update_config([("a", "1")]).await?;
        }
        Op::UpdateSchemaMetadata => {
            let mut ds = t.open().await?;
            ds.update_schema_metadata([("sm", "x")]).await?;
        }
        Op::Restore(v) => {
            let ds = t.open().await?;
            let mut old = ds.checkout_version(*v).await?;
            old.restore().await?;
        }
        Op::DetachedAppend => {
            let ds = Arc::new(t.open().await?);
            let p = t.write_params(WriteMode::Append);
            let txn = InsertBuilder::new(ds.clone())
                .with_params(&p)
                .execute_uncommitted(vec![base_batch(&default_rows(300..302))])
                .await?;
            let d = CommitBuilder::new(ds).with_detached(true).execute(txn).await?;
            return Ok(format!("detached:{}", d.version().version));
        }
        Op::Tag(name, v) => {
            let ds = t.open().await?;
            ds.tags().create(name, *v).await?;
        }
        Op::TagLatest(name) => {
            let ds = t.open().await?;
            let v = ds.version().version;
            ds.tags().create(name, v).await?;
        }
        Op::AutoCleanup { interval, retain } => {
            let mut ds = t.open().await?;
            ds.update_config([
                ("lance.auto_cleanup.interval".to_string(), interval.to_string()),
                ("lance.auto_cleanup.retain_versions".to_string(), retain.to_string()),
            ])
            .await?;
        }
    }
    Ok("ok".into())
}

thread_local! {
    static LAST_PANIC: std::cell::RefCell<String> = const { std::cell::RefCell::new(String::new()) };
}

/// Panic hook that stays quiet but remembers where the last panic of this thread happened
/// (`file:line` relative to the repo), for classification keys.
pub fn install_panic_site_hook() {
    std::panic::set_hook(Box::new(|info| {
        let site = info
            .location()
            .map(|l| {
                let f = l.file();
                let f = f.strip_prefix("/repo/").unwrap_or(f);
                format!("{f}:{}", l.line())
            })
            .unwrap_or_else(|| "unknown".into());
        if std::env::var("VX_DEBUG_PANIC").is_ok() {
            eprintln!("PANIC at {site}: {info}");
        }
        LAST_PANIC.with(|c| *c.borrow_mut() = site);
    }));
}

pub fn last_panic_site() -> String {
    LAST_PANIC.with(|c| c.borrow().clone())
}

/// Run `fut`, turning a panic into `Err(message)`.
pub async fn catch_async<T>(fut: impl std::future::Future<Output = T>) -> std::result::Result<T, String> {
    use futures::FutureExt;
    match std::panic::AssertUnwindSafe(fut).catch_unwind().await {
        Ok(v) => Ok(v),
        Err(e) => Err(vcore::panic_message(&e)),
    }
}

/// Snapshot of every listed version (by number).
pub async fn snap_all(t: &Tbl) -> Result<BTreeMap<u64, VersionSnap>> {
    let ds = t.open().await?;
    let mut out = BTreeMap::new();
    for v in ds.versions().await? {
        let d = t.open_version(v.version).await?;
        out.insert(v.version, snap(&d).await?);
    }
    Ok(out)
}

/// Root-cause monitor for the external manifest protocol: a writer whose `put_if_not_exists` took
/// effect but was answered with an error (reply lost) must not treat its commit as failed. The
/// monitor fires when such a writer afterwards deletes the very staging manifest it committed
/// (`ExternalManifestCommitHandler::commit`'s conflict path). Call after every released call;
/// the store's op log must be enabled.
#[derive(Default)]
pub struct LostReplyWatch {
    lost: Mutex<Vec<(usize, String)>>,
}

impl LostReplyWatch {
    pub fn observe(&self, t: &Tbl, p: &vstore::sched::PointRec) -> Option<String> {
        let log = t.env.store.take_log();
        if p.call().verb == Verb::ExtPutIfNotExists && p.ans() == Answer::FailAfter {
            if let Some((a, path)) = t.ext.state().applied_puts.last() {
                if *a == p.actor() {
                    self.lost.lock().unwrap().push((*a, path.clone()));
                }
            }
        }
        if p.call().verb == Verb::Delete {
            if let Some(rec) = log.iter().rev().find(|r| r.actor == p.actor() && r.call.verb == Verb::Delete) {
                if self.lost.lock().unwrap().iter().any(|(a, s)| *a == rec.actor && *s == rec.call.path) {
                    return Some(format!(
                        "actor {} got an error for a put_if_not_exists that took effect (reply lost) and then deleted the staging manifest {} it had committed",
                        rec.actor,
                        norm_name(&rec.call.path)
                    ));
                }
            }
        }
        None
    }
}

/// An external-store entry whose object does not exist (the store "points into the void").
pub fn ext_dangling(t: &Tbl) -> Option<String> {
    for (b, v, path) in t.ext.entries() {
        if !t.env.store.exists(&path) {
            return Some(format!("external store maps {b}@{v} to {} which does not exist", norm_name(&path)));
        }
    }
    None
}

/// Which part of the table a path belongs to (for classification keys).
pub fn path_class(p: &str) -> &'static str {
    if p.starts_with("ext:") {
        "ext"
    } else if p.contains("/_versions/") {
        if p.ends_with(".manifest") {
            "manifest"
        } else {
            "staging-manifest"
        }
    } else if p.contains("/_transactions/") {
        "txn"
    } else if p.contains("/_indices/") {
        "index"
    } else if p.contains("/_deletions/") {
        "deletion"
    } else if p.contains("/data/") {
        "data"
    } else if p.contains("/_refs/") {
        "refs"
    } else {
        "other"
    }
}

/// Is this call the one whose effect publishes a new version under handler `kind`?
pub fn is_publish_call(kind: HandlerKind, c: &Call) -> bool {
    match kind {
        HandlerKind::CondPut => c.verb == Verb::PutCreate && path_class(&c.path) == "manifest",
        HandlerKind::Rename => {
            c.verb == Verb::RenameIfNotExists
                && c.to.as_deref().map(|t| path_class(t) == "manifest").unwrap_or(false)
        }
        HandlerKind::Lock => c.verb == Verb::Put && path_class(&c.path) == "manifest",
        HandlerKind::External => {
            // the commit's put_if_not_exists names a staging path; the reader-side migration of a
            // not-yet-boarded version names the final path
            c.verb == Verb::ExtPutIfNotExists && !c.path.ends_with(".manifest")
        }
    }
}

/// Monitor state: first content seen at each final manifest path.
#[derive(Default)]
pub struct ManifestWatch {
    pub seen: Mutex<BTreeMap<String, u64>>,
}

impl ManifestWatch {
    /// Returns the paths whose content changed or which disappeared since first seen.
    pub fn observe(&self, store: &vstore::MemStore) -> Vec<String> {
        let mut bad = vec![];
        let mut g = self.seen.lock().unwrap();
        let now: BTreeMap<String, u64> = store
            .paths()
            .into_iter()
            .filter(|p| path_class(p) == "manifest")
            .map(|p| {
                let h = store.read(&p).map(|b| vcore::hash64(&b)).unwrap_or(0);
                (p, h)
            })
            .collect();
        for (p, h) in g.iter() {
            match now.get(p) {
                Some(h2) if h2 == h => {}
                Some(_) => bad.push(format!("content of {} changed", vstore::norm_path(p))),
                None => bad.push(format!("{} disappeared", vstore::norm_path(p))),
            }
        }
        for (p, h) in now {
            g.entry(p).or_insert(h);
        }
        bad
    }
}
